#!/usr/bin/env python3
"""Generates /verif/MANIFEST.json from the table below (kept in one place so the manifest stays valid)."""
import json, subprocess

ALL = ["C%02d" % i for i in range(1, 21)]

# id -> (engine, technique, level text, level note, design_ref)
CHECKS = {
    "C01": ("E1", "bounded-exhaustive enumeration of small multigraphs x algorithms x directions x orientations on the real search entry points vs structural walk/tree clauses",
            "Every labelled multigraph of the stated families (parallel edges, self loops, dead ends, disconnected parts) is searched with Dijkstra, A* (admissible and inadmissible weight factors), single-via KSP, forward and reverse, vertex- and edge-oriented over every ordered pair of distinct edges; every returned route and tree is checked against the contiguity / rooted-tree clauses; a re-opening sweep (five vertices on an unevenly spaced line, up to five metric edges, weighted A* with factors 2 and 10) covers vertices that are re-labelled after they were expanded. Yen's routes are put through the same clauses inside the sandboxed C13 check.",
            "Trusted: clause checkers in props/search_common.rs. Reverse direction only for vertex orientation (no repository entry point issues an edge-oriented reverse search). Hash order only breaks ties.", "§4.1"),
    "C02": ("E1", "bounded-exhaustive enumeration of multigraphs x unit/weight/rate/surcharge configurations on the real search vs Bellman-Ford over reference edge costs",
            "For every enumerated network and configuration the total cost of routes[0] is compared with the Bellman-Ford minimum over independently computed reference edge costs (intended weights, rates, physical units); Dijkstra everywhere, A* (wf<=1) on metric networks (3x3 lattice geometry and an unevenly spaced line on the equator, where a heuristic taken at the wrong end of an edge changes the answer), forward and reverse, vertex and edge orientation; a SearchApp layer checks that weights/rates given in the query replace the configured ones.",
            "Trusted: refmodel (Bellman-Ford, unit factors). Tolerance 1e-8 in base units, 3e-3 where the repository's unit tables (good to ~2e-4) intervene.", "§4.2"),
    "C03": ("E1", "bounded-exhaustive enumeration of multigraphs x speed/heading/delay/unit/initial-state configurations; every returned route walked against reference accumulation",
            "Every route returned by Dijkstra, A*, single-via KSP (incl. the re-oriented reverse half), both directions and orientations, is walked edge by edge: reported state = reference accumulation of length, length/speed and classified turn delay in the configured units, each edge's cost = weighted rated change of the reported state, monotone distance/time, declared initial state; raw, factor, offset and combined vehicle rates; a re-opening sweep under weighted A* (factors 1.5-10) on the lattice and on the uneven line.",
            "Trusted: refmodel arithmetic in world/sw.rs. Edge-oriented origin/destination edges may follow the zero-cost convention (statement's exception).", "§4.3"),
    "C04": ("E1", "bounded-exhaustive enumeration of multigraphs x restriction configurations built by the repository's own frontier services on the real search vs raw restriction inputs in physical units",
            "For every enumerated network: road-class tables x allowed sets (numeric and mapped names), the six vehicle-restriction kinds with limit and vehicle one step apart in different units, every pair (and some triples) of kinds as several rows on the same edge, the empty allowed class set, every single restricted turn and pairs of them, combined models of 2-3 members, and edge cuts (EdgeCutFrontierModel); Dijkstra, A*, single-via KSP, forward/reverse, vertex/edge orientation; every route and tree edge must be permitted by the raw inputs, no consecutive route pair may be a restricted turn; Yen's algorithm (which wraps the query's frontier model for its spur searches) runs the same clauses in worker processes over networks whose least-cost route has >= 3 edges x one forbidden edge off that route.",
            "Trusted: reference evaluation of restrictions (refmodel units, 1e-3 dead band). Origin/destination edges of edge-oriented queries are chosen among permitted edges.", "§4.4"),
    "C05": ("E1", "bounded-exhaustive enumeration of (also disconnected) multigraphs x edge-local restriction sets on the real search vs BFS reachability / Bellman-Ford labels",
            "For every enumerated network, restriction set, algorithm, direction and orientation: Ok with a valid non-empty route iff the destination is BFS-reachable over permitted edges, otherwise exactly the no-path error; destination-less searches return exactly the reachable set with least-cost labels.",
            "Trusted: refmodel BFS/Bellman-Ford. Restrictions are an edge-set frontier model supplied by the harness (the repository's own restriction models are exercised in C04).", "§4.5"),
    "C06": ("E2+E1+E3", "exhaustive enumeration of batch histories x configurations on the real CompassApp::run vs alone-responses; exhaustive weight vectors on the load balancer; stateless schedule exploration (preemption-bounded DFS over lock/write points) of the real batch workers",
            "(a) every ordered batch of length 1-3 (quick) / 1-4 (thorough) over 7 query kinds x configured parallelism 1-4 x per-run override x balancer {none, haversine, custom} x configured persistence policy x {run states persist, discard, nothing} (twelve configurations in parallel worker processes): the multiset of projected responses equals the union of what each query returns alone, count = sum of expansions, file and returned responses agree; (b) all weight vectors {absent,0,1,2,5}^n (n<=5/6) x parallelism 1-4 through apply_load_balancing_policy: every query in exactly one of <= parallelism bins, balanced; (c) E3: 2x2 scenario explored completely (3 864 schedules), 3-task and shared-prediction-cache scenarios (warm cache; cold cache = a fresh application built for every explored schedule, with the workers meeting the cache keys in the same and in different orders) up to a preemption bound: each task's returned responses equal the alone-responses in order, no deadlock.",
            "Trusted: rayon's scheduler/collect; structural argument that shared state is only behind the hooked mutex sites and the file (DESIGN §2.3); floats compared at 12 significant digits (hash-ordered sums).", "§4.6"),
    "C07": ("E1", "bounded-exhaustive enumeration of cost configurations x state-pair lattice on CostModel and EdgeTraversal vs closed-form cost",
            "Every cost configuration of the alphabet (1-3 features, weights incl. zero and negative, 8 rate mappings incl. nested combined for 2-3 features and, for one feature, every rate term of bounded shape (atoms and Combined lists up to length 2/3 whose elements are atoms or nested Combined lists), 5 network rates, sum/mul) is evaluated on every (prev,next) pair of the {-2..2}^k lattice through traversal_cost, access_cost, cost_estimate and through forward/reverse EdgeTraversal with synthetic access/traversal models: finite, strictly positive (non-negative for estimates), equal to the formula with floor under sum, linear in weights, zero-weight features ignored.",
            "Trusted: closed-form reference in props/c07.rs. Mul aggregation: positivity/finiteness only.", "§4.7"),
    "C08": ("E2+E1", "exhaustive enumeration of edge histories (all sequences up to a depth over a 12-edge alphabet) applied to the real EnergyTraversalModel vs reference energy / state-of-charge arithmetic",
            "For every powertrain configuration (ICE/BEV/PHEV x prediction-model, time-model, grade-table and output units x capacity x starting charge x prediction cache off / 64 / 1 / 2 entries; synthetic smooth models incl. negative rates and the bundled Camry/Bolt/Volt models behind the interpolated model) every edge sequence up to length 4 (quick) / 5 (thorough) is traversed step by step: energy = rate x adjustment x length in the rate's distance unit, additive; charge starts at the query value, stays in 0-100, exact change when unclamped; PHEV draws one source per edge by start-of-edge charge; best-case estimate = ideal rate x great-circle distance; bad starting charges rejected.",
            "Trusted: reference arithmetic in props/c08.rs; synthetic PredictionModel honouring input units through physical factors. 3e-3 (2e-2 for bundled models) relative to accumulated magnitudes.", "§4.8"),
    "C09": ("E1", "bounded-exhaustive enumeration of the complete finite unit-pair space on the real code vs physical reference factors",
            "Every ordered unit pair of all six families and every constructor unit triple is executed on the implementation and compared with SI factors, linearity, identity and round-trip laws; the pair space is finite and covered completely.",
            "Trusted: reference factors in harness/src/refmodel/units.rs; magnitudes outside the alphabet follow from linearity of constant-factor tables.", "§4.9"),
    "C10": ("E1", "bounded-exhaustive enumeration of tie-free multigraphs x every limit value 0..N+3 of every limit kind on the real search, work observed through a recording frontier model",
            "For every tie-free network the unlimited search is compared with the same search under every iteration / solution-size / combined limit value from 0 to beyond what it needed, generous runtime budgets (frequency 1/2/5) and exhausted ones (2 ms limit, 3 ms sleep inside the k-th traversal): observed expansions <= limit, labelled vertices <= limit + max degree, terminated error names the limit, any returned result identical to the unlimited one, success monotone, stop at the next scheduled check; under Dijkstra the iteration limit is compared with the reference pop count (the search completes iff the limit exceeds the number of vertices nearer than the destination, dead ends included). Yen's algorithm (whose spur searches run under the same limits) is swept inside sandbox worker processes over a path+detour family: a result under a limit is identical to the unlimited one or a terminated error, never a shorter list of routes.",
            "Trusted: recording frontier/traversal wrappers (harness). Expansions of vertices without incident edges are invisible (lower bound, cannot false-alarm). KSP: result-level clauses only.", "§4.10"),
    "C11": ("E2+E1", "explicit-state breadth-first search over insert histories applied to live CompactOrderedHashMap objects vs Vec<(K,V)> reference; bounded-exhaustive feature-set enumeration for the state model",
            "All ordered key lists over 7 (quick) / 8 (thorough) keys are reached by BFS from the empty map (13 700 / 109 601 states), every insert/overwrite transition is executed on a live clone and the whole public API compared with the reference; constructors new/collect/from for every distinct-key list and every duplicate-key list, followed by 1-2 further inserts; state models of 0..8(9) features over 16 feature kinds through new/extend/TryFrom/SearchApp::build_search_instance with slot-bijection, initial-state and get/set/add round-trip clauses.",
            "Trusted: Vec<(K,V)> reference; dedup on key order justified by parametricity in V (values are still compared on the concrete path). IndexedEntry observed through Debug.", "§4.11"),
    "C12": ("E1", "deviation-bounded exhaustive enumeration of malformed batches (all 0/1/2-deviation neighbours of valid queries + structural specials) on the real CompassApp::run inside sandbox worker processes",
            "14 application configurations (plain, speed table, grid search, vertex/edge matching, load balancer, inject, energy model, both KSP algorithms, combined frontier) x the empty batch, every valid query, every single deviation (field removed or replaced by each of the deviant values incl. coordinates beyond f32 range, every field the configuration reads), every pair of deviations (thorough), structural specials, each alone and before/after a valid query: the worker must not panic, abort, exhaust memory or exceed the deadline; run returns Ok; one well-formed response per query echoing its request; unanswerable queries get an error response; the valid neighbour is served as if alone.",
            "Trusted: sandbox classification (timeout re-run alone with 4x deadline; RLIMIT_AS). 'Every JSON value' approximated by <=2-deviation neighbours over a 9-value alphabet.", "§4.12"),
    "C13": ("E1", "bounded-exhaustive enumeration of multigraphs x KSP configurations on the real k-shortest-paths code inside sandbox worker processes with per-case deadlines",
            "Every enumerated network x {single-via, Yen} x k x similarity (accept-all, cosine thresholds below, at and above 1) x termination criterion (exact, max-iteration 5 / 1 / 0, factor 2 / 0) x underlying search (k from configuration or query): 1..k routes when reachable, first is least cost (Bellman-Ford), every route passes the C01 structure clauses, is loop free and passes the C03 accumulation oracle, pairwise distinct, pairwise below the similarity threshold (reference cosine), accept-all >= any threshold, terminates within the deadline, never an error for an answerable query.",
            "Trusted: sandbox classification of hangs; reference similarity. Yen's quick tier uses a covering half of its configuration product (its hanging cases cost a full timeout each).", "§4.13"),
    "C14": ("E1", "bounded-exhaustive enumeration of grids x multilinear data x point lattices on the real interpolators; bundled models x grids x lattices on the interpolated powertrain model vs the separately loaded underlying model",
            "(a) uniform and non-uniform axes (2-4 knots, and linspace grids whose accumulated last knot falls short of the nominal bound), dimensions 1,2,3 and N=2..4, every multilinear coefficient combination (covering subset for N>=3), lattice of knots / midpoints / quarter points / bounds / bounds+-1e-9 / far outside: equality inside, agreement fixed-D vs N-D also on non-multilinear data, Err outside. (b) 6 (quick) / 45 (thorough) bundled random forests x 2-4 grids: prediction within min/max of the four surrounding underlying values, equality at grid points, continuity across grid lines, outside = nearest boundary, 3x3 input units, the same grid configured through load_prediction_model, and 2 (quick) / 4 (thorough) unit declarations per model (speed and rate units built on different distance units).",
            "Trusted: smartcore model loaded separately as the oracle; grid coordinates from the repository's own linspace.", "§4.14"),
    "C15": ("E1", "bounded-exhaustive enumeration of edge/vertex lists x file variants loaded by the real loaders vs the lists themselves",
            "All G(3,m,2) multigraphs with self loops, stars and hubs with in/out degree 0..8 and isolated vertices are written as plain and gzip CSV in all 6 vertex column orders, with extra columns, with explicit or scanned counts, with and without a trailing newline, loaded through Graph::from_files and DefaultGraphBuilder and compared accessor by accessor (counts, edges by id, vertices, out/in edge sets, triplets, forward = reverse view); per-edge tables (speed, grade, class, heading) row-aligned; bindings accessors.",
            "Trusted: the lists the files were written from. Coordinates written as shortest f32 decimal so comparison is exact.", "§4.15"),
    "C16": ("E1", "bounded-exhaustive enumeration of lattice vertex/edge sets x query lattice x tolerances x filters on the real matching plugins vs exhaustive scan",
            "Vertex subsets of a 3x3 lattice (sizes 1-4 and 7-9 quick, all 511 thorough) and 231 edge sets (every edge and pair of a 14-edge pool, sets of 7-14 records, all 14 with one bent edge; straight, bent, hairpin and detour geometries) x 52 query points (inside, on, beyond the network, far away) x 17 tolerances (none; 100/700/1300/5000 m in 4 units) x 6 road-class/vehicle filters: the matched id is in the argmin of the plugin's own measure over admissible candidates, beyond tolerance is an error, within tolerance always matches, all other query fields unchanged.",
            "Trusted: exhaustive scan reference; ties accepted; cases within 2e-3 of the tolerance boundary skipped.", "§4.16"),
    "C17": ("E1", "bounded-exhaustive enumeration of grid-search sections on the real plugin vs reference Cartesian product",
            "1-3 grid fields x sizes 1-3(4) x element kinds (scalar, object with 1-2 keys, mixed, object whose key is also a field of the query) x every key order x extra fields x section position, through GridSearchPlugin::process and apply_input_plugins: canonical multiset of outputs equals the reference product, count = product of sizes, no grid key left, extras preserved, pass-through unchanged.",
            "Trusted: reference product (props/c17.rs). Object-valued choices of different grid fields use disjoint keys; expansions run in worker processes (a case that does not come back is a violation).", "§4.17"),
    "C19": ("E3+E2", "stateless schedule exploration (CHESS-style preemption-bounded DFS over every lock, write and flush on the shared sink, each schedule re-run from scratch on the real worker code) + explicit enumeration of append histories",
            "(a) K one-thread worker pools each run the real run_batch_with_responses / run_batch_without_responses against one shared ResponseSink (JSON lines and CSV, flush rate 1/2, both persistence policies, successes and errors of different sizes): all schedules of the 2x2 scenarios (2 630 - 3 864 each, no bound), 3-task scenarios up to preemption bound 2-3 (quick) / 3-5 (thorough); two scenarios with one Combined sink over a JSON-lines and a CSV file (both files judged); thorough: in addition the matrix {2,3} tasks x {1,2} queries x {jsonl, csv, combined} x flush 1-3 x keep/discard under bound 2 (72 scenarios); scenarios run in parallel worker processes; oracle on the final file: one terminated record per response, every JSON line parses, multiset of records = responses produced, CSV single header + rows per mapping in header order, no deadlock; all 6 (60) file orders observed. (b) histories of 1-2(3) runs appending to one file x 4 formats x persistence x parallelism: single header, rows accumulate, returned responses keep their information, input-plugin failures are written.",
            "Trusted: same as C06 (c). Replaying a prefix must reproduce the same (task,event) sequence or the run aborts as a machinery error; violating schedules are replayed twice by the replay command.", "§4.19"),
    "C20": ("E1", "bounded-exhaustive enumeration of routes/trees x geometry tables x 5 output formats through the real output plugins vs edge sequence and stored geometries",
            "Every enumerated network with a route is rendered through the real summary / traversal / uuid plugins in edge_id, json, geo_json, wkt and wkb (single routes and several KSP routes, trees, full geometry table and a table one row short, the latter also with the route rendering alone and the tree rendering alone so that one cannot mask the other): ids and per-edge records follow the returned edge sequence, geometry = concatenation of stored geometries in order, a missing geometry is an error response, one tree entry per branch, uuids of the matched vertices (identifier tables plain and gzip, with and without an empty identifier in a middle row), summary = last state; the destination-less query (trees, no route) in every format; plus an application-level pass per format.",
            "Trusted: WKT parser in the harness, wkb crate for decoding; coordinates compared at 1e-6.", "§4.20"),
    "C18": ("E1", "exhaustive enumeration of all digraphs up to n vertices on the real code vs Floyd-Warshall reference",
            "All 2^(n^2) digraphs with self loops for n<=4 (quick) / n<=5 (thorough), all multiplicity<=2 multigraphs on 3 vertices structured families up to 60 vertices and long one-way structures of 1000-2500 vertices (linear-time reference, cross-checked against the cubic one on every small graph) are run through the real component analysis and compared with mutual-reachability classes.",
            "Trusted: Floyd-Warshall reference (refmodel/graph.rs). Graphs beyond 5 vertices only via structured families.", "§4.18"),
}

# what rounds 7 and 8 of the seeded changes added to the enumerations (appended to the level text)
ADDED = {
    "C01": " Also: the uneven line with edges recorded shorter than the straight line (inconsistent estimate) under plain A*, forward and reverse; search algorithms and limits are built from their configuration sections.",
    "C03": " Also: an application layer (speed, heading and turn-delay tables from files, units as configuration strings, per-edge JSON records and summary) on every 30th network; heading rows without a departure heading (blank cell, missing column, through serde in the core worlds); plain A* on the short-length line family.",
    "C04": " Also: every single restricted turn under plain A* on the uneven line with edges recorded shorter than the straight line (a vertex reached again more cheaply after it was expanded).",
    "C05": " Also: an application layer on every 40th network (road-class and vehicle-restriction files combined, plain/gzip graph files, the optional n_edges / n_vertices keys in all four combinations).",
    "C07": " Also: every sum configuration with its weights scaled by 1e-12 and 3e-14 (positive sums far below the floor are charged as they are), compared relative to their own size.",
    "C08": " Also: the energy model's own time unit as an axis; cache keys of two decimals over an edge alphabet whose grades are whole key steps around zero (all histories up to length 3, every vehicle type, synthetic and bundled models).",
    "C10": " Also: the configuration route - every limit kind alone, combined and nested, its type names in four letter cases, built by TerminationModelBuilder and probed on an 8 x 8 grid of (tree size, iteration) against the limit it names; reference pop count for the iteration limit.",
    "C11": " Also: query overrides that change the unit of a model feature (next unit of the same kind), through SearchApp::build_search_instance.",
    "C12": " Also: route and tree rendered as wkt / wkb / geo_json / json; the uuid output plugin ahead of the route renderer and behind a tree-only renderer; identical origin and destination ids at the first, last, one past, two past and far past the last vertex; long ASCII and multi-byte strings as values and names.",
    "C13": " Also: the clause 'first route no dearer than what the underlying search alone returns' in every world (turn delays included); a never-firing criterion in the quick tier; for Yen's a six-vertex corridor family (0-1-2-5 plus every subset of ten further edges) under k = 4 (quick) and k = 3 / 4 (thorough), which reaches the second round of its outer loop.",
    "C14": " Also: declared speed / rate units other than the bundled ones; every grid also built through load_prediction_model; full-product lattices up to four dimensions.",
    "C15": " Also: each of the two optional counts given or scanned (four modes), through Graph::from_files and DefaultGraphBuilder.",
    "C16": " Also: both matchers built by their builders from configuration values; tolerances written without a unit (metres) and a unit without a tolerance; generated edge sets of 7-14 records in four geometry shapes.",
    "C17": " Also: options that are, contain or mention a grid section (exact key at the top of an option, deeper, inside an array, as a string, as part of a key) at every position among ordinary options - refusal or a clean expansion without a grid section are accepted.",
    "C19": " Also: one-column CSV mappings whose unresolved cell is the empty row (counted as a record), mixed-case sorted and unsorted mappings, batches of queries failing in an input plugin.",
    "C20": " Also: uuid tables plain and gzip with an empty middle row, the destination-less query in every format.",
}

NOT_YET = "check not built yet in this session (planned, see DESIGN.md §4)"

def main():
    commits = subprocess.run(["git", "-C", "/repo", "log", "--format=%H %s"], capture_output=True, text=True).stdout.splitlines()
    hook_commits = [l.split()[0] for l in commits if " verif hook:" in l]
    checks = []
    for pid in ALL:
        if pid not in CHECKS:
            continue
        eng, tech, text, note, ref = CHECKS[pid]
        checks.append({
            "property_id": pid,
            "quick_cmd": "./check %s quick" % pid,
            "thorough_cmd": "./check %s thorough" % pid,
            "evidence_file": "/verif/evidence/%s.json" % pid,
            "replay_cmd_template": "./check %s --replay {path}" % pid,
            "engine": eng,
            "level_claimed": {"category": "model_checking", "text": text + ADDED.get(pid, ""), "design_ref": ref},
            "level_note": note,
            "technique": tech,
        })
    manifest = {
        "version": 1,
        "setup_cmd": "./check build",
        "hooks": {
            "guard": "--cfg routee_compass_verif",
            "enable": "RUSTFLAGS=--cfg routee_compass_verif via /verif/harness/.cargo/config.toml ([build] rustflags); checks build /repo/rust crates as path dependencies into /verif/harness/target",
            "baseline_off_cmd": "cd /repo/rust && cargo test --workspace --no-fail-fast --offline",
            "source_commits": hook_commits,
            "add_only": True,
        },
        "engines": [
            {"name": "E1", "path": "harness/src/props + harness/src/world", "serves_properties": [p for p in ALL if p in CHECKS and "E1" in CHECKS[p][0]],
             "kind_free_text": "bounded-exhaustive enumeration of inputs/configurations executed on the real code against reference models"},
            {"name": "E2", "path": "harness/src/props", "serves_properties": [p for p in ALL if p in CHECKS and "E2" in CHECKS[p][0]],
             "kind_free_text": "explicit-state breadth-first search over operation histories applied to live real objects, deduplicated on canonical reference state"},
            {"name": "E3", "path": "harness/src/engine/sched.rs", "serves_properties": [p for p in ALL if p in CHECKS and "E3" in CHECKS[p][0]],
             "kind_free_text": "hand-rolled CHESS-style stateless schedule explorer (preemption-bounded DFS over choice sequences) driving the real batch worker code through the cfg-guarded sync shim"},
        ],
        "checks": checks,
        "notes": "All checks: ./check <ID> <quick|thorough>; exit 0 held / 1 VIOLATION / 2 MACHINERY-ERROR. Known findings are listed in /verif/KNOWN_FINDINGS.txt and printed as KNOWN-FINDING lines.",
        "not_applicable": [{"property_id": p, "reason": NOT_YET} for p in ALL if p not in CHECKS],
    }
    json.dump(manifest, open("/verif/MANIFEST.json", "w"), indent=1)
    print("wrote MANIFEST.json with", len(checks), "checks")

if __name__ == "__main__":
    main()
