#!/usr/bin/env python3
"""validates MANIFEST.json and every evidence file against the schemas (python3-vt has jsonschema)"""
import json, sys, glob, jsonschema
ms = json.load(open('/root/.vp/MANIFEST.schema.json'))
es = json.load(open('/root/.vp/EVIDENCE.schema.json'))
ok = True
try:
    jsonschema.validate(json.load(open('/verif/MANIFEST.json')), ms); print('MANIFEST valid')
except Exception as e:
    ok = False; print('MANIFEST INVALID', str(e)[:300])
for f in sorted(glob.glob('/verif/evidence/*.json')):
    try:
        jsonschema.validate(json.load(open(f)), es); print(f, 'valid')
    except Exception as e:
        ok = False; print(f, 'INVALID', str(e)[:300])
sys.exit(0 if ok else 1)
