//! sub-process sandbox (filled in with C12/C13)
