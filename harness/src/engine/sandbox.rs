//! sub-process sandbox: cases that may hang, abort or exhaust memory run in worker processes of this
//! binary (`vharness --worker <ID> <tier> <mode>`). protocol (lines):
//!   parent -> worker : `RUN <lo> <hi>`
//!   worker -> parent : `END <json Stats>` after all cases lo..hi ran
//! a block that times out or dies is re-run case by case so that the verdict is per case.
use super::{panic_message, Stats};
use std::io::{BufRead, BufReader, Write};
use std::process::{Child, ChildStdin, Command, Stdio};
use std::sync::atomic::{AtomicU64, Ordering};
use std::sync::mpsc::{channel, Receiver, RecvTimeoutError};
use std::sync::{Arc, Mutex};
use std::time::{Duration, Instant};

#[derive(Clone, Debug)]
pub enum Fate {
    Hang { waited_ms: u64 },
    Died { how: String },
}

pub struct SandboxCfg {
    pub worker_args: Vec<String>,
    pub n_workers: usize,
    pub case_timeout: Duration,
    pub block: u64,
    /// overall wall budget; when exceeded remaining blocks are skipped and the run is marked capped
    pub budget: Duration,
}

struct Worker {
    child: Child,
    stdin: ChildStdin,
    rx: Receiver<String>,
}

fn spawn(args: &[String]) -> Result<Worker, String> {
    let exe = std::env::current_exe().map_err(|e| e.to_string())?;
    let mut child = Command::new(exe)
        .args(args)
        .stdin(Stdio::piped())
        .stdout(Stdio::piped())
        .stderr(Stdio::null())
        .spawn()
        .map_err(|e| e.to_string())?;
    let stdin = child.stdin.take().ok_or("no stdin")?;
    let stdout = child.stdout.take().ok_or("no stdout")?;
    let (tx, rx) = channel();
    std::thread::spawn(move || {
        let reader = BufReader::new(stdout);
        for line in reader.lines() {
            match line {
                Ok(l) => {
                    if tx.send(l).is_err() {
                        break;
                    }
                }
                Err(_) => break,
            }
        }
    });
    Ok(Worker { child, stdin, rx })
}

enum BlockResult {
    Done(Stats),
    Timeout,
    Died(String),
}

fn kill(w: &mut Worker) -> String {
    let _ = w.child.kill();
    match w.child.wait() {
        Ok(status) => describe_status(&status),
        Err(e) => format!("wait failed: {}", e),
    }
}

fn describe_status(status: &std::process::ExitStatus) -> String {
    use std::os::unix::process::ExitStatusExt;
    if let Some(sig) = status.signal() {
        let name = match sig {
            6 => "SIGABRT (abort, e.g. allocation failure or double panic)",
            9 => "SIGKILL",
            11 => "SIGSEGV (e.g. stack overflow)",
            7 => "SIGBUS",
            _ => "signal",
        };
        format!("killed by signal {} {}", sig, name)
    } else {
        format!("exit status {:?}", status.code())
    }
}

fn run_block(w: &mut Worker, lo: u64, hi: u64, timeout: Duration) -> BlockResult {
    if writeln!(w.stdin, "RUN {} {}", lo, hi).is_err() || w.stdin.flush().is_err() {
        let how = match w.child.wait() {
            Ok(s) => describe_status(&s),
            Err(e) => e.to_string(),
        };
        return BlockResult::Died(how);
    }
    let deadline = Instant::now() + timeout;
    loop {
        let now = Instant::now();
        if now >= deadline {
            return BlockResult::Timeout;
        }
        match w.rx.recv_timeout(deadline - now) {
            Ok(line) => {
                if let Some(rest) = line.strip_prefix("END ") {
                    match serde_json::from_str::<Stats>(rest) {
                        Ok(st) => return BlockResult::Done(st),
                        Err(e) => return BlockResult::Died(format!("unparsable END line: {}", e)),
                    }
                }
                // other lines are ignored (diagnostics)
            }
            Err(RecvTimeoutError::Timeout) => return BlockResult::Timeout,
            Err(RecvTimeoutError::Disconnected) => {
                let how = match w.child.wait() {
                    Ok(s) => describe_status(&s),
                    Err(e) => e.to_string(),
                };
                return BlockResult::Died(how);
            }
        }
    }
}

/// runs cases 0..n in worker processes; returns merged statistics and the fate of every case that
/// hung or killed its worker. machinery failures (cannot spawn) are returned as Err.
pub fn run_cases(cfg: &SandboxCfg, n: u64) -> Result<(Stats, Vec<(u64, Fate)>), String> {
    let next = Arc::new(AtomicU64::new(0));
    let nblocks = n.div_ceil(cfg.block.max(1));
    let total = Arc::new(Mutex::new(Stats::new()));
    let fates: Arc<Mutex<Vec<(u64, Fate)>>> = Arc::new(Mutex::new(vec![]));
    let errors: Arc<Mutex<Vec<String>>> = Arc::new(Mutex::new(vec![]));
    let start = Instant::now();
    let mut handles = vec![];
    for _ in 0..cfg.n_workers.max(1) {
        let next = next.clone();
        let total = total.clone();
        let fates = fates.clone();
        let errors = errors.clone();
        let args = cfg.worker_args.clone();
        let case_timeout = cfg.case_timeout;
        let block = cfg.block.max(1);
        let budget = cfg.budget;
        handles.push(std::thread::spawn(move || {
            let mut w = match spawn(&args) {
                Ok(w) => w,
                Err(e) => {
                    errors
                        .lock()
                        .unwrap()
                        .push(format!("cannot spawn worker: {}", e));
                    return;
                }
            };
            let mut local = Stats::new();
            loop {
                let b = next.fetch_add(1, Ordering::SeqCst);
                if b >= nblocks {
                    break;
                }
                if start.elapsed() > budget {
                    local.capped = true;
                    local.notes.insert(format!(
                        "wall budget of {} s reached; blocks from {} on were not run",
                        budget.as_secs(),
                        b
                    ));
                    break;
                }
                let lo = b * block;
                let hi = ((b + 1) * block).min(n);
                let block_timeout = case_timeout + Duration::from_millis(20 * (hi - lo));
                match run_block(&mut w, lo, hi, block_timeout) {
                    BlockResult::Done(st) => local.merge(st),
                    other => {
                        // isolate: restart the worker and run the block case by case
                        if let BlockResult::Timeout = other {
                            let _ = kill(&mut w);
                        }
                        w = match spawn(&args) {
                            Ok(w) => w,
                            Err(e) => {
                                errors
                                    .lock()
                                    .unwrap()
                                    .push(format!("cannot respawn worker: {}", e));
                                return;
                            }
                        };
                        for i in lo..hi {
                            let mut attempt = 0;
                            loop {
                                let t = if attempt == 0 {
                                    case_timeout
                                } else {
                                    case_timeout * 4
                                };
                                let t0 = Instant::now();
                                match run_block(&mut w, i, i + 1, t) {
                                    BlockResult::Done(st) => {
                                        local.merge(st);
                                        break;
                                    }
                                    BlockResult::Timeout => {
                                        let _ = kill(&mut w);
                                        w = match spawn(&args) {
                                            Ok(w) => w,
                                            Err(e) => {
                                                errors
                                                    .lock()
                                                    .unwrap()
                                                    .push(format!("cannot respawn worker: {}", e));
                                                return;
                                            }
                                        };
                                        if attempt == 0 {
                                            attempt = 1;
                                            continue;
                                        }
                                        fates.lock().unwrap().push((
                                            i,
                                            Fate::Hang {
                                                waited_ms: t0.elapsed().as_millis() as u64,
                                            },
                                        ));
                                        break;
                                    }
                                    BlockResult::Died(how) => {
                                        w = match spawn(&args) {
                                            Ok(w) => w,
                                            Err(e) => {
                                                errors
                                                    .lock()
                                                    .unwrap()
                                                    .push(format!("cannot respawn worker: {}", e));
                                                return;
                                            }
                                        };
                                        fates.lock().unwrap().push((i, Fate::Died { how }));
                                        break;
                                    }
                                }
                            }
                        }
                    }
                }
            }
            let _ = kill(&mut w);
            total.lock().unwrap().merge(local);
        }));
    }
    for h in handles {
        if let Err(p) = h.join() {
            errors.lock().unwrap().push(format!(
                "sandbox driver thread panicked: {}",
                panic_message(&p)
            ));
        }
    }
    let errs = errors.lock().unwrap().clone();
    if !errs.is_empty() {
        return Err(errs.join("; "));
    }
    let st = total.lock().unwrap().clone();
    let mut f = fates.lock().unwrap().clone();
    f.sort_by_key(|x| x.0);
    Ok((st, f))
}

/// worker side: reads RUN lines, runs `case(idx, stats)` for each index, answers with END lines.
pub fn worker_loop(mut case: impl FnMut(u64, &mut Stats)) -> i32 {
    // address-space limit so that unbounded allocation ends in an abort instead of taking the machine down
    let mem: u64 = std::env::var("VERIF_WORKER_MEM_MB")
        .ok()
        .and_then(|s| s.parse().ok())
        .unwrap_or(6144);
    unsafe {
        let lim = libc::rlimit {
            rlim_cur: mem * 1024 * 1024,
            rlim_max: mem * 1024 * 1024,
        };
        libc::setrlimit(libc::RLIMIT_AS, &lim);
    }
    let stdin = std::io::stdin();
    let stdout = std::io::stdout();
    for line in stdin.lock().lines() {
        let line = match line {
            Ok(l) => l,
            Err(_) => break,
        };
        let parts: Vec<&str> = line.split_whitespace().collect();
        if parts.len() == 3 && parts[0] == "RUN" {
            let lo: u64 = parts[1].parse().unwrap_or(0);
            let hi: u64 = parts[2].parse().unwrap_or(0);
            let mut st = Stats::new();
            for i in lo..hi {
                let r = std::panic::catch_unwind(std::panic::AssertUnwindSafe(|| case(i, &mut st)));
                if let Err(p) = r {
                    let msg = panic_message(&p);
                    st.violation(
                        "harness",
                        "case_panicked_outside_guard",
                        i,
                        || format!("case {} panicked: {}", i, msg),
                        || serde_json::json!({"index": i}),
                    );
                }
            }
            let mut out = stdout.lock();
            let _ = writeln!(
                out,
                "END {}",
                serde_json::to_string(&st).unwrap_or_else(|_| "{}".into())
            );
            let _ = out.flush();
        } else if parts.first() == Some(&"QUIT") {
            break;
        }
    }
    0
}
