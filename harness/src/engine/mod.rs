//! shared machinery: statistics, violation grouping, known findings, evidence files.
pub mod sandbox;
pub mod sched;

use serde_json::{json, Value};
use std::collections::{BTreeMap, BTreeSet};
use std::io::Write;
use std::time::Instant;

#[derive(Clone, Copy, Debug, PartialEq, Eq)]
pub enum Tier {
    Quick,
    Thorough,
}

impl Tier {
    pub fn as_str(&self) -> &'static str {
        match self {
            Tier::Quick => "quick",
            Tier::Thorough => "thorough",
        }
    }
    pub fn pick<T>(&self, quick: T, thorough: T) -> T {
        match self {
            Tier::Quick => quick,
            Tier::Thorough => thorough,
        }
    }
}

/// one group of violating cases that share a signature `<property>/<component>/<clause>`.
#[derive(Clone, Debug, serde::Serialize, serde::Deserialize)]
pub struct ViolGroup {
    pub count: u64,
    pub size: u64,
    pub case: Value,
    pub detail: String,
}

/// per-shard statistics; merged at the end of a run.
#[derive(Default, Clone, Debug, serde::Serialize, serde::Deserialize)]
pub struct Stats {
    pub evaluations: u64,
    pub states: u64,
    pub transitions: u64,
    pub traces: u64,
    pub nontrivial: u64,
    pub skipped_boundary: u64,
    pub clause_pass: BTreeMap<String, u64>,
    pub outcomes: BTreeMap<String, u64>,
    pub violations: BTreeMap<String, ViolGroup>,
    pub samples: Vec<Value>,
    pub notes: BTreeSet<String>,
    pub capped: bool,
}

impl Stats {
    pub fn new() -> Stats {
        Stats::default()
    }
    pub fn pass(&mut self, clause: &str) {
        *self.clause_pass.entry(clause.to_string()).or_insert(0) += 1;
    }
    pub fn pass_n(&mut self, clause: &str, n: u64) {
        *self.clause_pass.entry(clause.to_string()).or_insert(0) += n;
    }
    pub fn outcome(&mut self, o: &str) {
        *self.outcomes.entry(o.to_string()).or_insert(0) += 1;
    }
    pub fn sample(&mut self, max: usize, f: impl FnOnce() -> Value) {
        if self.samples.len() < max {
            self.samples.push(f());
        }
    }
    /// records a violating case. `component`/`clause` name the signature, `size` orders
    /// cases so that the smallest one of each group becomes the replay artefact.
    pub fn violation(
        &mut self,
        component: &str,
        clause: &str,
        size: u64,
        detail: impl FnOnce() -> String,
        case: impl FnOnce() -> Value,
    ) {
        let key = format!("{}/{}", component, clause);
        match self.violations.get_mut(&key) {
            Some(g) => {
                g.count += 1;
                if size < g.size {
                    g.size = size;
                    g.case = case();
                    g.detail = detail();
                }
            }
            None => {
                self.violations.insert(
                    key,
                    ViolGroup {
                        count: 1,
                        size,
                        case: case(),
                        detail: detail(),
                    },
                );
            }
        }
    }
    pub fn merge(&mut self, o: Stats) {
        self.evaluations += o.evaluations;
        self.states += o.states;
        self.transitions += o.transitions;
        self.traces += o.traces;
        self.nontrivial += o.nontrivial;
        self.skipped_boundary += o.skipped_boundary;
        self.capped |= o.capped;
        for (k, v) in o.clause_pass {
            *self.clause_pass.entry(k).or_insert(0) += v;
        }
        for (k, v) in o.outcomes {
            *self.outcomes.entry(k).or_insert(0) += v;
        }
        for (k, g) in o.violations {
            match self.violations.get_mut(&k) {
                Some(mine) => {
                    mine.count += g.count;
                    if g.size < mine.size {
                        mine.size = g.size;
                        mine.case = g.case;
                        mine.detail = g.detail;
                    }
                }
                None => {
                    self.violations.insert(k, g);
                }
            }
        }
        for s in o.samples {
            if self.samples.len() < 6 {
                self.samples.push(s);
            }
        }
        for n in o.notes {
            self.notes.insert(n);
        }
    }
}

/// a line of /verif/KNOWN_FINDINGS.txt
#[derive(Debug, Clone)]
pub struct KnownFinding {
    pub property: String,
    pub signature: String,
    pub what: String,
}

pub fn verif_root() -> std::path::PathBuf {
    std::env::var("VERIF_ROOT")
        .map(std::path::PathBuf::from)
        .unwrap_or_else(|_| std::path::PathBuf::from("/verif"))
}

pub fn repo_root() -> std::path::PathBuf {
    std::path::PathBuf::from("/repo")
}

/// assumption check for the schedule explorer (DESIGN §2.3): scans the repository's non-test sources for shared-state
/// and synchronisation primitives. the hook sees the `Mutex` / `File` uses of four files (through their cfg twin imports);
/// anything else that could be shared between workers is listed, so that a new unhooked primitive shows up in the
/// evidence instead of silently narrowing what the explorer can see. never a verdict.
pub fn scan_shared_state() -> String {
    let hooked = [
        "float_cache_policy.rs",
        "response_sink.rs",
        "response_output_policy.rs",
        "compass_app.rs",
    ];
    let needles = [
        "unsafe ",
        "unsafe{",
        "static mut",
        "Atomic",
        "RwLock",
        "Mutex",
        "RefCell",
        "UnsafeCell",
        "thread_local",
        "lazy_static",
        "OnceCell",
        "OnceLock",
        "Condvar",
        "mpsc::",
    ];
    let mut hooked_sites = 0usize;
    let mut bypass: Vec<String> = vec![];
    let mut other: Vec<String> = vec![];
    fn walk(dir: &std::path::Path, out: &mut Vec<std::path::PathBuf>) {
        if let Ok(rd) = std::fs::read_dir(dir) {
            for e in rd.filter_map(|e| e.ok()) {
                let p = e.path();
                if p.is_dir() {
                    if p.file_name().map_or(false, |n| n == "target") {
                        continue;
                    }
                    walk(&p, out);
                } else if p.extension().map_or(false, |x| x == "rs") {
                    out.push(p);
                }
            }
        }
    }
    let mut files = vec![];
    for krate in [
        "routee-compass-core",
        "routee-compass",
        "routee-compass-powertrain",
    ] {
        walk(
            &repo_root().join("rust").join(krate).join("src"),
            &mut files,
        );
    }
    files.sort();
    for f in files.iter() {
        let name = f
            .file_name()
            .map(|n| n.to_string_lossy().to_string())
            .unwrap_or_default();
        if name == "verif_sync.rs" {
            continue;
        }
        let text = std::fs::read_to_string(f).unwrap_or_default();
        for (ln, line) in text.lines().enumerate() {
            let t = line.trim_start();
            if t.starts_with("//") {
                continue;
            }
            if !needles.iter().any(|n| line.contains(n))
                && !(t.starts_with("static ") || t.starts_with("pub static "))
            {
                continue;
            }
            let site = format!(
                "{}:{}",
                f.strip_prefix(repo_root()).unwrap_or(f).display(),
                ln + 1
            );
            if hooked.contains(&name.as_str()) {
                // a fully qualified std primitive inside a hooked file bypasses the twin import
                if line.contains("std::sync::Mutex")
                    && !t.starts_with("use ")
                    && !t.starts_with("sync::")
                {
                    bypass.push(site);
                } else {
                    hooked_sites += 1;
                }
            } else {
                other.push(site);
            }
        }
    }
    format!(
        "source scan of {} files: {} lines mention a shared-state or synchronisation primitive inside the four hooked files; fully qualified std primitives there (bypassing the hook): {:?}; lines elsewhere: {:?}{}",
        files.len(),
        hooked_sites,
        bypass,
        other,
        if other.iter().all(|s| s.contains("read_only_lock.rs") || s.contains("onnx")) { " (read_only_lock.rs is not used by any other module; the onnx model is behind a feature that is off)" } else { " - WARNING: review these sites, the explorer cannot see them" }
    )
}

/// parses the known findings file. format, one entry per line:
///   finding: property=<id> signature=<component>/<clause> what=<free text>
///   fixed: property=<id> <commit> <what failed>
/// `fixed` lines suppress nothing; they are documentation.
pub fn load_known_findings() -> Vec<KnownFinding> {
    let path = verif_root().join("KNOWN_FINDINGS.txt");
    let text = std::fs::read_to_string(&path).unwrap_or_default();
    let mut out = vec![];
    for line in text.lines() {
        let line = line.trim();
        if let Some(rest) = line.strip_prefix("finding:") {
            let rest = rest.trim();
            let mut property = String::new();
            let mut signature = String::new();
            let mut what = String::new();
            if let Some(idx) = rest.find(" what=") {
                what = rest[idx + 6..].to_string();
                for tok in rest[..idx].split_whitespace() {
                    if let Some(p) = tok.strip_prefix("property=") {
                        property = p.to_string();
                    } else if let Some(s) = tok.strip_prefix("signature=") {
                        signature = s.to_string();
                    }
                }
            }
            if !property.is_empty() && !signature.is_empty() {
                out.push(KnownFinding {
                    property,
                    signature,
                    what,
                });
            }
        }
    }
    out
}

pub struct RunInfo {
    pub property: &'static str,
    pub tier: Tier,
    pub seed: u64,
    pub start: Instant,
}

/// runs `f` on a helper thread and waits at most `secs`; None = it did not return. free-running (not
/// schedule-controlled) calls into the application go through this: a change that makes the real worker pool
/// deadlock would otherwise hang the check. after a None the caller records the violation and winds the run up
/// (the stuck threads hold locks, nothing further can be trusted); the process exit kills them.
pub fn with_deadline<T: Send + 'static>(
    secs: u64,
    f: impl FnOnce() -> T + Send + 'static,
) -> Option<T> {
    let (tx, rx) = std::sync::mpsc::channel();
    std::thread::spawn(move || {
        let _ = tx.send(f());
    });
    rx.recv_timeout(std::time::Duration::from_secs(secs)).ok()
}

impl RunInfo {
    pub fn new(property: &'static str, tier: Tier) -> RunInfo {
        let seed = std::env::var("VERIF_SEED")
            .ok()
            .and_then(|s| s.parse::<u64>().ok())
            .unwrap_or(0);
        RunInfo {
            property,
            tier,
            seed,
            start: Instant::now(),
        }
    }
}

fn sanitize(sig: &str) -> String {
    sig.chars()
        .map(|c| {
            if c.is_ascii_alphanumeric() || c == '.' || c == '-' || c == '_' {
                c
            } else {
                '_'
            }
        })
        .collect()
}

/// writes evidence, replay artefacts, prints verdict lines and returns the exit code.
pub fn finish(
    info: &RunInfo,
    stats: Stats,
    rule: &str,
    exhaustive: bool,
    bounds: Value,
    assumptions: Vec<String>,
) -> i32 {
    let root = verif_root();
    let known = load_known_findings();
    let mut exit = 0;
    let mut new_violations = 0i64;
    let mut matched: Vec<Value> = vec![];
    let mut reported: Vec<Value> = vec![];
    let replay_dir = root.join("replays").join(info.property);
    let _ = std::fs::create_dir_all(&replay_dir);
    for (sig, g) in stats.violations.iter() {
        if sig.starts_with("harness/") {
            println!("MACHINERY-ERROR {}: {}", sig, g.detail.replace('\n', " "));
            return 2;
        }
        let is_known = known
            .iter()
            .find(|k| k.property == info.property && &k.signature == sig);
        let artefact = json!({
            "property": info.property,
            "signature": format!("{}/{}", info.property, sig),
            "cases_in_group": g.count,
            "detail": g.detail,
            "case": g.case,
        });
        match is_known {
            Some(k) => {
                let path = replay_dir.join(format!("known__{}.json", sanitize(sig)));
                let _ = std::fs::write(&path, serde_json::to_string_pretty(&artefact).unwrap());
                println!(
                    "KNOWN-FINDING: property={} {} [{}] ({} cases; smallest: {})",
                    info.property,
                    k.what,
                    sig,
                    g.count,
                    g.detail.replace('\n', " ")
                );
                matched.push(json!({"signature": sig, "cases": g.count}));
            }
            None => {
                let path = replay_dir.join(format!("{}.json", sanitize(sig)));
                let _ = std::fs::write(&path, serde_json::to_string_pretty(&artefact).unwrap());
                println!(
                    "VIOLATION property={} replay={} signature={} cases={} detail={}",
                    info.property,
                    path.display(),
                    sig,
                    g.count,
                    g.detail.replace('\n', " ")
                );
                reported.push(json!({"signature": sig, "cases": g.count, "replay": path.display().to_string()}));
                new_violations += 1;
                exit = 1;
            }
        }
    }
    for k in known.iter().filter(|k| k.property == info.property) {
        if !stats.violations.contains_key(&k.signature) {
            println!(
                "KNOWN-FINDING-ABSENT: property={} signature={} (listed but not reproduced in this tier)",
                info.property, k.signature
            );
        }
    }

    let wall = info.start.elapsed().as_secs_f64();
    let mut samples = stats.samples.clone();
    if samples.is_empty() {
        samples.push(json!("no sample recorded"));
    }
    let coverage = json!({
        "states": stats.states.max(1),
        "transitions": stats.transitions.max(1),
        "traces_validated_against_impl": stats.traces,
        "evaluations": stats.evaluations,
        "distinct_nontrivial": stats.nontrivial,
        "rule": rule,
        "samples": samples,
        "exhaustive": exhaustive && !stats.capped,
        "cap_hit": stats.capped,
        "bounds": bounds,
        "clause_pass_counts": stats.clause_pass,
        "distinct_outcomes": stats.outcomes.len(),
        "outcomes": stats.outcomes,
        "skipped_boundary_cases": stats.skipped_boundary,
        "known_findings_matched": matched,
        "new_violations": reported,
        "notes": stats.notes,
    });
    let evidence = json!({
        "property_id": info.property,
        "tier": info.tier.as_str(),
        "seed": info.seed,
        "level": "model_checking",
        "coverage": coverage,
        "assumptions": assumptions,
        "wall_s": wall,
        "violations": new_violations,
    });
    let ev_dir = root.join("evidence");
    let _ = std::fs::create_dir_all(&ev_dir);
    let ev_path = ev_dir.join(format!("{}.json", info.property));
    match std::fs::File::create(&ev_path) {
        Ok(mut f) => {
            let _ = f.write_all(serde_json::to_string_pretty(&evidence).unwrap().as_bytes());
            let _ = f.write_all(b"\n");
        }
        Err(e) => {
            println!(
                "MACHINERY-ERROR cannot write evidence {}: {}",
                ev_path.display(),
                e
            );
            return 2;
        }
    }
    println!(
        "SUMMARY property={} tier={} evaluations={} states={} transitions={} nontrivial={} known_groups={} new_groups={} wall_s={:.1}",
        info.property,
        info.tier.as_str(),
        stats.evaluations,
        stats.states,
        stats.transitions,
        stats.nontrivial,
        stats.violations.len() as i64 - new_violations,
        new_violations,
        wall
    );
    exit
}

/// relative comparison used everywhere (see DESIGN §2.4)
pub fn close(a: f64, b: f64, rel: f64) -> bool {
    if a == b {
        return true;
    }
    if !a.is_finite() || !b.is_finite() {
        return false;
    }
    let scale = a.abs().max(b.abs());
    (a - b).abs() <= rel * scale + 1e-12
}

/// runs `f` on every index in 0..n in parallel blocks and merges the statistics.
pub fn par_blocks<F>(n: u64, block: u64, f: F) -> Stats
where
    F: Fn(u64, u64, &mut Stats) + Sync + Send,
{
    use rayon::prelude::*;
    let nblocks = n.div_ceil(block.max(1));
    (0..nblocks)
        .into_par_iter()
        .map(|b| {
            let lo = b * block;
            let hi = ((b + 1) * block).min(n);
            let mut st = Stats::new();
            let r = std::panic::catch_unwind(std::panic::AssertUnwindSafe(|| f(lo, hi, &mut st)));
            if let Err(p) = r {
                let msg = panic_message(&p);
                st.violation(
                    "harness",
                    "block_panicked",
                    lo,
                    || format!("block {}..{} panicked: {}", lo, hi, msg),
                    || json!({"block_lo": lo, "block_hi": hi}),
                );
            }
            st
        })
        .reduce(Stats::new, |mut a, b| {
            a.merge(b);
            a
        })
}

pub fn panic_message(p: &Box<dyn std::any::Any + Send>) -> String {
    if let Some(s) = p.downcast_ref::<&str>() {
        s.to_string()
    } else if let Some(s) = p.downcast_ref::<String>() {
        s.clone()
    } else {
        "non-string panic payload".to_string()
    }
}

/// runs a closure, converting a panic into Err(message)
pub fn guarded<T>(f: impl FnOnce() -> T) -> Result<T, String> {
    std::panic::catch_unwind(std::panic::AssertUnwindSafe(f)).map_err(|p| panic_message(&p))
}

/// canonical rendering of a JSON value with sorted object keys (hash-map ordered objects compare equal)
pub fn canon_json(v: &serde_json::Value) -> String {
    match v {
        serde_json::Value::Object(m) => {
            let mut keys: Vec<&String> = m.keys().collect();
            keys.sort();
            format!(
                "{{{}}}",
                keys.iter()
                    .map(|k| format!("{:?}:{}", k, canon_json(&m[*k])))
                    .collect::<Vec<_>>()
                    .join(",")
            )
        }
        serde_json::Value::Array(a) => format!(
            "[{}]",
            a.iter().map(canon_json).collect::<Vec<_>>().join(",")
        ),
        serde_json::Value::Number(n) if n.is_f64() => {
            format!("{:.11e}", n.as_f64().unwrap_or(f64::NAN))
        }
        other => other.to_string(),
    }
}
