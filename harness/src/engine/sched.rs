//! schedule explorer (filled in with C06/C19)
