//! E3 — hand-rolled CHESS-style schedule explorer. Tasks are real closures running on persistent
//! one-thread rayon pools; every `lock`, `write` and `flush` on the repository's shared primitives reaches
//! the hook below through the cfg-guarded shim (`routee_compass_core::util::verif_sync`) and becomes a
//! scheduling point. Exactly one task runs at any time. The explorer enumerates choice sequences depth
//! first (choice 0 = let the running task continue), bounded by the number of preemptions.
use routee_compass_core::util::verif_sync::{set_hook, Event};
use serde_json::Value;
use std::cell::Cell;
use std::collections::HashMap;
use std::sync::{Arc, Condvar, Mutex};
use std::time::{Duration, Instant};

thread_local! {
    static TASK_ID: Cell<Option<usize>> = const { Cell::new(None) };
}

#[derive(Clone, Debug, PartialEq)]
enum Status {
    NotStarted,
    Running,
    Waiting(Ev),
    Finished,
}

/// an event as seen by the explorer
#[derive(Clone, Debug, PartialEq)]
pub enum Ev {
    Start,
    Lock(usize),
    Write(usize),
    Flush(usize),
}

struct State {
    status: Vec<Status>,
    granted: Vec<bool>,
    held: HashMap<usize, usize>,
    results: Vec<Option<Value>>,
    /// set when an execution is abandoned (deadlock): tasks pass straight through afterwards
    abandoned: bool,
    active: bool,
}

pub struct Shared {
    state: Mutex<State>,
    cv: Condvar,
}

#[derive(Clone, Debug)]
pub struct Point {
    /// enabled tasks in canonical order (last-run first if still enabled, then ascending ids)
    pub enabled: Vec<usize>,
    pub chosen: usize,
    pub last_still_enabled: bool,
    /// label of the event the chosen task performs
    pub label: String,
}

#[derive(Clone, Debug, Default)]
pub struct Execution {
    pub points: Vec<Point>,
    pub results: Vec<Option<Value>>,
    pub deadlock: Option<String>,
    pub diverged: Option<String>,
}

impl Execution {
    pub fn choices(&self) -> Vec<usize> {
        self.points.iter().map(|p| p.chosen).collect()
    }
    pub fn preemptions_before(&self, i: usize) -> usize {
        self.points[..i]
            .iter()
            .filter(|p| p.chosen != 0 && p.last_still_enabled)
            .count()
    }
    pub fn preemptions(&self) -> usize {
        self.preemptions_before(self.points.len())
    }
}

pub struct Explorer {
    shared: Arc<Shared>,
    pools: Vec<rayon::ThreadPool>,
    n: usize,
}

pub type Task = Box<dyn FnOnce() -> Value + Send + 'static>;

fn hook_wait(shared: &Arc<Shared>, task: usize, ev: Ev) {
    let mut st = shared.state.lock().unwrap();
    if st.abandoned || !st.active {
        return;
    }
    st.status[task] = Status::Waiting(ev);
    shared.cv.notify_all();
    while !st.granted[task] && !st.abandoned {
        st = shared.cv.wait(st).unwrap();
    }
    st.granted[task] = false;
    st.status[task] = Status::Running;
}

impl Explorer {
    pub fn new(n: usize) -> Explorer {
        let shared = Arc::new(Shared {
            state: Mutex::new(State {
                status: vec![Status::NotStarted; n],
                granted: vec![false; n],
                held: HashMap::new(),
                results: vec![None; n],
                abandoned: false,
                active: false,
            }),
            cv: Condvar::new(),
        });
        let pools = (0..n)
            .map(|i| {
                rayon::ThreadPoolBuilder::new()
                    .num_threads(1)
                    .thread_name(move |_| format!("verif-task-{}", i))
                    .build()
                    .expect("pool")
            })
            .collect();
        let s2 = shared.clone();
        set_hook(Some(Arc::new(move |e: Event| {
            let task = TASK_ID.with(|t| t.get());
            let task = match task {
                Some(t) => t,
                None => return, // not one of our tasks: pass straight through
            };
            match e {
                Event::Lock(id) => hook_wait(&s2, task, Ev::Lock(id)),
                Event::Write(id) => hook_wait(&s2, task, Ev::Write(id)),
                Event::Flush(id) => hook_wait(&s2, task, Ev::Flush(id)),
                Event::Unlock(id) => {
                    let mut st = s2.state.lock().unwrap();
                    if st.held.get(&id) == Some(&task) {
                        st.held.remove(&id);
                    }
                }
            }
        })));
        Explorer { shared, pools, n }
    }

    /// runs one execution: follows `prefix`, then always takes choice 0. `label` names events for replay checking.
    pub fn run_once(
        &self,
        prefix: &[usize],
        expect_labels: Option<&[String]>,
        tasks: Vec<Task>,
        label: &dyn Fn(&Ev) -> String,
    ) -> Execution {
        assert_eq!(tasks.len(), self.n);
        {
            let mut st = self.shared.state.lock().unwrap();
            st.status = vec![Status::NotStarted; self.n];
            st.granted = vec![false; self.n];
            st.held.clear();
            st.results = vec![None; self.n];
            st.abandoned = false;
            st.active = true;
        }
        for (i, t) in tasks.into_iter().enumerate() {
            let shared = self.shared.clone();
            self.pools[i].spawn(move || {
                TASK_ID.with(|c| c.set(Some(i)));
                hook_wait(&shared, i, Ev::Start);
                let r = std::panic::catch_unwind(std::panic::AssertUnwindSafe(t));
                let v = match r {
                    Ok(v) => v,
                    Err(p) => {
                        serde_json::json!({"task_panicked": crate::engine::panic_message(&p)})
                    }
                };
                TASK_ID.with(|c| c.set(None));
                let mut st = shared.state.lock().unwrap();
                st.results[i] = Some(v);
                st.status[i] = Status::Finished;
                // locks still recorded as held by a finished task would be a leak in the shim bookkeeping
                st.held.retain(|_, t| *t != i);
                shared.cv.notify_all();
            });
        }
        let mut exec = Execution::default();
        let mut last: Option<usize> = None;
        loop {
            // wait for quiescence: every task waiting or finished
            let mut st = self.shared.state.lock().unwrap();
            let deadline = Instant::now() + Duration::from_secs(20);
            loop {
                let quiet = st
                    .status
                    .iter()
                    .all(|s| matches!(s, Status::Waiting(_) | Status::Finished));
                if quiet {
                    break;
                }
                let (g, to) = self
                    .shared
                    .cv
                    .wait_timeout(st, Duration::from_millis(500))
                    .unwrap();
                st = g;
                if to.timed_out() && Instant::now() > deadline {
                    exec.deadlock = Some(format!(
                        "no quiescent state within 20 s; statuses {:?}",
                        st.status
                    ));
                    st.abandoned = true;
                    st.active = false;
                    self.shared.cv.notify_all();
                    return exec;
                }
            }
            if st.status.iter().all(|s| matches!(s, Status::Finished)) {
                exec.results = st.results.clone();
                st.active = false;
                return exec;
            }
            // enabled tasks
            let mut enabled: Vec<usize> = vec![];
            for (t, s) in st.status.iter().enumerate() {
                if let Status::Waiting(ev) = s {
                    let ok = match ev {
                        Ev::Lock(id) => !st.held.contains_key(id),
                        _ => true,
                    };
                    if ok {
                        enabled.push(t);
                    }
                }
            }
            if enabled.is_empty() {
                let waits: Vec<String> = st
                    .status
                    .iter()
                    .enumerate()
                    .map(|(t, s)| {
                        format!(
                            "task {}: {:?} ",
                            t,
                            match s {
                                Status::Waiting(e) => label(e),
                                other => format!("{:?}", other),
                            }
                        )
                    })
                    .collect();
                let held: Vec<String> = st
                    .held
                    .iter()
                    .map(|(id, t)| format!("{} held by task {}", label(&Ev::Lock(*id)), t))
                    .collect();
                exec.deadlock = Some(format!(
                    "no enabled task: {} ; {}",
                    waits.join("; "),
                    held.join("; ")
                ));
                st.abandoned = true;
                st.active = false;
                self.shared.cv.notify_all();
                return exec;
            }
            let mut last_still_enabled = false;
            if let Some(l) = last {
                if let Some(pos) = enabled.iter().position(|t| *t == l) {
                    enabled.remove(pos);
                    enabled.insert(0, l);
                    last_still_enabled = true;
                }
            }
            let i = exec.points.len();
            let choice = if i < prefix.len() { prefix[i] } else { 0 };
            if choice >= enabled.len() {
                exec.diverged = Some(format!(
                    "choice {} out of range at point {} (enabled {:?})",
                    choice, i, enabled
                ));
                st.abandoned = true;
                st.active = false;
                self.shared.cv.notify_all();
                return exec;
            }
            let t = enabled[choice];
            let ev = match &st.status[t] {
                Status::Waiting(e) => e.clone(),
                _ => unreachable!(),
            };
            let lab = format!("t{}:{}", t, label(&ev));
            if let Some(exp) = expect_labels {
                if i < exp.len() && i < prefix.len() && exp[i] != lab {
                    exec.diverged = Some(format!(
                        "replaying a prefix diverged at point {}: expected {} got {}",
                        i, exp[i], lab
                    ));
                    st.abandoned = true;
                    st.active = false;
                    self.shared.cv.notify_all();
                    return exec;
                }
            }
            if let Ev::Lock(id) = ev {
                st.held.insert(id, t);
            }
            exec.points.push(Point {
                enabled: enabled.clone(),
                chosen: choice,
                last_still_enabled,
                label: lab,
            });
            st.granted[t] = true;
            st.status[t] = Status::Running;
            last = Some(t);
            self.shared.cv.notify_all();
        }
    }
}

// note: the hook is deliberately not cleared when an Explorer is dropped: a replacement explorer (after a
// deadlock) installs its own hook before the old one goes away, and threads that are not tasks pass
// straight through a hook anyway.

#[derive(Default, Clone, Debug)]
pub struct ExploreStats {
    pub schedules: u64,
    pub schedules_per_bound: Vec<u64>,
    pub max_points: usize,
    pub total_points: u64,
    pub capped: bool,
}

/// depth-first exploration of all schedules with at most `bound` preemptions (None = unbounded).
/// `run` executes one schedule for a choice prefix (fresh scenario each time) and `check` judges it.
/// returns false from `check` to stop early.
pub fn explore(
    bound: Option<usize>,
    max_schedules: u64,
    run: &mut dyn FnMut(&[usize], Option<&[String]>) -> Execution,
    check: &mut dyn FnMut(&Execution) -> bool,
) -> (ExploreStats, Option<String>) {
    let mut stats = ExploreStats::default();
    // stack of (prefix, labels of the parent's points for divergence checking)
    let mut stack: Vec<(Vec<usize>, Vec<String>)> = vec![(vec![], vec![])];
    while let Some((prefix, labels)) = stack.pop() {
        if stats.schedules >= max_schedules {
            stats.capped = true;
            break;
        }
        let x = run(
            &prefix,
            if labels.is_empty() {
                None
            } else {
                Some(&labels)
            },
        );
        if let Some(d) = &x.diverged {
            return (stats, Some(d.clone()));
        }
        stats.schedules += 1;
        stats.max_points = stats.max_points.max(x.points.len());
        stats.total_points += x.points.len() as u64;
        let p = x.preemptions();
        if stats.schedules_per_bound.len() <= p {
            stats.schedules_per_bound.resize(p + 1, 0);
        }
        stats.schedules_per_bound[p] += 1;
        if !check(&x) {
            break;
        }
        if x.deadlock.is_some() {
            continue;
        }
        let choices = x.choices();
        let labs: Vec<String> = x.points.iter().map(|p| p.label.clone()).collect();
        // branch on every later point (pushed in reverse so that the shallowest alternative is explored last = DFS order of the brief)
        for i in (prefix.len()..x.points.len()).rev() {
            let pt = &x.points[i];
            let mut cost = x.preemptions_before(i);
            if pt.last_still_enabled {
                cost += 1;
            }
            if let Some(b) = bound {
                if cost > b {
                    continue;
                }
            }
            for alt in (1..pt.enabled.len()).rev() {
                let mut np: Vec<usize> = choices[..i].to_vec();
                np.push(alt);
                stack.push((np, labs[..i].to_vec()));
            }
        }
    }
    (stats, None)
}
