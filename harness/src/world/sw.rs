//! a complete, serialisable "search world": network + tables + model configuration, convertible into a
//! real `SearchInstance`, together with the boring reference arithmetic for the same configuration.
use crate::refmodel::units as ru;
use crate::world::net::Net;
use routee_compass::app::compass::config::cost_model::cost_model_service::CostModelService;
use routee_compass::app::search::search_app::SearchApp;
use routee_compass_core::algorithm::search::search_algorithm::SearchAlgorithm;
use routee_compass_core::algorithm::search::search_instance::SearchInstance;
use routee_compass_core::model::access::access_model::AccessModel;
use routee_compass_core::model::access::access_model_service::AccessModelService;
use routee_compass_core::model::access::default::no_access_model::NoAccessModel;
use routee_compass_core::model::access::default::turn_delays::edge_heading::EdgeHeading;
use routee_compass_core::model::access::default::turn_delays::turn::Turn;
use routee_compass_core::model::access::default::turn_delays::turn_delay_access_model::TurnDelayAccessModel;
use routee_compass_core::model::access::default::turn_delays::turn_delay_access_model_engine::TurnDelayAccessModelEngine;
use routee_compass_core::model::access::default::turn_delays::turn_delay_access_model_service::TurnDelayAccessModelService;
use routee_compass_core::model::access::default::turn_delays::turn_delay_model::TurnDelayModel;
use routee_compass_core::model::cost::cost_aggregation::CostAggregation;
use routee_compass_core::model::cost::cost_model::CostModel;
use routee_compass_core::model::cost::network::network_cost_rate::NetworkCostRate;
use routee_compass_core::model::cost::vehicle::vehicle_cost_rate::VehicleCostRate;
use routee_compass_core::model::frontier::default::no_restriction::NoRestriction;
use routee_compass_core::model::frontier::frontier_model::FrontierModel;
use routee_compass_core::model::frontier::frontier_model_service::FrontierModelService;
use routee_compass_core::model::network::EdgeId;
use routee_compass_core::model::state::state_feature::StateFeature;
use routee_compass_core::model::state::state_model::StateModel;
use routee_compass_core::model::termination::termination_model::TerminationModel;
use routee_compass_core::model::traversal::default::distance_traversal_model::DistanceTraversalModel;
use routee_compass_core::model::traversal::default::distance_traversal_service::DistanceTraversalService;
use routee_compass_core::model::traversal::default::speed_traversal_engine::SpeedTraversalEngine;
use routee_compass_core::model::traversal::default::speed_traversal_model::SpeedTraversalModel;
use routee_compass_core::model::traversal::default::speed_traversal_service::SpeedLookupService;
use routee_compass_core::model::traversal::traversal_model::TraversalModel;
use routee_compass_core::model::traversal::traversal_model_service::TraversalModelService;
use routee_compass_core::model::unit::*;
use serde::{Deserialize, Serialize};
use std::collections::HashMap;
use std::sync::Arc;
use std::time::Duration;

#[derive(Clone, Debug, Serialize, Deserialize, PartialEq)]
pub enum Rate {
    Zero,
    Raw,
    Factor(f64),
    Offset(f64),
    Combined(Vec<Rate>),
}

impl Rate {
    pub fn real(&self) -> VehicleCostRate {
        match self {
            Rate::Zero => VehicleCostRate::Zero,
            Rate::Raw => VehicleCostRate::Raw,
            Rate::Factor(f) => VehicleCostRate::Factor { factor: *f },
            Rate::Offset(o) => VehicleCostRate::Offset { offset: *o },
            Rate::Combined(v) => VehicleCostRate::Combined(v.iter().map(|r| r.real()).collect()),
        }
    }
    /// reference mapping of a state delta to a cost
    pub fn apply(&self, x: f64) -> f64 {
        match self {
            Rate::Zero => 0.0,
            Rate::Raw => x,
            Rate::Factor(f) => x * f,
            Rate::Offset(o) => x + o,
            Rate::Combined(v) => v.iter().fold(x, |acc, r| r.apply(acc)),
        }
    }
    pub fn json(&self) -> serde_json::Value {
        serde_json::to_value(self.real()).unwrap_or(serde_json::Value::Null)
    }
}

#[derive(Clone, Debug, Serialize, Deserialize)]
pub enum Trav {
    Distance {
        model_unit: DistanceUnit,
    },
    Speed {
        speed_unit: SpeedUnit,
        dist_unit: DistanceUnit,
        time_unit: TimeUnit,
        speeds: Vec<f64>,
    },
}

#[derive(Clone, Debug, Serialize, Deserialize, PartialEq)]
pub struct TurnCfg {
    /// per edge (arrival/start heading, departure/end heading)
    pub headings: Vec<(i16, i16)>,
    /// delay per turn class in `unit`: [no_turn, slight_right, slight_left, right, left, sharp_right, sharp_left, u_turn]
    pub delays: [f64; 8],
    pub unit: TimeUnit,
    /// edges whose departure heading is left blank: such an edge ends with the heading it starts with
    /// (empty = none; `no_departure_column` leaves the whole column out of the file)
    #[serde(default)]
    pub blank_departure: Vec<bool>,
    #[serde(default)]
    pub no_departure_column: bool,
}

impl TurnCfg {
    pub fn is_blank(&self, e: usize) -> bool {
        self.no_departure_column || self.blank_departure.get(e).copied().unwrap_or(false)
    }
    /// heading at the end of edge e
    pub fn end_heading(&self, e: usize) -> i16 {
        if self.is_blank(e) {
            self.headings[e].0
        } else {
            self.headings[e].1
        }
    }
    pub fn real_headings(&self) -> Vec<EdgeHeading> {
        (0..self.headings.len())
            .map(|e| {
                let (a, d) = self.headings[e];
                if self.is_blank(e) {
                    // no constructor leaves the departure heading out: through serde, the way a file row with an empty cell arrives
                    serde_json::from_value(
                        serde_json::json!({"arrival_heading": a, "departure_heading": null}),
                    )
                    .expect("harness: EdgeHeading without a departure heading")
                } else {
                    EdgeHeading::new(a, d)
                }
            })
            .collect()
    }
}

#[derive(Clone, Debug, Serialize, Deserialize, PartialEq)]
pub enum Term {
    Unlimited,
    Iterations(u64),
    Size(usize),
    RuntimeMs { limit_ms: u64, frequency: u64 },
    Combined(Vec<Term>),
}

impl Term {
    /// the termination section as a user writes it, when this limit can be written there (runtime limits are configured as
    /// hh:mm:ss, so the millisecond budgets of the exhaustion clauses cannot)
    pub fn config_json(&self) -> Option<serde_json::Value> {
        use serde_json::json;
        match self {
            Term::Unlimited => Some(json!({"type": "iterations", "limit": u64::MAX / 4})),
            Term::Iterations(l) => Some(json!({"type": "iterations", "limit": l})),
            Term::Size(l) => Some(json!({"type": "solution_size", "limit": l})),
            Term::RuntimeMs {
                limit_ms,
                frequency,
            } => {
                if limit_ms % 1000 != 0 {
                    return None;
                }
                let sec = limit_ms / 1000;
                Some(
                    json!({"type": "query_runtime", "limit": format!("{:02}:{:02}:{:02}", sec / 3600, (sec / 60) % 60, sec % 60), "frequency": frequency}),
                )
            }
            Term::Combined(v) => {
                let members: Option<Vec<serde_json::Value>> =
                    v.iter().map(|t| t.config_json()).collect();
                members.map(|m| json!({"type": "combined", "models": m}))
            }
        }
    }
    /// built by the application's builder from the configuration section where the limit can be written there
    pub fn real(&self) -> TerminationModel {
        if let Some(cfg) = self.config_json() {
            return match routee_compass::app::compass::config::termination_model_builder::TerminationModelBuilder::build(&cfg, None) {
                Ok(t) => t,
                Err(e) => panic!("harness: the library rejects the termination section {}: {}", cfg, e),
            };
        }
        self.constructed()
    }
    pub fn constructed(&self) -> TerminationModel {
        match self {
            Term::Unlimited => TerminationModel::IterationsLimit {
                limit: u64::MAX / 4,
            },
            Term::Iterations(l) => TerminationModel::IterationsLimit { limit: *l },
            Term::Size(l) => TerminationModel::SolutionSizeLimit { limit: *l },
            Term::RuntimeMs {
                limit_ms,
                frequency,
            } => TerminationModel::QueryRuntimeLimit {
                limit: Duration::from_millis(*limit_ms),
                frequency: *frequency,
            },
            Term::Combined(v) => TerminationModel::Combined {
                models: v.iter().map(|t| t.constructed()).collect(),
            },
        }
    }
}

#[derive(Clone, Debug, Serialize, Deserialize)]
pub struct World {
    pub net: Net,
    pub trav: Trav,
    pub feat_dist_unit: DistanceUnit,
    pub feat_time_unit: TimeUnit,
    pub init_dist: f64,
    pub init_time: f64,
    pub turn: Option<TurnCfg>,
    pub w_dist: f64,
    pub w_time: f64,
    pub r_dist: Rate,
    pub r_time: Rate,
    /// per-edge surcharge (network rate EdgeLookup on the distance feature)
    pub surcharge: Vec<(usize, f64)>,
    /// per-turn surcharge (network rate EdgeEdgeLookup on the distance feature)
    pub turn_surcharge: Vec<((usize, usize), f64)>,
    pub mul: bool,
    pub term: Term,
}

pub const TURN_CLASSES: [&str; 8] = [
    "no_turn",
    "slight_right",
    "slight_left",
    "right",
    "left",
    "sharp_right",
    "sharp_left",
    "u_turn",
];

pub fn turn_of(i: usize) -> Turn {
    match i {
        0 => Turn::NoTurn,
        1 => Turn::SlightRight,
        2 => Turn::SlightLeft,
        3 => Turn::Right,
        4 => Turn::Left,
        5 => Turn::SharpRight,
        6 => Turn::SharpLeft,
        _ => Turn::UTurn,
    }
}

/// reference classification of the wrapped heading difference
pub fn ref_turn_class(prev_end: i16, next_start: i16) -> usize {
    let mut a = next_start as i32 - prev_end as i32;
    while a > 180 {
        a -= 360;
    }
    while a < -180 {
        a += 360;
    }
    match a {
        -180..=-160 => 7,
        -159..=-135 => 6,
        -134..=-45 => 4,
        -44..=-20 => 2,
        -19..=19 => 0,
        20..=44 => 1,
        45..=134 => 3,
        135..=159 => 5,
        _ => 7,
    }
}

impl World {
    /// simplest world over a net: distance model in metres, weight 1 on distance, raw rate
    pub fn distance(net: Net) -> World {
        World {
            net,
            trav: Trav::Distance {
                model_unit: DistanceUnit::Meters,
            },
            feat_dist_unit: DistanceUnit::Meters,
            feat_time_unit: TimeUnit::Seconds,
            init_dist: 0.0,
            init_time: 0.0,
            turn: None,
            w_dist: 1.0,
            w_time: 0.0,
            r_dist: Rate::Raw,
            r_time: Rate::Raw,
            surcharge: vec![],
            turn_surcharge: vec![],
            mul: false,
            term: Term::Unlimited,
        }
    }
    pub fn has_time(&self) -> bool {
        matches!(self.trav, Trav::Speed { .. })
    }
    /// units consistent = every add on the state is a pure addition (no lossy unit round trip)
    pub fn units_consistent(&self) -> bool {
        match &self.trav {
            Trav::Distance { model_unit } => *model_unit == self.feat_dist_unit,
            Trav::Speed {
                dist_unit,
                time_unit,
                ..
            } => {
                *dist_unit == self.feat_dist_unit
                    && *time_unit == self.feat_time_unit
                    && self
                        .turn
                        .as_ref()
                        .map_or(true, |t| t.unit == self.feat_time_unit)
            }
        }
    }
    /// exact mode: pure additions in base units, so that the unit tables (good to ~2e-4 only) do not intervene
    pub fn tol(&self) -> f64 {
        let base = self.feat_dist_unit == DistanceUnit::Meters
            && (!self.has_time() || self.feat_time_unit == TimeUnit::Seconds);
        if self.units_consistent() && base {
            1e-8
        } else {
            3e-3
        }
    }
    pub fn state_model(&self) -> StateModel {
        let mut feats = vec![(
            "distance".to_string(),
            StateFeature::Distance {
                distance_unit: self.feat_dist_unit,
                initial: Distance::new(self.init_dist),
            },
        )];
        if self.has_time() {
            feats.push((
                "time".to_string(),
                StateFeature::Time {
                    time_unit: self.feat_time_unit,
                    initial: Time::new(self.init_time),
                },
            ));
        }
        StateModel::new(feats)
    }
    pub fn traversal_model(&self) -> Arc<dyn TraversalModel> {
        match &self.trav {
            Trav::Distance { model_unit } => Arc::new(DistanceTraversalModel::new(*model_unit)),
            Trav::Speed {
                speed_unit,
                dist_unit,
                time_unit,
                speeds,
            } => {
                let table: Vec<Speed> = speeds.iter().map(|s| Speed::new(*s)).collect();
                let max = speeds.iter().cloned().fold(0.0, f64::max);
                let engine = SpeedTraversalEngine {
                    speed_table: table.into_boxed_slice(),
                    speed_unit: *speed_unit,
                    time_unit: *time_unit,
                    distance_unit: *dist_unit,
                    max_speed: Speed::new(max),
                };
                Arc::new(SpeedTraversalModel::new(Arc::new(engine)))
            }
        }
    }
    pub fn access_model(&self) -> Arc<dyn AccessModel> {
        match &self.turn {
            None => Arc::new(NoAccessModel {}),
            Some(t) => {
                let headings: Vec<EdgeHeading> = t.real_headings();
                let mut table = HashMap::new();
                for i in 0..8 {
                    table.insert(turn_of(i), Time::new(t.delays[i]));
                }
                let engine = TurnDelayAccessModelEngine {
                    edge_headings: headings.into_boxed_slice(),
                    turn_delay_model: TurnDelayModel::TabularDiscrete {
                        table,
                        time_unit: t.unit,
                    },
                    time_feature_name: "time".to_string(),
                };
                Arc::new(TurnDelayAccessModel {
                    engine: Arc::new(engine),
                })
            }
        }
    }
    pub fn cost_model(&self, sm: Arc<StateModel>) -> Result<CostModel, String> {
        let mut weights = HashMap::new();
        weights.insert("distance".to_string(), self.w_dist);
        let mut rates = HashMap::new();
        rates.insert("distance".to_string(), self.r_dist.real());
        if self.has_time() {
            weights.insert("time".to_string(), self.w_time);
            rates.insert("time".to_string(), self.r_time.real());
        }
        let mut net_rates = HashMap::new();
        let mut parts = vec![];
        // one table per posting of an edge: an edge listed twice is priced by two tables of the combined rate
        parts.extend(self.edge_tables());
        if !self.turn_surcharge.is_empty() {
            let lookup: HashMap<(EdgeId, EdgeId), Cost> = self
                .turn_surcharge
                .iter()
                .map(|((a, b), c)| ((EdgeId(*a), EdgeId(*b)), Cost::new(*c)))
                .collect();
            parts.push(NetworkCostRate::EdgeEdgeLookup { lookup });
        }
        if parts.len() == 1 {
            net_rates.insert("distance".to_string(), parts.remove(0));
        } else if parts.len() > 1 {
            net_rates.insert("distance".to_string(), NetworkCostRate::Combined(parts));
        }
        CostModel::new(
            Arc::new(weights),
            Arc::new(rates),
            Arc::new(net_rates),
            if self.mul {
                CostAggregation::Mul
            } else {
                CostAggregation::Sum
            },
            sm,
        )
        .map_err(|e| e.to_string())
    }
    pub fn si_with(&self, frontier: Arc<dyn FrontierModel>) -> Result<SearchInstance, String> {
        let sm = Arc::new(self.state_model());
        let cm = self.cost_model(sm.clone())?;
        Ok(SearchInstance {
            directed_graph: Arc::new(self.net.graph()),
            state_model: sm,
            traversal_model: self.traversal_model(),
            access_model: self.access_model(),
            cost_model: Arc::new(cm),
            frontier_model: frontier,
            termination_model: Arc::new(self.term.real()),
        })
    }
    fn engines(
        &self,
    ) -> (
        Option<Arc<SpeedTraversalEngine>>,
        Option<Arc<TurnDelayAccessModelEngine>>,
    ) {
        let speed = match &self.trav {
            Trav::Distance { .. } => None,
            Trav::Speed {
                speed_unit,
                dist_unit,
                time_unit,
                speeds,
            } => {
                let table: Vec<Speed> = speeds.iter().map(|s| Speed::new(*s)).collect();
                let max = speeds.iter().cloned().fold(0.0, f64::max);
                Some(Arc::new(SpeedTraversalEngine {
                    speed_table: table.into_boxed_slice(),
                    speed_unit: *speed_unit,
                    time_unit: *time_unit,
                    distance_unit: *dist_unit,
                    max_speed: Speed::new(max),
                }))
            }
        };
        let turn = self.turn.as_ref().map(|t| {
            let headings: Vec<EdgeHeading> = t.real_headings();
            let mut table = HashMap::new();
            for i in 0..8 {
                table.insert(turn_of(i), Time::new(t.delays[i]));
            }
            Arc::new(TurnDelayAccessModelEngine {
                edge_headings: headings.into_boxed_slice(),
                turn_delay_model: TurnDelayModel::TabularDiscrete {
                    table,
                    time_unit: t.unit,
                },
                time_feature_name: "time".to_string(),
            })
        });
        (speed, turn)
    }
    /// the real SearchApp for this world. `cfg_cost` are the *configured* weights/rates (a query may override them);
    /// the configured state section holds the distance feature; a speed model contributes its own features.
    pub fn search_app(
        &self,
        algo: SearchAlgorithm,
        cfg_weights: HashMap<String, f64>,
        cfg_rates: HashMap<String, VehicleCostRate>,
        cfg_mul: bool,
        frontier: Arc<dyn FrontierModelService>,
    ) -> SearchApp {
        let (speed, turn) = self.engines();
        let traversal_model_service: Arc<dyn TraversalModelService> = match (&self.trav, speed) {
            (Trav::Distance { model_unit }, _) => Arc::new(DistanceTraversalService {
                distance_unit: *model_unit,
            }),
            (_, Some(e)) => Arc::new(SpeedLookupService { e }),
            _ => unreachable!(),
        };
        let access_model_service: Arc<dyn AccessModelService> = match turn {
            None => Arc::new(NoAccessModel {}),
            Some(engine) => Arc::new(TurnDelayAccessModelService { engine }),
        };
        let mut net_rates = HashMap::new();
        let mut tables = self.edge_tables();
        if tables.len() == 1 {
            net_rates.insert("distance".to_string(), tables.remove(0));
        } else if tables.len() > 1 {
            net_rates.insert("distance".to_string(), NetworkCostRate::Combined(tables));
        }
        let configured = StateModel::new(vec![(
            "distance".to_string(),
            StateFeature::Distance {
                distance_unit: self.feat_dist_unit,
                initial: Distance::new(self.init_dist),
            },
        )]);
        SearchApp {
            search_algorithm: algo,
            directed_graph: Arc::new(self.net.graph()),
            state_model: Arc::new(configured),
            traversal_model_service,
            access_model_service,
            cost_model_service: Arc::new(CostModelService {
                vehicle_rates: Arc::new(cfg_rates),
                network_rates: Arc::new(net_rates),
                weights: Arc::new(cfg_weights),
                cost_aggregation: if cfg_mul {
                    CostAggregation::Mul
                } else {
                    CostAggregation::Sum
                },
                ignore_unknown_weights: true,
            }),
            frontier_model_service: frontier,
            termination_model: Arc::new(self.term.real()),
        }
    }
    pub fn si(&self) -> Result<SearchInstance, String> {
        self.si_with(Arc::new(NoRestriction {}))
    }

    // ---- reference arithmetic -------------------------------------------------------------

    /// physical state change on edge `e` in feature units: (distance, time)
    pub fn ref_edge_delta(&self, e: usize) -> (f64, f64) {
        let len_m = self.net.edges[e].2;
        let dd = len_m / ru::distance_m(&self.feat_dist_unit);
        let dt = match &self.trav {
            Trav::Distance { .. } => 0.0,
            Trav::Speed {
                speed_unit, speeds, ..
            } => {
                let v = speeds[e] * ru::speed_mps(speed_unit);
                (len_m / v) / ru::time_s(&self.feat_time_unit)
            }
        };
        (dd, dt)
    }
    /// delay of the turn prev -> next in feature time units
    pub fn ref_turn_delay(&self, prev: usize, next: usize) -> f64 {
        match &self.turn {
            None => 0.0,
            Some(t) => {
                let c = ref_turn_class(t.end_heading(prev), t.headings[next].0);
                t.delays[c] * ru::time_s(&t.unit) / ru::time_s(&self.feat_time_unit)
            }
        }
    }
    /// the per-edge surcharges as lookup tables: the i-th posting of an edge goes into table i
    pub fn edge_tables(&self) -> Vec<NetworkCostRate> {
        let mut tables: Vec<HashMap<EdgeId, Cost>> = vec![];
        for (e, c) in self.surcharge.iter() {
            let layer = tables.iter().position(|t| !t.contains_key(&EdgeId(*e)));
            match layer {
                Some(i) => {
                    tables[i].insert(EdgeId(*e), Cost::new(*c));
                }
                None => tables.push([(EdgeId(*e), Cost::new(*c))].into_iter().collect()),
            }
        }
        tables
            .into_iter()
            .map(|lookup| NetworkCostRate::EdgeLookup { lookup })
            .collect()
    }
    pub fn ref_surcharge(&self, e: usize) -> f64 {
        self.surcharge
            .iter()
            .filter(|(x, _)| *x == e)
            .map(|(_, c)| *c)
            .sum::<f64>()
            * self.w_dist
    }
    pub fn ref_turn_surcharge(&self, prev: usize, e: usize) -> f64 {
        self.turn_surcharge
            .iter()
            .filter(|(x, _)| *x == (prev, e))
            .map(|(_, c)| *c)
            .sum::<f64>()
            * self.w_dist
    }
    /// reference cost of a state change under sum aggregation (before the floor)
    pub fn ref_vehicle_cost(&self, dd: f64, dt: f64) -> f64 {
        let cd = self.r_dist.apply(dd) * self.w_dist;
        if self.has_time() {
            let ct = self.r_time.apply(dt) * self.w_time;
            if self.mul {
                cd * ct
            } else {
                cd + ct
            }
        } else {
            cd
        }
    }
    /// reference cost of traversing edge e (optionally after `prev`): the statement's formula with the floor
    pub fn ref_edge_cost(&self, prev: Option<usize>, e: usize) -> f64 {
        let (dd, mut dt) = self.ref_edge_delta(e);
        let mut sur = self.ref_surcharge(e);
        if let Some(p) = prev {
            dt += self.ref_turn_delay(p, e);
            sur += self.ref_turn_surcharge(p, e);
        }
        let c = self.ref_vehicle_cost(dd, dt) + sur;
        if c > 0.0 {
            c
        } else {
            1e-10
        }
    }
}
