//! builds a real `CompassApp` from generated files and a generated configuration
use crate::world::net::Net;
use crate::world::sw::{TurnCfg, TURN_CLASSES};
use routee_compass::app::compass::compass_app::CompassApp;
use routee_compass::app::compass::compass_app_ops;
use routee_compass::app::compass::config::compass_app_builder::CompassAppBuilder;
use routee_compass_core::model::unit::*;
use serde_json::{json, Value};
use std::io::Write;
use std::path::{Path, PathBuf};

#[derive(Clone, Debug)]
pub struct AppSpec {
    pub net: Net,
    pub algorithm: Value,
    /// None = distance traversal model
    pub speed: Option<(Vec<f64>, SpeedUnit, Option<DistanceUnit>, Option<TimeUnit>)>,
    pub distance_unit: DistanceUnit,
    pub turn: Option<TurnCfg>,
    pub cost: Value,
    pub frontier: Value,
    pub road_classes: Option<Vec<u8>>,
    pub turn_restrictions: Option<Vec<(usize, usize)>>,
    /// rows (edge, name, value, unit)
    pub vehicle_restrictions: Option<Vec<(usize, String, f64, String)>>,
    pub termination: Value,
    pub input_plugins: Vec<Value>,
    pub output_plugins: Vec<Value>,
    pub parallelism: usize,
    pub orientation: String,
    pub persistence: String,
    pub output_policy: Value,
    /// per-edge geometry (defaults to the straight line between the end points)
    pub geometries: Option<Vec<Vec<(f32, f32)>>>,
    pub uuids: Option<Vec<String>>,
    pub gzip_graph: bool,
    /// whether the optional sizes of the [graph] section are written: (n_edges, n_vertices)
    pub graph_counts: (bool, bool),
    /// replaces the whole traversal section (speeds.txt is still written when `speed` is set)
    pub traversal_override: Option<Value>,
}

impl AppSpec {
    pub fn simple(net: Net) -> AppSpec {
        AppSpec {
            net,
            algorithm: json!({"type": "a*"}),
            speed: None,
            distance_unit: DistanceUnit::Meters,
            turn: None,
            cost: json!({"weights": {"distance": 1.0}, "vehicle_rates": {"distance": {"type": "raw"}}, "cost_aggregation": "sum", "network_rates": {}}),
            frontier: json!({"type": "no_restriction"}),
            road_classes: None,
            turn_restrictions: None,
            vehicle_restrictions: None,
            termination: json!({"type": "iterations", "limit": 1000000}),
            input_plugins: vec![],
            output_plugins: vec![
                json!({"type": "summary"}),
                json!({"type": "traversal", "route": "edge_id", "geometry_input_file": "$DIR/geometries.txt"}),
            ],
            parallelism: 2,
            orientation: "vertex".into(),
            persistence: "persist_response_in_memory".into(),
            output_policy: json!({"type": "none"}),
            geometries: None,
            uuids: None,
            gzip_graph: false,
            graph_counts: (false, false),
            traversal_override: None,
        }
    }

    pub fn default_geometry(&self, e: usize) -> Vec<(f32, f32)> {
        let (s, d, _) = self.net.edges[e];
        let (sx, sy) = self.net.coord(s);
        let (dx, dy) = self.net.coord(d);
        // a bend unique to the edge so that every stored geometry is distinguishable
        vec![
            (sx, sy),
            (
                (sx + dx) / 2.0 + 0.001 * (e as f32 + 1.0),
                (sy + dy) / 2.0 - 0.0005 * (e as f32 + 1.0),
            ),
            (dx, dy),
        ]
    }
    pub fn geometry(&self, e: usize) -> Vec<(f32, f32)> {
        match &self.geometries {
            Some(g) => g[e].clone(),
            None => self.default_geometry(e),
        }
    }

    fn write(path: &Path, content: &str, gzip: bool) -> Result<(), String> {
        if gzip {
            let f = std::fs::File::create(path).map_err(|e| e.to_string())?;
            let mut enc = flate2::write::GzEncoder::new(f, flate2::Compression::default());
            enc.write_all(content.as_bytes())
                .map_err(|e| e.to_string())?;
            enc.finish().map_err(|e| e.to_string())?;
            Ok(())
        } else {
            std::fs::write(path, content).map_err(|e| e.to_string())
        }
    }

    /// writes all files into `dir` and returns the JSON configuration
    pub fn write_files(&self, dir: &Path) -> Result<Value, String> {
        std::fs::create_dir_all(dir).map_err(|e| e.to_string())?;
        let d = dir.to_str().ok_or("dir not utf8")?.to_string();
        let ext = if self.gzip_graph { ".csv.gz" } else { ".csv" };
        let mut v = String::from("vertex_id,x,y\n");
        for i in 0..self.net.n {
            let (x, y) = self.net.coord(i);
            v.push_str(&format!("{},{},{}\n", i, x, y));
        }
        Self::write(&dir.join(format!("vertices{}", ext)), &v, self.gzip_graph)?;
        let mut e = String::from("edge_id,src_vertex_id,dst_vertex_id,distance\n");
        for (i, (s, t, l)) in self.net.edges.iter().enumerate() {
            e.push_str(&format!("{},{},{},{}\n", i, s, t, l));
        }
        Self::write(&dir.join(format!("edges{}", ext)), &e, self.gzip_graph)?;
        let m = self.net.m();
        let geoms: String = (0..m)
            .map(|e| {
                format!(
                    "LINESTRING ({})\n",
                    self.geometry(e)
                        .iter()
                        .map(|(x, y)| format!("{} {}", x, y))
                        .collect::<Vec<_>>()
                        .join(", ")
                )
            })
            .collect();
        Self::write(&dir.join("geometries.txt"), &geoms, false)?;
        let uuids: String = match &self.uuids {
            Some(u) => u.iter().map(|s| format!("{}\n", s)).collect(),
            None => (0..self.net.n).map(|i| format!("uuid-{}\n", i)).collect(),
        };
        Self::write(&dir.join("uuids.txt"), &uuids, false)?;
        let mut traversal = json!({"type": "distance", "distance_unit": self.distance_unit});
        if let Some((speeds, su, du, tu)) = &self.speed {
            let s: String = speeds.iter().map(|x| format!("{}\n", x)).collect();
            Self::write(&dir.join("speeds.txt"), &s, false)?;
            traversal = json!({"type": "speed_table", "speed_table_input_file": format!("{}/speeds.txt", d), "speed_unit": su});
            if let Some(du) = du {
                traversal["distance_unit"] = json!(du);
            }
            if let Some(tu) = tu {
                traversal["time_unit"] = json!(tu);
            }
        }
        if let Some(t) = &self.traversal_override {
            traversal = t.clone();
        }
        let mut access = json!({"type": "no_access_model"});
        if let Some(t) = &self.turn {
            let mut h = String::from(if t.no_departure_column {
                "arrival_heading\n"
            } else {
                "arrival_heading,departure_heading\n"
            });
            for (e, (a, dep)) in t.headings.iter().enumerate() {
                if t.no_departure_column {
                    h.push_str(&format!("{}\n", a));
                } else if t.is_blank(e) {
                    h.push_str(&format!("{},\n", a));
                } else {
                    h.push_str(&format!("{},{}\n", a, dep));
                }
            }
            Self::write(&dir.join("headings.csv"), &h, false)?;
            let mut table = serde_json::Map::new();
            for (i, name) in TURN_CLASSES.iter().enumerate() {
                table.insert(name.to_string(), json!(t.delays[i]));
            }
            access = json!({
                "type": "turn_delay",
                "edge_heading_input_file": format!("{}/headings.csv", d),
                "turn_delay_model": {"type": "tabular_discrete", "time_unit": t.unit, "table": table}
            });
        }
        if let Some(rc) = &self.road_classes {
            let s: String = rc.iter().map(|x| format!("{}\n", x)).collect();
            Self::write(&dir.join("road_classes.txt"), &s, false)?;
        }
        if let Some(tr) = &self.turn_restrictions {
            let mut s = String::from("prev_edge_id,next_edge_id\n");
            for (a, b) in tr {
                s.push_str(&format!("{},{}\n", a, b));
            }
            Self::write(&dir.join("turn_restrictions.csv"), &s, false)?;
        }
        if let Some(vr) = &self.vehicle_restrictions {
            let mut s =
                String::from("edge_id,restriction_name,restriction_value,restriction_unit\n");
            for (e, n, val, u) in vr {
                s.push_str(&format!("{},{},{},{}\n", e, n, val, u));
            }
            Self::write(&dir.join("vehicle_restrictions.csv"), &s, false)?;
        }
        let state = json!({"distance": {"distance_unit": self.distance_unit, "initial": 0.0}});
        let mut graph = json!({
            "edge_list_input_file": format!("{}/edges{}", d, ext),
            "vertex_list_input_file": format!("{}/vertices{}", d, ext),
            "verbose": false
        });
        if self.graph_counts.0 {
            graph["n_edges"] = json!(self.net.m());
        }
        if self.graph_counts.1 {
            graph["n_vertices"] = json!(self.net.n);
        }
        let cfg = json!({
            "parallelism": self.parallelism,
            "search_orientation": self.orientation,
            "response_persistence_policy": self.persistence,
            "response_output_policy": self.output_policy,
            "graph": graph,
            "algorithm": self.algorithm,
            "state": state,
            "traversal": traversal,
            "access": access,
            "cost": self.cost,
            "frontier": self.frontier,
            "termination": self.termination,
            "plugin": {"input_plugins": self.input_plugins, "output_plugins": self.output_plugins}
        });
        let text = serde_json::to_string(&cfg)
            .map_err(|e| e.to_string())?
            .replace("$DIR", &d);
        serde_json::from_str(&text).map_err(|e| e.to_string())
    }

    pub fn build(&self, dir: &Path) -> Result<CompassApp, String> {
        let cfg = self.write_files(dir)?;
        build_app_from_json(&cfg, dir)
    }
}

pub fn build_app_from_json(cfg: &Value, dir: &Path) -> Result<CompassApp, String> {
    let text = serde_json::to_string(cfg).map_err(|e| e.to_string())?;
    let conf_path = dir.join("config.json");
    std::fs::write(&conf_path, &text).map_err(|e| e.to_string())?;
    let config = compass_app_ops::read_config_from_string(
        text,
        config::FileFormat::Json,
        conf_path.to_str().unwrap_or("").to_string(),
    )
    .map_err(|e| e.to_string())?;
    let builder = <CompassAppBuilder as Default>::default();
    CompassApp::try_from((&config, &builder)).map_err(|e| e.to_string())
}

/// a private scratch directory below $VERIF_WORK (or /verif/.work), removed on drop
pub struct Scratch {
    pub path: PathBuf,
}
impl Scratch {
    pub fn new(tag: &str) -> Scratch {
        use std::sync::atomic::{AtomicU64, Ordering};
        static N: AtomicU64 = AtomicU64::new(0);
        let base = std::env::var("VERIF_WORK")
            .map(PathBuf::from)
            .unwrap_or_else(|_| crate::engine::verif_root().join(".work"));
        let path = base.join(format!(
            "{}-{}-{}",
            tag,
            std::process::id(),
            N.fetch_add(1, Ordering::SeqCst)
        ));
        let _ = std::fs::create_dir_all(&path);
        Scratch { path }
    }
}
impl Drop for Scratch {
    fn drop(&mut self) {
        let _ = std::fs::remove_dir_all(&self.path);
    }
}
