//! small networks: representation, exhaustive enumeration G(n,m,L), conversion to the
//! repository's `Graph`.
use routee_compass_core::model::network::{Edge, EdgeId, Graph, Vertex, VertexId};
use routee_compass_core::util::compact_ordered_hash_map::CompactOrderedHashMap;
use serde::{Deserialize, Serialize};

#[derive(Clone, Debug, Serialize, Deserialize, PartialEq)]
pub struct Net {
    pub n: usize,
    /// (src, dst, length in metres); edge id = position
    pub edges: Vec<(usize, usize, f64)>,
    /// explicit vertex coordinates; None = the 3 x 3 lattice of `coord`
    #[serde(default, skip_serializing_if = "Option::is_none")]
    pub xy: Option<Vec<(f32, f32)>>,
}

/// lattice coordinates: vertex i sits at ((i % 3) * 0.01, (i / 3) * 0.01) degrees
pub fn coord(i: usize) -> (f32, f32) {
    ((i % 3) as f32 * 0.01, (i / 3) as f32 * 0.01)
}

impl Net {
    pub fn coord(&self, i: usize) -> (f32, f32) {
        match &self.xy {
            Some(v) => v[i],
            None => coord(i),
        }
    }
    pub fn m(&self) -> usize {
        self.edges.len()
    }
    pub fn vertices(&self) -> Vec<Vertex> {
        (0..self.n)
            .map(|i| {
                let (x, y) = self.coord(i);
                Vertex::new(i, x, y)
            })
            .collect()
    }
    /// builds the repository graph the same way `EdgeLoader` does (insert into adj[src], rev[dst])
    pub fn graph(&self) -> Graph {
        let vertices = self.vertices();
        let edges: Vec<Edge> = self
            .edges
            .iter()
            .enumerate()
            .map(|(i, (s, d, l))| Edge::new(i, *s, *d, *l))
            .collect();
        let mut adj: Vec<CompactOrderedHashMap<EdgeId, VertexId>> =
            vec![CompactOrderedHashMap::empty(); self.n];
        let mut rev: Vec<CompactOrderedHashMap<EdgeId, VertexId>> =
            vec![CompactOrderedHashMap::empty(); self.n];
        for e in edges.iter() {
            adj[e.src_vertex_id.0].insert(e.edge_id, e.dst_vertex_id);
            rev[e.dst_vertex_id.0].insert(e.edge_id, e.src_vertex_id);
        }
        Graph {
            adj: adj.into_boxed_slice(),
            rev: rev.into_boxed_slice(),
            edges: edges.into_boxed_slice(),
            vertices: vertices.into_boxed_slice(),
        }
    }
    pub fn out_edges(&self, v: usize) -> Vec<usize> {
        (0..self.m()).filter(|e| self.edges[*e].0 == v).collect()
    }
    pub fn in_edges(&self, v: usize) -> Vec<usize> {
        (0..self.m()).filter(|e| self.edges[*e].1 == v).collect()
    }
    /// deterministic index derived from the content (FNV-1a); used to rotate covering subsets of configurations
    pub fn hash_idx(&self) -> u64 {
        let mut h: u64 = 0xcbf29ce484222325;
        let mut mix = |x: u64| {
            h ^= x;
            h = h.wrapping_mul(0x100000001b3);
        };
        mix(self.n as u64);
        for (s, d, l) in self.edges.iter() {
            mix(*s as u64);
            mix(*d as u64 + 17);
            mix(l.to_bits());
        }
        h >> 8
    }
    /// size used to order counterexamples: fewer vertices, then fewer edges, then shorter lengths
    pub fn size(&self) -> u64 {
        (self.n as u64) * 1_000_000
            + (self.m() as u64) * 10_000
            + self
                .edges
                .iter()
                .map(|e| e.2 as u64)
                .sum::<u64>()
                .min(9_999)
    }
}

/// the code's own haversine between two lattice vertices, in metres
pub fn haversine_m(a: usize, b: usize) -> f64 {
    use routee_compass_core::model::unit::as_f64::AsF64;
    let (ax, ay) = coord(a);
    let (bx, by) = coord(b);
    routee_compass_core::util::geo::haversine::haversine_distance_meters(ax, ay, bx, by)
        .map(|d| d.as_f64())
        .unwrap_or(f64::NAN)
}

/// how edge lengths are chosen for an enumerated topology
#[derive(Clone, Copy, Debug, PartialEq, Eq, Serialize, Deserialize)]
pub enum LenMode {
    /// alphabet index l -> lens[l] (tie-rich)
    Alphabet,
    /// edge i gets 2^i (+ alphabet index) so that all path sums differ (tie-free)
    PowersOfTwo,
    /// ceil(haversine * factor[l]) with a floor of 1 m: admissible heuristics for A*
    Metric,
    /// vertices on the equator with very uneven spacing (`line_xy`), lengths ceil(haversine * LINE_FACTORS[l]) + 1:
    /// long edges that make a lot of progress next to short last hops, where a heuristic evaluated at the wrong
    /// end of an edge changes the answer
    LineMetric,
    /// the same uneven line with lengths ceil(haversine * SHORT_FACTORS[l]): some edges are recorded shorter than the
    /// straight line between their end points, so the A* estimate is neither admissible nor consistent even with weight
    /// factor 1 (length columns of real networks contain such rows)
    LineShort,
}

pub const SHORT_FACTORS: [f64; 3] = [0.25, 1.0, 3.0];

pub const LINE_FACTORS: [f64; 3] = [1.0, 1.1, 3.0];

/// vertex 0 at 0, vertex n-1 at 0.090 degrees, the others close to the far end or in the middle
pub fn line_xy(n: usize) -> Vec<(f32, f32)> {
    let inner = [0.081f32, 0.088, 0.05, 0.02, 0.07];
    (0..n)
        .map(|i| {
            if i == 0 {
                (0.0, 0.0)
            } else if i == n - 1 {
                (0.090, 0.0)
            } else {
                (inner[(i - 1) % inner.len()], 0.0)
            }
        })
        .collect()
}

fn hav_xy(a: (f32, f32), b: (f32, f32)) -> f64 {
    use routee_compass_core::model::unit::as_f64::AsF64;
    routee_compass_core::util::geo::haversine::haversine_distance_meters(a.0, a.1, b.0, b.1)
        .map(|d| d.as_f64())
        .unwrap_or(f64::NAN)
}

#[derive(Clone, Debug)]
pub struct GenSpec {
    pub n: usize,
    pub max_edges: usize,
    pub max_mult: usize,
    pub n_len: usize,
    pub self_loops: bool,
    pub mode: LenMode,
}

pub const ALPHABET_LENS: [f64; 3] = [1.0, 2.0, 5.0];
pub const METRIC_FACTORS: [f64; 3] = [1.0, 1.5, 3.0];

impl GenSpec {
    pub fn pairs(&self) -> Vec<(usize, usize)> {
        let mut v = vec![];
        for s in 0..self.n {
            for d in 0..self.n {
                if s != d || self.self_loops {
                    v.push((s, d));
                }
            }
        }
        v
    }
    fn len_of(&self, edge_pos: usize, pair: (usize, usize), l: usize) -> f64 {
        match self.mode {
            LenMode::Alphabet => ALPHABET_LENS[l],
            LenMode::PowersOfTwo => (1u64 << (edge_pos + 1)) as f64 + l as f64 * 0.25,
            LenMode::Metric => {
                let h = haversine_m(pair.0, pair.1);
                (h * METRIC_FACTORS[l]).ceil().max(1.0) + 1.0
            }
            LenMode::LineMetric => {
                let xy = line_xy(self.n);
                let h = hav_xy(xy[pair.0], xy[pair.1]);
                (h * LINE_FACTORS[l]).ceil().max(1.0) + 1.0
            }
            LenMode::LineShort => {
                let xy = line_xy(self.n);
                let h = hav_xy(xy[pair.0], xy[pair.1]);
                (h * SHORT_FACTORS[l]).ceil().max(1.0)
            }
        }
    }
    pub fn describe(&self) -> String {
        format!(
            "G(n={},m<={},mult<={},L={},loops={},{:?})",
            self.n, self.max_edges, self.max_mult, self.n_len, self.self_loops, self.mode
        )
    }
}

/// a shard is a prefix of (pair index, length index) choices
pub type Choice = (usize, usize);

/// all shards of a spec: every prefix of length exactly `depth` (or shorter, flagged terminal)
pub fn shards(spec: &GenSpec, depth: usize) -> Vec<(Vec<Choice>, bool)> {
    let npairs = spec.pairs().len();
    let mut out = vec![];
    fn rec(
        spec: &GenSpec,
        npairs: usize,
        depth: usize,
        cur: &mut Vec<Choice>,
        out: &mut Vec<(Vec<Choice>, bool)>,
    ) {
        if cur.len() == depth || cur.len() == spec.max_edges {
            out.push((cur.clone(), false));
            return;
        }
        // the graph that stops here (terminal, no extension)
        out.push((cur.clone(), true));
        let (start, used) = match cur.last() {
            None => (0, 0),
            Some((p, _)) => (*p, cur.iter().filter(|c| c.0 == *p).count()),
        };
        for p in start..npairs {
            if p == start && !cur.is_empty() && used >= spec.max_mult {
                continue;
            }
            for l in 0..spec.n_len {
                cur.push((p, l));
                rec(spec, npairs, depth, cur, out);
                cur.pop();
            }
        }
    }
    let mut cur = vec![];
    rec(spec, npairs, depth, &mut cur, &mut out);
    out
}

/// enumerates every graph extending `prefix` (including the prefix itself); if `terminal`
/// only the prefix itself is emitted.
pub fn for_each_in_shard(
    spec: &GenSpec,
    prefix: &[Choice],
    terminal: bool,
    f: &mut dyn FnMut(&Net),
) {
    let pairs = spec.pairs();
    let mut cur: Vec<Choice> = prefix.to_vec();
    fn emit(spec: &GenSpec, pairs: &[(usize, usize)], cur: &[Choice], f: &mut dyn FnMut(&Net)) {
        let edges = cur
            .iter()
            .enumerate()
            .map(|(i, (p, l))| (pairs[*p].0, pairs[*p].1, spec.len_of(i, pairs[*p], *l)))
            .collect();
        f(&Net {
            n: spec.n,
            edges,
            xy: if spec.mode == LenMode::LineMetric || spec.mode == LenMode::LineShort {
                Some(line_xy(spec.n))
            } else {
                None
            },
        });
    }
    fn rec(
        spec: &GenSpec,
        pairs: &[(usize, usize)],
        cur: &mut Vec<Choice>,
        f: &mut dyn FnMut(&Net),
    ) {
        emit(spec, pairs, cur, f);
        if cur.len() == spec.max_edges {
            return;
        }
        let (start, used) = match cur.last() {
            None => (0, 0),
            Some((p, _)) => (*p, cur.iter().filter(|c| c.0 == *p).count()),
        };
        for p in start..pairs.len() {
            if p == start && !cur.is_empty() && used >= spec.max_mult {
                continue;
            }
            for l in 0..spec.n_len {
                cur.push((p, l));
                rec(spec, pairs, cur, f);
                cur.pop();
            }
        }
    }
    if terminal {
        emit(spec, &pairs, &cur, f);
    } else {
        rec(spec, &pairs, &mut cur, f);
    }
}

/// runs `f` over every graph of every spec in parallel; returns merged statistics
pub fn par_enumerate<F>(specs: &[GenSpec], f: F) -> crate::engine::Stats
where
    F: Fn(&GenSpec, &Net, &mut crate::engine::Stats) + Sync + Send,
{
    use rayon::prelude::*;
    let mut work: Vec<(usize, Vec<Choice>, bool)> = vec![];
    for (i, s) in specs.iter().enumerate() {
        for (p, t) in shards(s, 2) {
            work.push((i, p, t));
        }
    }
    work.into_par_iter()
        .map(|(i, prefix, terminal)| {
            let mut st = crate::engine::Stats::new();
            let spec = &specs[i];
            let r = std::panic::catch_unwind(std::panic::AssertUnwindSafe(|| {
                for_each_in_shard(spec, &prefix, terminal, &mut |net| f(spec, net, &mut st));
            }));
            if let Err(p) = r {
                let msg = crate::engine::panic_message(&p);
                st.violation(
                    "harness",
                    "shard_panicked",
                    0,
                    || {
                        format!(
                            "shard {:?} of {} panicked: {}",
                            prefix,
                            spec.describe(),
                            msg
                        )
                    },
                    || serde_json::json!({"spec": spec.describe(), "prefix": prefix}),
                );
            }
            st
        })
        .reduce(crate::engine::Stats::new, |mut a, b| {
            a.merge(b);
            a
        })
}

pub fn count(spec: &GenSpec) -> u64 {
    let mut c = 0u64;
    for (p, t) in shards(spec, 2) {
        for_each_in_shard(spec, &p, t, &mut |_| c += 1);
    }
    c
}
