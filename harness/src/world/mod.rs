pub mod app;
pub mod net;
pub mod sw;
