pub mod net;
