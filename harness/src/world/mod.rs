pub mod net;
pub mod sw;
pub mod app;
