pub mod net;
pub mod sw;
