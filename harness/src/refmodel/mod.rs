pub mod graph;
pub mod units;
