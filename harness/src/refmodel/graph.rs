//! deliberately naive reference graph algorithms over `Net`
use crate::world::net::Net;

/// vertices reachable from `from` using only edges for which `ok(edge)`; forward = follow src->dst
pub fn reachable(net: &Net, from: usize, forward: bool, ok: &dyn Fn(usize) -> bool) -> Vec<bool> {
    let mut seen = vec![false; net.n];
    seen[from] = true;
    let mut changed = true;
    while changed {
        changed = false;
        for (e, (s, d, _)) in net.edges.iter().enumerate() {
            if !ok(e) {
                continue;
            }
            let (a, b) = if forward { (*s, *d) } else { (*d, *s) };
            if seen[a] && !seen[b] {
                seen[b] = true;
                changed = true;
            }
        }
    }
    seen
}

/// Bellman-Ford distances from `from` with per-edge cost; f64::INFINITY when unreachable.
/// forward = follow src->dst, otherwise dst->src.
pub fn bellman_ford(
    net: &Net,
    from: usize,
    forward: bool,
    cost: &dyn Fn(usize) -> Option<f64>,
) -> Vec<f64> {
    let mut dist = vec![f64::INFINITY; net.n];
    dist[from] = 0.0;
    for _ in 0..net.n + 1 {
        let mut changed = false;
        for (e, (s, d, _)) in net.edges.iter().enumerate() {
            let c = match cost(e) {
                Some(c) => c,
                None => continue,
            };
            let (a, b) = if forward { (*s, *d) } else { (*d, *s) };
            if dist[a].is_finite() && dist[a] + c < dist[b] {
                dist[b] = dist[a] + c;
                changed = true;
            }
        }
        if !changed {
            break;
        }
    }
    dist
}

/// all simple (vertex-distinct) paths from `o` to `d` as edge id lists (forward direction)
pub fn simple_paths(net: &Net, o: usize, d: usize, ok: &dyn Fn(usize) -> bool) -> Vec<Vec<usize>> {
    let mut out = vec![];
    let mut visited = vec![false; net.n];
    let mut cur = vec![];
    fn rec(
        net: &Net,
        v: usize,
        d: usize,
        ok: &dyn Fn(usize) -> bool,
        visited: &mut Vec<bool>,
        cur: &mut Vec<usize>,
        out: &mut Vec<Vec<usize>>,
    ) {
        if v == d && !cur.is_empty() {
            out.push(cur.clone());
            return;
        }
        visited[v] = true;
        for (e, (s, t, _)) in net.edges.iter().enumerate() {
            if *s == v && ok(e) && (!visited[*t]) {
                cur.push(e);
                rec(net, *t, d, ok, visited, cur, out);
                cur.pop();
            }
        }
        visited[v] = false;
    }
    if o == d {
        return out;
    }
    rec(net, o, d, ok, &mut visited, &mut cur, &mut out);
    out
}

/// mutual reachability classes (Floyd-Warshall closure), each class sorted, classes sorted
pub fn scc_classes(n: usize, edges: &[(usize, usize)]) -> Vec<Vec<usize>> {
    let mut r = vec![vec![false; n]; n];
    for i in 0..n {
        r[i][i] = true;
    }
    for (s, d) in edges {
        r[*s][*d] = true;
    }
    for k in 0..n {
        for i in 0..n {
            if r[i][k] {
                for j in 0..n {
                    if r[k][j] {
                        r[i][j] = true;
                    }
                }
            }
        }
    }
    let mut assigned = vec![false; n];
    let mut out = vec![];
    for i in 0..n {
        if assigned[i] {
            continue;
        }
        let mut class = vec![];
        for j in 0..n {
            if r[i][j] && r[j][i] {
                class.push(j);
                assigned[j] = true;
            }
        }
        out.push(class);
    }
    out.sort();
    out
}

/// strongly connected components in linear time (iterative Tarjan, own code): the reference for graphs too large for the
/// cubic closure above; the two references are compared with each other on every small graph by the C18 check
pub fn scc_classes_linear(n: usize, edges: &[(usize, usize)]) -> Vec<Vec<usize>> {
    let mut adj: Vec<Vec<usize>> = vec![vec![]; n];
    for (s, d) in edges {
        adj[*s].push(*d);
    }
    const NONE: usize = usize::MAX;
    let mut index = vec![NONE; n];
    let mut low = vec![0usize; n];
    let mut on_stack = vec![false; n];
    let mut stack: Vec<usize> = vec![];
    let mut next = 0usize;
    let mut out: Vec<Vec<usize>> = vec![];
    for root in 0..n {
        if index[root] != NONE {
            continue;
        }
        // explicit call stack of (vertex, position in its adjacency list)
        let mut calls: Vec<(usize, usize)> = vec![(root, 0)];
        index[root] = next;
        low[root] = next;
        next += 1;
        stack.push(root);
        on_stack[root] = true;
        while let Some((v, pos)) = calls.last().cloned() {
            if pos < adj[v].len() {
                calls.last_mut().unwrap().1 += 1;
                let w = adj[v][pos];
                if index[w] == NONE {
                    index[w] = next;
                    low[w] = next;
                    next += 1;
                    stack.push(w);
                    on_stack[w] = true;
                    calls.push((w, 0));
                } else if on_stack[w] {
                    low[v] = low[v].min(index[w]);
                }
            } else {
                calls.pop();
                if let Some((parent, _)) = calls.last() {
                    let p = *parent;
                    low[p] = low[p].min(low[v]);
                }
                if low[v] == index[v] {
                    let mut class = vec![];
                    loop {
                        let w = stack.pop().unwrap();
                        on_stack[w] = false;
                        class.push(w);
                        if w == v {
                            break;
                        }
                    }
                    class.sort();
                    out.push(class);
                }
            }
        }
    }
    out.sort();
    out
}
