//! physical unit factors from SI / NIST definitions; value_in_base = value * factor
use routee_compass_core::model::unit::{
    DistanceUnit, EnergyRateUnit, EnergyUnit, GradeUnit, SpeedUnit, TimeUnit, WeightUnit,
};

pub const DISTANCE_UNITS: [DistanceUnit; 5] = [
    DistanceUnit::Meters,
    DistanceUnit::Kilometers,
    DistanceUnit::Miles,
    DistanceUnit::Inches,
    DistanceUnit::Feet,
];
pub const TIME_UNITS: [TimeUnit; 4] = [
    TimeUnit::Hours,
    TimeUnit::Minutes,
    TimeUnit::Seconds,
    TimeUnit::Milliseconds,
];
pub const SPEED_UNITS: [SpeedUnit; 3] = [
    SpeedUnit::KilometersPerHour,
    SpeedUnit::MilesPerHour,
    SpeedUnit::MetersPerSecond,
];
pub const ENERGY_UNITS: [EnergyUnit; 3] = [
    EnergyUnit::GallonsGasoline,
    EnergyUnit::GallonsDiesel,
    EnergyUnit::KilowattHours,
];
pub const GRADE_UNITS: [GradeUnit; 3] = [GradeUnit::Percent, GradeUnit::Decimal, GradeUnit::Millis];
pub const WEIGHT_UNITS: [WeightUnit; 3] = [WeightUnit::Pounds, WeightUnit::Tons, WeightUnit::Kg];
pub const ENERGY_RATE_UNITS: [EnergyRateUnit; 5] = [
    EnergyRateUnit::GallonsGasolinePerMile,
    EnergyRateUnit::GallonsDieselPerMile,
    EnergyRateUnit::KilowattHoursPerMile,
    EnergyRateUnit::KilowattHoursPerKilometer,
    EnergyRateUnit::KilowattHoursPerMeter,
];

/// the distance unit an energy rate is "per", by the unit's name (not the library's `associated_distance_unit`)
pub fn rate_distance_unit(u: &EnergyRateUnit) -> DistanceUnit {
    match u {
        EnergyRateUnit::GallonsGasolinePerMile
        | EnergyRateUnit::GallonsDieselPerMile
        | EnergyRateUnit::KilowattHoursPerMile => DistanceUnit::Miles,
        EnergyRateUnit::KilowattHoursPerKilometer => DistanceUnit::Kilometers,
        EnergyRateUnit::KilowattHoursPerMeter => DistanceUnit::Meters,
    }
}
/// the energy unit an energy rate yields, by the unit's name (not the library's `associated_energy_unit`)
pub fn rate_energy_unit(u: &EnergyRateUnit) -> EnergyUnit {
    match u {
        EnergyRateUnit::GallonsGasolinePerMile => EnergyUnit::GallonsGasoline,
        EnergyRateUnit::GallonsDieselPerMile => EnergyUnit::GallonsDiesel,
        EnergyRateUnit::KilowattHoursPerMile
        | EnergyRateUnit::KilowattHoursPerKilometer
        | EnergyRateUnit::KilowattHoursPerMeter => EnergyUnit::KilowattHours,
    }
}

/// metres per unit
pub fn distance_m(u: &DistanceUnit) -> f64 {
    match u {
        DistanceUnit::Meters => 1.0,
        DistanceUnit::Kilometers => 1000.0,
        DistanceUnit::Miles => 1609.344,
        DistanceUnit::Inches => 0.0254,
        DistanceUnit::Feet => 0.3048,
    }
}
/// seconds per unit
pub fn time_s(u: &TimeUnit) -> f64 {
    match u {
        TimeUnit::Hours => 3600.0,
        TimeUnit::Minutes => 60.0,
        TimeUnit::Seconds => 1.0,
        TimeUnit::Milliseconds => 0.001,
    }
}
/// metres per second per unit
pub fn speed_mps(u: &SpeedUnit) -> f64 {
    match u {
        SpeedUnit::KilometersPerHour => 1000.0 / 3600.0,
        SpeedUnit::MilesPerHour => 1609.344 / 3600.0,
        SpeedUnit::MetersPerSecond => 1.0,
    }
}
/// decimal (rise over run) per unit
pub fn grade_dec(u: &GradeUnit) -> f64 {
    match u {
        GradeUnit::Percent => 0.01,
        GradeUnit::Decimal => 1.0,
        GradeUnit::Millis => 0.001,
    }
}
/// kilograms per unit (short ton)
pub fn weight_kg(u: &WeightUnit) -> f64 {
    match u {
        WeightUnit::Pounds => 0.45359237,
        WeightUnit::Tons => 907.18474,
        WeightUnit::Kg => 1.0,
    }
}
pub fn distance(v: f64, from: &DistanceUnit, to: &DistanceUnit) -> f64 {
    v * distance_m(from) / distance_m(to)
}
pub fn time(v: f64, from: &TimeUnit, to: &TimeUnit) -> f64 {
    v * time_s(from) / time_s(to)
}
pub fn speed(v: f64, from: &SpeedUnit, to: &SpeedUnit) -> f64 {
    v * speed_mps(from) / speed_mps(to)
}

/// great-circle distance in metres between two WGS84 coordinates (degrees), in double precision on a sphere of radius
/// 6 371 000 m - the reference for oracles (the library's single-precision haversine is not used there)
pub fn great_circle_m(ax: f64, ay: f64, bx: f64, by: f64) -> f64 {
    let (lat1, lat2) = (ay.to_radians(), by.to_radians());
    let d_lat = lat2 - lat1;
    let d_lon = (bx - ax).to_radians();
    let a = (d_lat / 2.0).sin().powi(2) + (d_lon / 2.0).sin().powi(2) * lat1.cos() * lat2.cos();
    6_371_000.0 * 2.0 * a.sqrt().asin()
}
