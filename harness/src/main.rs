//! vharness <ID> <quick|thorough> | vharness <ID> --replay <file> | vharness --worker <ID>
mod engine;
mod props;
mod refmodel;
mod world;

use engine::Tier;

fn usage() -> ! {
    eprintln!("usage: vharness <C01..C20> <quick|thorough> | vharness <ID> --replay <file> | vharness --worker <ID>");
    std::process::exit(2)
}

fn main() {
    let args: Vec<String> = std::env::args().collect();
    if args.len() < 3 {
        usage();
    }
    // quiet panics from the code under test: they are caught and classified by the checks
    if std::env::var("VERIF_SHOW_PANICS").is_err() {
        std::panic::set_hook(Box::new(|_| {}));
    }
    // address-space cap for the whole process (workers set their own, tighter one): code under test that allocates without
    // bound ends in an abort of this process (a machinery exit) instead of taking the machine down
    {
        let mem: u64 = std::env::var("VERIF_MAIN_MEM_MB")
            .ok()
            .and_then(|s| s.parse().ok())
            .unwrap_or(24 * 1024);
        unsafe {
            let lim = libc::rlimit {
                rlim_cur: mem * 1024 * 1024,
                rlim_max: mem * 1024 * 1024,
            };
            libc::setrlimit(libc::RLIMIT_AS, &lim);
        }
    }
    if args[1] == "--worker" {
        std::process::exit(props::worker(&args[2]));
    }
    let id = args[1].to_uppercase();
    let code = if args[2] == "--replay" {
        if args.len() < 4 {
            usage();
        }
        let text = match std::fs::read_to_string(&args[3]) {
            Ok(t) => t,
            Err(e) => {
                println!("MACHINERY-ERROR cannot read {}: {}", args[3], e);
                std::process::exit(2);
            }
        };
        let v: serde_json::Value = match serde_json::from_str(&text) {
            Ok(v) => v,
            Err(e) => {
                println!("MACHINERY-ERROR cannot parse {}: {}", args[3], e);
                std::process::exit(2);
            }
        };
        let case = if v.get("case").is_some() {
            v["case"].clone()
        } else {
            v
        };
        props::replay(&id, &case)
    } else {
        let tier = match args[2].as_str() {
            "quick" => Tier::Quick,
            "thorough" => Tier::Thorough,
            _ => usage(),
        };
        props::run(&id, tier)
    };
    std::process::exit(code);
}
