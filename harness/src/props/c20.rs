//! C20 — every output format renders the same route, with geometry in edge order
use crate::engine::{close, finish, guarded, RunInfo, Stats, Tier};
use crate::props::search_common::Algo;
use crate::world::app::{AppSpec, Scratch};
use crate::world::net::{for_each_in_shard, shards, GenSpec, LenMode, Net};
use crate::world::sw::World;
use routee_compass::app::compass::compass_app::apply_output_processing;
use routee_compass::app::compass::search_orientation::SearchOrientation;
use routee_compass::plugin::output::default::summary::plugin::SummaryOutputPlugin;
use routee_compass::plugin::output::default::traversal::plugin::TraversalPlugin;
use routee_compass::plugin::output::default::traversal::traversal_output_format::TraversalOutputFormat;
use routee_compass::plugin::output::default::uuid::plugin::UUIDOutputPlugin;
use routee_compass::plugin::output::output_plugin::OutputPlugin;
use routee_compass_core::model::frontier::default::no_restriction::NoRestriction;
use routee_compass_core::model::unit::as_f64::AsF64;
use serde_json::{json, Value};
use std::collections::HashMap;
use std::sync::Arc;

const FORMATS: [(&str, TraversalOutputFormat); 5] = [
    ("edge_id", TraversalOutputFormat::EdgeId),
    ("json", TraversalOutputFormat::Json),
    ("geo_json", TraversalOutputFormat::GeoJson),
    ("wkt", TraversalOutputFormat::Wkt),
    ("wkb", TraversalOutputFormat::Wkb),
];

/// stored geometry of edge e: 2-4 points depending on the edge id
fn geometry(spec: &AppSpec, e: usize) -> Vec<(f32, f32)> {
    let g = spec.default_geometry(e);
    match e % 3 {
        0 => vec![g[0], g[2]],
        1 => g,
        _ => vec![g[0], g[1], ((g[1].0 + g[2].0) / 2.0, g[1].1 + 0.0001), g[2]],
    }
}

fn parse_wkt_coords(s: &str) -> Vec<Vec<(f64, f64)>> {
    // LINESTRING(x y,x y) or MULTILINESTRING((x y,x y),(x y,x y)) or "LINESTRING EMPTY"
    let mut out = vec![];
    let body = match s.find('(') {
        Some(i) => &s[i..],
        None => return out,
    };
    let mut cur = String::new();
    let mut depth = 0;
    for ch in body.chars() {
        match ch {
            '(' => {
                depth += 1;
                cur.clear();
            }
            ')' => {
                if !cur.trim().is_empty() {
                    let pts: Vec<(f64, f64)> = cur
                        .split(',')
                        .filter_map(|p| {
                            let xs: Vec<f64> = p
                                .split_whitespace()
                                .filter_map(|t| t.parse().ok())
                                .collect();
                            if xs.len() == 2 {
                                Some((xs[0], xs[1]))
                            } else {
                                None
                            }
                        })
                        .collect();
                    out.push(pts);
                }
                cur.clear();
                depth -= 1;
            }
            c => {
                if depth > 0 {
                    cur.push(c);
                }
            }
        }
    }
    out
}

fn decode_wkb(hex: &str) -> Option<geo::Geometry<f64>> {
    let bytes: Option<Vec<u8>> = (0..hex.len() / 2)
        .map(|i| u8::from_str_radix(&hex[2 * i..2 * i + 2], 16).ok())
        .collect();
    let bytes = bytes?;
    let mut cur = std::io::Cursor::new(bytes);
    wkb::wkb_to_geom(&mut cur).ok()
}

fn same_coords(a: &[(f64, f64)], b: &[(f32, f32)]) -> bool {
    a.len() == b.len()
        && a.iter()
            .zip(b.iter())
            .all(|(p, q)| close(p.0, q.0 as f64, 1e-6) && close(p.1, q.1 as f64, 1e-6))
}

pub fn check_net(scratch: &Scratch, net: &Net, ni: usize, tier: Tier, st: &mut Stats) {
    st.states += 1;
    let n = net.n;
    let m = net.m();
    if m == 0 {
        return;
    }
    let spec = {
        let mut s = AppSpec::simple(net.clone());
        // identifier table: row i belongs to vertex i; some tables hold an empty identifier in a middle row
        s.uuids = Some(
            (0..n)
                .map(|i| {
                    if i == 1 && n >= 3 && (ni % 4 == 1 || ni % 4 == 2) {
                        String::new()
                    } else {
                        format!("id-{}-{}", i * 7 + 3, ni)
                    }
                })
                .collect(),
        );
        s
    };
    let geoms: Vec<Vec<(f32, f32)>> = (0..m).map(|e| geometry(&spec, e)).collect();
    let dir = scratch.path.join(format!("n{}", ni));
    let _ = std::fs::create_dir_all(&dir);
    let write_geoms = |path: &std::path::Path, rows: usize| {
        let s: String = (0..rows)
            .map(|e| {
                format!(
                    "LINESTRING ({})\n",
                    geoms[e]
                        .iter()
                        .map(|(x, y)| format!("{} {}", x, y))
                        .collect::<Vec<_>>()
                        .join(", ")
                )
            })
            .collect();
        std::fs::write(path, s).expect("write");
    };
    let gfile = dir.join("geometries.txt");
    write_geoms(&gfile, m);
    let gshort = dir.join("geometries_short.txt");
    write_geoms(&gshort, m - 1);
    // plain for odd nets, gzip for even ones (the readers differ)
    // every third table has rows ending in CR LF (a table written on another system): the identifiers are the rows without it
    let eol = if ni % 3 == 0 { "\r\n" } else { "\n" };
    let utext = spec
        .uuids
        .as_ref()
        .unwrap()
        .iter()
        .map(|u| format!("{}{}", u, eol))
        .collect::<String>();
    let ufile = if ni % 2 == 0 {
        let p = dir.join("uuids.txt.gz");
        let f = std::fs::File::create(&p).expect("create");
        let mut enc = flate2::write::GzEncoder::new(f, flate2::Compression::default());
        std::io::Write::write_all(&mut enc, utext.as_bytes()).expect("write");
        enc.finish().expect("finish");
        p
    } else {
        let p = dir.join("uuids.txt");
        std::fs::write(&p, utext).expect("write");
        p
    };
    let world = World::distance(net.clone());
    let weights: HashMap<String, f64> = [("distance".to_string(), 1.0)].into_iter().collect();
    let rates = [("distance".to_string(), crate::world::sw::Rate::Raw.real())]
        .into_iter()
        .collect::<HashMap<_, _>>();
    let algos = [
        Algo::Dijkstra,
        Algo::SingleVia {
            k: 3,
            under: Box::new(Algo::Dijkstra),
            sim: Some(crate::props::search_common::Sim::EdgeCos(0.99)),
            term: None,
        },
    ];
    for (ai, algo) in algos.iter().enumerate() {
        if ai == 1 && tier == Tier::Quick && ni % 3 != 0 {
            continue;
        }
        let app = world.search_app(
            algo.real(),
            weights.clone(),
            rates.clone(),
            false,
            Arc::new(NoRestriction {}),
        );
        // a query without destination yields trees and no route: with both renderings configured the response still carries
        // one tree entry per branch (plain search only: the k-shortest-paths algorithms need a destination)
        if ai == 0 {
            let tq = json!({"origin_vertex": 0});
            for (fname, fmt) in FORMATS.iter() {
                st.evaluations += 1;
                st.transitions += 1;
                st.traces += 1;
                let result = app.run(&tq, &SearchOrientation::Vertex);
                let trees: Vec<usize> = match &result {
                    Ok((r, _)) if r.routes.is_empty() => r.trees.iter().map(|t| t.len()).collect(),
                    _ => continue,
                };
                let plugin = match TraversalPlugin::from_file(&gfile, Some(*fmt), Some(*fmt)) {
                    Ok(p) => p,
                    Err(_) => continue,
                };
                let plugins: Vec<Arc<dyn OutputPlugin>> =
                    vec![Arc::new(SummaryOutputPlugin {}), Arc::new(plugin)];
                let comp = format!("{}.tree_only_query", fname);
                let case = || json!({"net": net, "format": fname, "query_without_destination": true, "net_index": ni});
                let out = match guarded(|| apply_output_processing(&tq, result, &app, &plugins)) {
                    Ok(o) => o,
                    Err(p) => {
                        st.violation(&comp, "no_panic", net.size(), || p.clone(), case);
                        continue;
                    }
                };
                if out.get("error").is_some() {
                    st.violation(
                        &comp,
                        "renders_without_error",
                        net.size(),
                        || out["error"].to_string(),
                        case,
                    );
                    continue;
                }
                let want: usize = trees.iter().sum();
                let got = match out.get("tree") {
                    None | Some(Value::Null) => None,
                    Some(t) => match *fname {
                        "edge_id" | "json" => t.as_array().map(|a| a.len()),
                        "geo_json" => t["features"].as_array().map(|a| a.len()),
                        "wkt" => t.as_str().map(|s| {
                            if want == 0 {
                                0
                            } else {
                                parse_wkt_coords(s).len()
                            }
                        }),
                        _ => t.as_str().and_then(decode_wkb).map(|g| match g {
                            geo::Geometry::MultiLineString(m) => m.0.len(),
                            _ => usize::MAX,
                        }),
                    },
                };
                if got == Some(want) || (want == 0 && got.is_none()) {
                    st.pass("tree_output_has_one_entry_per_branch");
                } else {
                    st.violation(
                        &comp,
                        "tree_output_has_one_entry_per_branch",
                        net.size(),
                        || {
                            format!(
                                "tree with {} branches rendered with {:?} entries: {}",
                                want,
                                got,
                                out.get("tree").cloned().unwrap_or(Value::Null)
                            )
                        },
                        case,
                    );
                }
            }
        }
        let query = json!({"origin_vertex": 0, "destination_vertex": n - 1});
        for (fname, fmt) in FORMATS.iter() {
            // the route and the tree renderings are configured independently: both together, and (with the short table)
            // each alone, so that an error raised by one rendering cannot hide a silent shortening in the other
            for (short, do_route, do_tree) in [
                (false, true, true),
                (true, true, true),
                (true, true, false),
                (true, false, true),
            ] {
                st.evaluations += 1;
                st.transitions += 1;
                st.traces += 1;
                let result = app.run(&query, &SearchOrientation::Vertex);
                let (routes, trees): (Vec<Vec<usize>>, Vec<usize>) = match &result {
                    Ok((r, _)) => (
                        r.routes
                            .iter()
                            .map(|rt| rt.iter().map(|e| e.edge_id.0).collect())
                            .collect(),
                        r.trees.iter().map(|t| t.len()).collect(),
                    ),
                    Err(_) => continue,
                };
                if routes.iter().any(|r| r.len() >= 2) {
                    st.nontrivial += 1;
                }
                let core_routes: Vec<Vec<(usize, f64, f64, Vec<f64>)>> = match &result {
                    Ok((r, _)) => r
                        .routes
                        .iter()
                        .map(|rt| {
                            rt.iter()
                                .map(|e| {
                                    (
                                        e.edge_id.0,
                                        e.access_cost.as_f64(),
                                        e.traversal_cost.as_f64(),
                                        e.result_state.iter().map(|s| s.0).collect(),
                                    )
                                })
                                .collect()
                        })
                        .collect(),
                    Err(_) => vec![],
                };
                let tree_edges: Vec<Vec<usize>> = match &result {
                    Ok((r, _)) => r
                        .trees
                        .iter()
                        .map(|t| t.values().map(|b| b.edge_traversal.edge_id.0).collect())
                        .collect(),
                    Err(_) => vec![],
                };
                let plugin = match TraversalPlugin::from_file(
                    if short { &gshort } else { &gfile },
                    if do_route { Some(*fmt) } else { None },
                    if do_tree { Some(*fmt) } else { None },
                ) {
                    Ok(p) => p,
                    Err(e) => {
                        if short && m == 1 {
                            continue;
                        }
                        st.violation(
                            "traversal_plugin",
                            "builds",
                            net.size(),
                            || e.to_string(),
                            || json!({"net": net}),
                        );
                        continue;
                    }
                };
                let uuid = match UUIDOutputPlugin::from_file(&ufile) {
                    Ok(p) => p,
                    Err(e) => {
                        st.violation(
                            "uuid_plugin",
                            "builds",
                            net.size(),
                            || e.to_string(),
                            || json!({"net": net}),
                        );
                        continue;
                    }
                };
                let plugins: Vec<Arc<dyn OutputPlugin>> = vec![
                    Arc::new(SummaryOutputPlugin {}),
                    Arc::new(plugin),
                    Arc::new(uuid),
                ];
                let out = match guarded(|| apply_output_processing(&query, result, &app, &plugins))
                {
                    Ok(o) => o,
                    Err(p) => {
                        st.violation(
                            &format!(
                                "{}.{}",
                                fname,
                                if ai == 0 {
                                    "single_route"
                                } else {
                                    "several_routes"
                                }
                            ),
                            "no_panic",
                            net.size(),
                            || p.clone(),
                            || json!({"net": net, "format": fname}),
                        );
                        continue;
                    }
                };
                let comp = format!(
                    "{}.{}{}{}",
                    fname,
                    if ai == 0 {
                        "single_route"
                    } else {
                        "several_routes"
                    },
                    if short {
                        ".geometry_table_one_row_short"
                    } else {
                        ""
                    },
                    match (do_route, do_tree) {
                        (true, false) => ".route_only",
                        (false, true) => ".tree_only",
                        _ => "",
                    }
                );
                let size = net.size();
                let case = || json!({"net": net, "format": fname, "algo": algo, "geometry_table_one_row_short": short, "render_route": do_route, "render_tree": do_tree, "geometries": geoms, "uuids": spec.uuids, "uuid_file_gzip": ni % 2 == 0, "net_index": ni});
                let uses_missing = short
                    && ((do_route && routes.iter().any(|r| r.contains(&(m - 1))))
                        || (do_tree && tree_edges.iter().any(|t| t.contains(&(m - 1)))));
                let needs_geometry = matches!(*fname, "geo_json" | "wkt" | "wkb");
                if out.get("error").is_some() {
                    if uses_missing && needs_geometry {
                        st.pass("missing_geometry_is_error_response");
                    } else if !do_route || routes.iter().all(|r| r.is_empty()) {
                        // an empty route (origin = destination) is turned into an error by the plugin; outside this property
                    } else {
                        st.violation(
                            &comp,
                            "renders_without_error",
                            size,
                            || out["error"].to_string(),
                            case,
                        );
                    }
                    continue;
                }
                if uses_missing && needs_geometry {
                    st.violation(
                        &comp,
                        "missing_geometry_is_error_response",
                        size,
                        || {
                            format!(
                                "rendered {} although edge {} has no stored geometry",
                                out.get("route").cloned().unwrap_or(Value::Null),
                                m - 1
                            )
                        },
                        case,
                    );
                    continue;
                }
                // route(s): a single route is an object, several an array
                let rendered: Vec<Value> = match out.get("route") {
                    Some(Value::Array(a)) if routes.len() > 1 => a.clone(),
                    Some(Value::Null) | None => vec![],
                    Some(x) => vec![x.clone()],
                };
                if !do_route {
                    if !rendered.is_empty() {
                        st.violation(
                            &comp,
                            "no_route_rendering_unless_configured",
                            size,
                            || out["route"].to_string(),
                            case,
                        );
                    }
                } else if rendered.len() != routes.len() {
                    st.violation(
                        &comp,
                        "one_rendering_per_route",
                        size,
                        || format!("{} routes, {} renderings", routes.len(), rendered.len()),
                        case,
                    );
                    continue;
                }
                let mut all_ok = do_route;
                for (ri, (r, ids)) in rendered
                    .iter()
                    .zip(routes.iter())
                    .enumerate()
                    .filter(|_| do_route)
                {
                    let path = &r["path"];
                    let want_geom: Vec<(f32, f32)> =
                        ids.iter().flat_map(|e| geoms[*e].clone()).collect();
                    let ok = match *fname {
                        "edge_id" => path.as_array().map_or(false, |a| {
                            a.iter()
                                .map(|x| x.as_u64().map(|v| v as usize))
                                .collect::<Option<Vec<_>>>()
                                == Some(ids.clone())
                        }),
                        "json" => path.as_array().map_or(false, |a| {
                            a.len() == ids.len()
                                && a.iter().zip(core_routes[ri].iter()).all(
                                    |(x, (e, ac, tc, stv))| {
                                        x["edge_id"].as_u64() == Some(*e as u64)
                                            && x["access_cost"].as_f64() == Some(*ac)
                                            && x["traversal_cost"].as_f64() == Some(*tc)
                                            && x["result_state"].as_array().map_or(false, |s| {
                                                s.iter()
                                                    .map(|v| v.as_f64().unwrap_or(f64::NAN))
                                                    .collect::<Vec<_>>()
                                                    == *stv
                                            })
                                    },
                                )
                        }),
                        "geo_json" => path["features"].as_array().map_or(false, |fs| {
                            fs.len() == ids.len()
                                && fs.iter().zip(core_routes[ri].iter()).all(
                                    |(f, (e, ac, tc, _))| {
                                        let coords: Vec<(f64, f64)> = f["geometry"]["coordinates"]
                                            .as_array()
                                            .map_or(vec![], |c| {
                                                c.iter()
                                                    .map(|p| {
                                                        (
                                                            p[0].as_f64().unwrap_or(f64::NAN),
                                                            p[1].as_f64().unwrap_or(f64::NAN),
                                                        )
                                                    })
                                                    .collect()
                                            });
                                        f["id"].as_u64() == Some(*e as u64)
                                            && f["properties"]["edge_id"].as_u64()
                                                == Some(*e as u64)
                                            && f["properties"]["access_cost"].as_f64() == Some(*ac)
                                            && f["properties"]["traversal_cost"].as_f64()
                                                == Some(*tc)
                                            && f["geometry"]["type"] == json!("LineString")
                                            && same_coords(&coords, &geoms[*e])
                                    },
                                )
                        }),
                        "wkt" => path.as_str().map_or(false, |s| {
                            let ls = parse_wkt_coords(s);
                            s.starts_with("LINESTRING")
                                && ls.len() == 1
                                && same_coords(&ls[0], &want_geom)
                        }),
                        _ => path
                            .as_str()
                            .and_then(decode_wkb)
                            .map_or(false, |g| match g {
                                geo::Geometry::LineString(ls) => same_coords(
                                    &ls.0.iter().map(|c| (c.x, c.y)).collect::<Vec<_>>(),
                                    &want_geom,
                                ),
                                _ => false,
                            }),
                    };
                    if !ok {
                        all_ok = false;
                        st.violation(
                            &comp,
                            "route_rendering_follows_edge_sequence",
                            size,
                            || format!("route #{} edges {:?} rendered as {}", ri, ids, path),
                            case,
                        );
                    }
                    // summary = state after the last edge
                    if let Some((_, _, _, last_state)) = core_routes[ri].last() {
                        let ts = r["traversal_summary"]["distance"].as_f64();
                        if ts == last_state.first().copied() {
                            st.pass("summary_is_last_state");
                        } else {
                            st.violation(
                                &comp,
                                "summary_is_last_state",
                                size,
                                || format!("summary {:?} last state {:?}", ts, last_state),
                                case,
                            );
                        }
                    }
                }
                if all_ok {
                    st.pass("route_rendering_follows_edge_sequence");
                }
                // trees: exactly one entry per branch
                let rendered_trees: Vec<Value> = match out.get("tree") {
                    Some(Value::Array(a))
                        if trees.len() > 1 && *fname != "edge_id" && *fname != "json" =>
                    {
                        a.clone()
                    }
                    Some(Value::Array(a)) if trees.len() > 1 => a.clone(),
                    Some(Value::Null) | None => vec![],
                    Some(x) => vec![x.clone()],
                };
                if !do_tree {
                    if !rendered_trees.is_empty() {
                        st.violation(
                            &comp,
                            "no_tree_rendering_unless_configured",
                            size,
                            || out["tree"].to_string(),
                            case,
                        );
                    }
                } else if rendered_trees.len() == trees.len() {
                    let mut ok = true;
                    for (t, want) in rendered_trees.iter().zip(trees.iter()) {
                        let got = match *fname {
                            "edge_id" | "json" => t.as_array().map(|a| a.len()),
                            "geo_json" => t["features"].as_array().map(|a| a.len()),
                            "wkt" => t.as_str().map(|s| {
                                if *want == 0 {
                                    0
                                } else {
                                    parse_wkt_coords(s).len()
                                }
                            }),
                            _ => t.as_str().and_then(decode_wkb).map(|g| match g {
                                geo::Geometry::MultiLineString(m) => m.0.len(),
                                _ => usize::MAX,
                            }),
                        };
                        if got != Some(*want) {
                            ok = false;
                            st.violation(
                                &comp,
                                "tree_output_has_one_entry_per_branch",
                                size,
                                || {
                                    format!(
                                        "tree with {} branches rendered with {:?} entries",
                                        want, got
                                    )
                                },
                                case,
                            );
                        }
                    }
                    if ok {
                        st.pass("tree_output_has_one_entry_per_branch");
                    }
                } else {
                    st.violation(
                        &comp,
                        "one_rendering_per_tree",
                        size,
                        || format!("{} trees, {} renderings", trees.len(), rendered_trees.len()),
                        case,
                    );
                }
                // identifiers and counters
                let uu = spec.uuids.as_ref().unwrap();
                if out["origin_vertex_uuid"] == json!(uu[0])
                    && out["destination_vertex_uuid"] == json!(uu[n - 1])
                {
                    st.pass("uuids_are_those_of_matched_vertices");
                } else {
                    st.violation(
                        &comp,
                        "uuids_are_those_of_matched_vertices",
                        size,
                        || {
                            format!(
                                "{} / {}",
                                out["origin_vertex_uuid"], out["destination_vertex_uuid"]
                            )
                        },
                        case,
                    );
                }
                if !(do_route && do_tree) {
                    // the summary plugin is judged with both renderings present
                } else if out["route_edges"].as_u64()
                    == Some(routes.iter().map(|r| r.len()).sum::<usize>() as u64)
                    && out["tree_size_count"].as_u64() == Some(trees.iter().sum::<usize>() as u64)
                {
                    st.pass("summary_counters");
                } else {
                    st.violation(
                        &comp,
                        "summary_counters",
                        size,
                        || {
                            format!(
                                "route_edges {} tree_size_count {}",
                                out["route_edges"], out["tree_size_count"]
                            )
                        },
                        case,
                    );
                }
                if ni == 11 && !short {
                    st.sample(5, || json!({"net": net, "format": fname, "rendered_route": out.get("route").and_then(|r| r.get("path")).cloned().unwrap_or(Value::Null)}));
                }
            }
            // two traversal plugins in one configuration, each rendering one of the two outputs: together they leave what one
            // plugin configured with both leaves (a later plugin keeps what an earlier one rendered)
            {
                st.evaluations += 1;
                st.transitions += 3;
                st.traces += 1;
                let mk = |r: bool, t: bool| {
                    TraversalPlugin::from_file(
                        &gfile,
                        if r { Some(*fmt) } else { None },
                        if t { Some(*fmt) } else { None },
                    )
                    .ok()
                    .map(|p| Arc::new(p) as Arc<dyn OutputPlugin>)
                };
                let render = |chain: Vec<Arc<dyn OutputPlugin>>| {
                    let result = app.run(&query, &SearchOrientation::Vertex);
                    guarded(|| apply_output_processing(&query, result, &app, &chain))
                };
                let paths = |o: &Value| -> (Value, Value) {
                    let route = match o.get("route") {
                        Some(Value::Array(a)) => Value::Array(
                            a.iter()
                                .map(|r| r.get("path").cloned().unwrap_or(Value::Null))
                                .collect(),
                        ),
                        Some(r) => r.get("path").cloned().unwrap_or(Value::Null),
                        None => Value::Null,
                    };
                    // a tree is rendered in the hash order of that search: two renderings hold the same branches in another order, so
                    // it is compared by kind and rendered size
                    let tree = o.get("tree").cloned().unwrap_or(Value::Null);
                    let tree_shape = json!({"null": tree.is_null(), "string": tree.is_string(), "size": tree.to_string().len()});
                    (route, tree_shape)
                };
                if let (Some(both), Some(r1), Some(t1)) =
                    (mk(true, true), mk(true, false), mk(false, true))
                {
                    let summary: Arc<dyn OutputPlugin> = Arc::new(SummaryOutputPlugin {});
                    let one = render(vec![summary.clone(), both]);
                    for (name, chain) in [
                        (
                            "route_then_tree",
                            vec![summary.clone(), r1.clone(), t1.clone()],
                        ),
                        (
                            "tree_then_route",
                            vec![summary.clone(), t1.clone(), r1.clone()],
                        ),
                    ] {
                        let comp = format!("{}.two_traversal_plugins.{}", fname, name);
                        let case = || json!({"net": net, "format": fname, "algo": algo, "two_traversal_plugins": name, "net_index": ni});
                        match (&one, &render(chain)) {
                            (Ok(a), Ok(b)) if a.get("error").is_none() => {
                                if b.get("error").is_none() && paths(a) == paths(b) {
                                    st.pass("later_plugin_keeps_what_an_earlier_one_rendered");
                                } else {
                                    st.violation(&comp, "later_plugin_keeps_what_an_earlier_one_rendered", net.size(), || format!("one plugin with both outputs leaves route {} tree {} ; the two plugins leave {}", paths(a).0, paths(a).1, serde_json::to_string(&json!({"route": b.get("route"), "tree": b.get("tree"), "error": b.get("error")})).unwrap_or_default()), case);
                                }
                            }
                            (Ok(_), Ok(_)) => {}
                            (_, Err(p)) => {
                                st.violation(&comp, "no_panic", net.size(), || p.clone(), case)
                            }
                            (Err(p), _) => {
                                st.violation(&comp, "no_panic", net.size(), || p.clone(), case)
                            }
                        }
                    }
                }
            }
            // a plugin lives as long as the application and renders one response after another: the same route asked for
            // three times, the second time under another weight (same edges, other costs), each rendering judged against the
            // search result it was given
            {
                let heavy = json!({"origin_vertex": 0, "destination_vertex": n - 1, "weights": {"distance": 3.0}});
                // (quick tier: every other network)
                if tier == Tier::Quick && ni % 2 == 1 {
                    continue;
                }
                if let Ok(plugin) = TraversalPlugin::from_file(&gfile, Some(*fmt), Some(*fmt)) {
                    let chain: Vec<Arc<dyn OutputPlugin>> =
                        vec![Arc::new(SummaryOutputPlugin {}), Arc::new(plugin)];
                    for (qi, q) in [&query, &heavy, &query].into_iter().enumerate() {
                        st.evaluations += 1;
                        st.transitions += 1;
                        st.traces += 1;
                        let result = app.run(q, &SearchOrientation::Vertex);
                        let core: Vec<Vec<(usize, f64, f64)>> = match &result {
                            Ok((r, _)) => r
                                .routes
                                .iter()
                                .map(|rt| {
                                    rt.iter()
                                        .map(|e| {
                                            (
                                                e.edge_id.0,
                                                e.access_cost.as_f64(),
                                                e.traversal_cost.as_f64(),
                                            )
                                        })
                                        .collect()
                                })
                                .collect(),
                            Err(_) => break,
                        };
                        if core.iter().all(|r| r.is_empty()) {
                            break;
                        }
                        let comp = format!(
                            "{}.{}.plugin_that_rendered_before",
                            fname,
                            if ai == 0 {
                                "single_route"
                            } else {
                                "several_routes"
                            }
                        );
                        let case = || json!({"net": net, "format": fname, "algo": algo, "plugin_reused": true, "rendering_number": qi, "query": q, "net_index": ni});
                        let out = match guarded(|| apply_output_processing(q, result, &app, &chain))
                        {
                            Ok(o) => o,
                            Err(p) => {
                                st.violation(&comp, "no_panic", net.size(), || p.clone(), case);
                                break;
                            }
                        };
                        if out.get("error").is_some() {
                            st.violation(
                                &comp,
                                "renders_without_error",
                                net.size(),
                                || out["error"].to_string(),
                                case,
                            );
                            break;
                        }
                        let rendered: Vec<Value> = match out.get("route") {
                            Some(Value::Array(a)) if core.len() > 1 => a.clone(),
                            Some(Value::Null) | None => vec![],
                            Some(x) => vec![x.clone()],
                        };
                        let ok = rendered.len() == core.len()
                            && rendered.iter().zip(core.iter()).all(|(r, c)| {
                                let path = &r["path"];
                                match *fname {
                                    "edge_id" => path.as_array().map_or(false, |a| {
                                        a.len() == c.len()
                                            && a.iter()
                                                .zip(c.iter())
                                                .all(|(x, (e, _, _))| x.as_u64() == Some(*e as u64))
                                    }),
                                    "json" => path.as_array().map_or(false, |a| {
                                        a.len() == c.len()
                                            && a.iter().zip(c.iter()).all(|(x, (e, ac, tc))| {
                                                x["edge_id"].as_u64() == Some(*e as u64)
                                                    && x["access_cost"].as_f64() == Some(*ac)
                                                    && x["traversal_cost"].as_f64() == Some(*tc)
                                            })
                                    }),
                                    "geo_json" => path["features"].as_array().map_or(false, |a| {
                                        a.len() == c.len()
                                            && a.iter().zip(c.iter()).all(|(f, (e, ac, tc))| {
                                                f["id"].as_u64() == Some(*e as u64)
                                                    && f["properties"]["access_cost"].as_f64()
                                                        == Some(*ac)
                                                    && f["properties"]["traversal_cost"].as_f64()
                                                        == Some(*tc)
                                            })
                                    }),
                                    // the geometry formats carry no records; their geometry is judged above
                                    _ => path.is_string(),
                                }
                            });
                        if ok {
                            st.pass("rendering_follows_the_search_result_it_was_given");
                        } else {
                            st.violation(&comp, "rendering_follows_the_search_result_it_was_given", net.size(), || format!("rendering number {} of one plugin: search result {:?}, rendered {}", qi, core, out.get("route").cloned().unwrap_or(Value::Null)), case);
                        }
                    }
                }
            }
        }
    }
    let _ = std::fs::remove_dir_all(&dir);
}

/// the same through the whole application (configuration, files, plugins built by the builders)
fn app_level(scratch: &Scratch, st: &mut Stats) {
    let net = crate::props::c12::base_net();
    for (fname, _) in FORMATS.iter() {
        st.evaluations += 1;
        st.transitions += 1;
        st.states += 1;
        let mut spec = AppSpec::simple(net.clone());
        spec.output_plugins = vec![
            json!({"type": "summary"}),
            json!({"type": "traversal", "route": fname, "tree": "edge_id", "geometry_input_file": "$DIR/geometries.txt"}),
            json!({"type": "uuid", "uuid_input_file": "$DIR/uuids.txt"}),
        ];
        let dir = scratch.path.join(format!("app_{}", fname));
        let case = || json!({"app_level": true, "format": fname});
        match spec.build(&dir) {
            Err(e) => st.violation("harness", "app_build", 0, || e.clone(), case),
            Ok(app) => match guarded(|| {
                app.run(
                    vec![json!({"origin_vertex": 0, "destination_vertex": 4})],
                    None,
                )
            }) {
                Ok(Ok(r)) if r.len() == 1 && r[0].get("error").is_none() => {
                    let path = &r[0]["route"]["path"];
                    let want: Vec<(f32, f32)> = [0usize, 1, 4]
                        .iter()
                        .flat_map(|e| spec.geometry(*e))
                        .collect();
                    let ok = match *fname {
                        "edge_id" => *path == json!([0, 1, 4]),
                        "json" => path.as_array().map_or(false, |a| {
                            a.iter()
                                .map(|x| x["edge_id"].as_u64().unwrap_or(99))
                                .collect::<Vec<_>>()
                                == vec![0, 1, 4]
                        }),
                        "geo_json" => path["features"].as_array().map_or(false, |a| {
                            a.iter()
                                .map(|x| x["id"].as_u64().unwrap_or(99))
                                .collect::<Vec<_>>()
                                == vec![0, 1, 4]
                        }),
                        "wkt" => path.as_str().map_or(false, |s| {
                            parse_wkt_coords(s)
                                .first()
                                .map_or(false, |c| same_coords(c, &want))
                        }),
                        _ => path
                            .as_str()
                            .and_then(decode_wkb)
                            .map_or(false, |g| match g {
                                geo::Geometry::LineString(ls) => same_coords(
                                    &ls.0.iter().map(|c| (c.x, c.y)).collect::<Vec<_>>(),
                                    &want,
                                ),
                                _ => false,
                            }),
                    };
                    if ok
                        && r[0]["origin_vertex_uuid"] == json!("uuid-0")
                        && r[0]["destination_vertex_uuid"] == json!("uuid-4")
                        && r[0]["route"]["traversal_summary"]["distance"].as_f64() == Some(19000.0)
                    {
                        st.pass("application_renders_route");
                    } else {
                        st.violation(
                            &format!("app.{}", fname),
                            "route_rendering_follows_edge_sequence",
                            0,
                            || r[0].to_string(),
                            case,
                        );
                    }
                }
                other => st.violation(
                    &format!("app.{}", fname),
                    "renders_without_error",
                    0,
                    || format!("{:?}", other),
                    case,
                ),
            },
        }
    }
}

pub fn run(tier: Tier) -> i32 {
    let info = RunInfo::new("C20", tier);
    let scratch = Scratch::new("c20");
    let specs = vec![
        GenSpec {
            n: 3,
            max_edges: tier.pick(4, 5),
            max_mult: 2,
            n_len: 1,
            self_loops: false,
            mode: LenMode::PowersOfTwo,
        },
        GenSpec {
            n: 4,
            max_edges: tier.pick(5, 6),
            max_mult: 1,
            n_len: 1,
            self_loops: false,
            mode: LenMode::PowersOfTwo,
        },
    ];
    let mut nets = vec![];
    for s in specs.iter() {
        for (p, t) in shards(s, 2) {
            for_each_in_shard(s, &p, t, &mut |n| nets.push(n.clone()));
        }
    }
    // only nets with a route; quick: every third
    let nets: Vec<Net> = nets
        .into_iter()
        .filter(|n| crate::refmodel::graph::reachable(n, 0, true, &|_| true)[n.n - 1])
        .enumerate()
        .filter(|(i, _)| tier == Tier::Thorough || i % 3 == 0)
        .map(|(_, n)| n)
        .collect();
    let nn = nets.len() as u64;
    let mut st = crate::engine::par_blocks(nn, 8, |lo, hi, st| {
        for i in lo..hi {
            check_net(&scratch, &nets[i as usize], i as usize, tier, st);
        }
    });
    // long routes: chains of 1023 / 1024 / 1100 edges with a side branch (renderers that handle long inputs in pieces or in
    // parallel must still keep the route's order); rendered from this thread, so that the renderers see the default worker pool
    let long: Vec<Net> = [1023usize, 1024, 1100]
        .iter()
        .map(|l| {
            let mut edges: Vec<(usize, usize, f64)> =
                (0..*l).map(|i| (i, i + 1, 1.0 + (i % 7) as f64)).collect();
            // a branch off the middle that rejoins further on (a second, dearer way) and a dead end
            edges.push((l / 2, l / 2 + 2, 40.0));
            edges.push((l / 3, l + 1, 1.0));
            Net {
                n: l + 2,
                edges,
                xy: None,
            }
        })
        .collect();
    for (i, net) in long.iter().enumerate() {
        // the destination of check_net is the last vertex: the dead end; make the chain's end the last vertex instead
        let l = net.n - 2;
        let mut net = net.clone();
        for e in net.edges.iter_mut() {
            let sw = |v: usize| {
                if v == l {
                    l + 1
                } else if v == l + 1 {
                    l
                } else {
                    v
                }
            };
            *e = (sw(e.0), sw(e.1), e.2);
        }
        // (the index decides the table variants; single-via alternatives only on the first chain in the quick tier)
        check_net(&scratch, &net, 3 * (100_000 + i) + i.min(1), tier, &mut st);
    }
    st.notes
        .insert("long routes: chains of 1023, 1024 and 1100 edges rendered in every format".into());
    app_level(&scratch, &mut st);
    let desc: Vec<String> = specs.iter().map(|s| s.describe()).collect();
    finish(
        &info,
        st,
        "state = one labelled multigraph with a route (plus its search trees) and a geometry table of 2-4-point linestrings per edge; transition = one rendering through the real traversal / summary / uuid output plugins in one of the 5 formats, with the full geometry table and with a table one row short; single routes (Dijkstra) and several routes (single-via KSP); oracle = returned edge sequence and stored geometries; non-trivial = route of >= 2 edges",
        true,
        json!({"graph_families": desc, "nets_with_route": nn, "formats": 5}),
        vec!["WKT is parsed by a small parser in the harness, WKB is decoded with the wkb crate; coordinates compared at 1e-6".into()],
    )
}

pub fn replay(case: &Value) -> i32 {
    // the recorded network is rendered again in every format, with every table variant (its index decides the identifier
    // table variant, so it is part of the case); application-level cases re-run the application pass
    let c = if case.get("case").is_some() {
        &case["case"]
    } else {
        case
    };
    let scratch = Scratch::new("c20r");
    let mut st = Stats::new();
    if c.get("app_level").is_some() {
        app_level(&scratch, &mut st);
    } else {
        let net: Net = match serde_json::from_value(c["net"].clone()) {
            Ok(n) => n,
            Err(e) => {
                println!("MACHINERY-ERROR cannot parse net: {}", e);
                return 2;
            }
        };
        let ni = c["net_index"].as_u64().unwrap_or(0) as usize;
        check_net(&scratch, &net, ni, Tier::Thorough, &mut st);
    }
    for (k, g) in st.violations.iter() {
        println!(
            "REPLAY-VIOLATION {} ({} cases) {}",
            k,
            g.count,
            g.detail.chars().take(500).collect::<String>()
        );
    }
    println!(
        "replay: {} violated clauses over {} renderings",
        st.violations.len(),
        st.evaluations
    );
    if st.violations.is_empty() {
        0
    } else {
        1
    }
}
