//! C19 — the output file holds one intact record per response under any parallelism.
//! (a) E3: every schedule of K batch tasks writing through one shared ResponseSink; (b) E2: histories of runs
//! appending to the same file.
use crate::engine::sched::{explore, Ev, Execution, Explorer, Task};
use crate::engine::{finish, guarded, RunInfo, Stats, Tier};
use crate::props::c12::{base_net, project, tagq};
use crate::world::app::{AppSpec, Scratch};
use kdam::Bar;
use routee_compass::app::compass::compass_app::{
    run_batch_with_responses, run_batch_without_responses, CompassApp,
};
use routee_compass::app::compass::response::response_output_policy::ResponseOutputPolicy;
use routee_compass::app::compass::response::response_sink::ResponseSink;
use routee_compass_core::util::verif_sync::Mutex as VMutex;
use serde_json::{json, Value};
use std::collections::BTreeMap;
use std::sync::Arc;

#[derive(Clone, Debug)]
pub struct Scenario {
    pub name: String,
    /// per task: its batch of queries
    pub batches: Vec<Vec<Value>>,
    pub csv: bool,
    pub flush_rate: i64,
    pub keep_responses: bool,
    /// build a fresh application for every execution (state inside the application, e.g. a prediction cache, starts cold each time)
    #[allow(dead_code)]
    pub fresh_app: bool,
    /// one Combined sink of two files (JSON lines first, CSV second); `csv` is ignored
    pub combined: bool,
}

pub fn query_alphabet() -> Vec<Value> {
    vec![
        json!({"origin_vertex": 0, "destination_vertex": 4}),
        json!({"origin_vertex": 2, "destination_vertex": 3, "padding": "x".repeat(300)}),
        json!({"origin_vertex": 4, "destination_vertex": 0}), // unreachable: error response
        json!({"origin_vertex": 1, "destination_vertex": 4, "padding": [1, 2, 3, {"deep": "y".repeat(40)}]}),
        json!({"origin_vertex": 0, "destination_vertex": 99}), // out of range: error response
        json!({"origin_vertex": 0, "destination_vertex": 3}),
    ]
}

pub fn csv_format() -> Value {
    json!({"type": "csv", "sorted": false, "mapping": {
        "qid": "request.qid",
        "o": "request.origin_vertex",
        "dist": {"optional": "route.traversal_summary.distance"},
        "n": {"sum": [{"optional": "route_edges"}, {"optional": "iterations"}]},
        "err": {"optional": "error"}
    }})
}

/// reference evaluation of the CSV mapping above (own code, not the repository's)
fn ref_cell(m: &Value, r: &Value) -> Result<Value, String> {
    match m {
        Value::String(p) => {
            let mut cur = r;
            for part in p.split('.') {
                cur = cur.get(part).ok_or_else(|| format!("missing {}", p))?;
            }
            Ok(cur.clone())
        }
        Value::Object(o) if o.contains_key("optional") => {
            Ok(ref_cell(&o["optional"], r).unwrap_or(Value::Null))
        }
        Value::Object(o) if o.contains_key("sum") => {
            let mut s = 0.0;
            for x in o["sum"].as_array().unwrap() {
                match ref_cell(x, r)? {
                    Value::Null => {}
                    Value::Number(n) => s += n.as_f64().unwrap_or(0.0),
                    other => return Err(format!("not a number {}", other)),
                }
            }
            Ok(json!(s))
        }
        _ => Err("bad mapping".into()),
    }
}
/// column order of the header: byte-order sorted keys when `sorted`, otherwise the reverse of the mapping's key order
pub fn ref_header_keys(format: &Value) -> Vec<String> {
    let mapping = format["mapping"].as_object().unwrap();
    if format["sorted"] == json!(true) {
        let mut k: Vec<String> = mapping.keys().cloned().collect();
        k.sort();
        k
    } else {
        mapping.keys().rev().cloned().collect()
    }
}
pub fn ref_csv_row(format: &Value, r: &Value) -> String {
    let mapping = format["mapping"].as_object().unwrap();
    ref_header_keys(format)
        .iter()
        .map(|k| {
            ref_cell(&mapping[k], r)
                .map(|c| c.to_string())
                .unwrap_or_default()
        })
        .collect::<Vec<_>>()
        .join(",")
}
pub fn ref_csv_header(format: &Value) -> String {
    ref_header_keys(format).join(",")
}

pub struct Fixture {
    pub app: Arc<CompassApp>,
    pub scratch: Scratch,
    pub spec: AppSpec,
}

pub fn fixture() -> Result<Fixture, String> {
    fixture_spec(&AppSpec::simple(base_net()))
}

pub fn fixture_spec(spec: &AppSpec) -> Result<Fixture, String> {
    let scratch = Scratch::new("c19");
    let app = spec.build(&scratch.path.join("app"))?;
    Ok(Fixture {
        app: Arc::new(app),
        scratch,
        spec: spec.clone(),
    })
}

pub fn policy(path: &str, csv: bool, flush: i64) -> Result<ResponseOutputPolicy, String> {
    let format = if csv {
        csv_format()
    } else {
        json!({"type": "json", "newline_delimited": true})
    };
    serde_json::from_value(
        json!({"type": "file", "filename": path, "format": format, "file_flush_rate": flush}),
    )
    .map_err(|e| e.to_string())
}

/// what each query returns when run alone (projected), keyed by qid
pub fn alone(app: &CompassApp, batches: &[Vec<Value>]) -> BTreeMap<String, Value> {
    let mut m = BTreeMap::new();
    for b in batches {
        for q in b {
            if let Ok(Ok(r)) = guarded(|| app.run(vec![q.clone()], None)) {
                if let Some(x) = r.first() {
                    m.insert(q["qid"].as_str().unwrap_or("").to_string(), project(x));
                }
            }
        }
    }
    m
}

pub struct Outcome {
    pub exec: Execution,
    pub file: String,
    /// second file of a combined sink
    pub file2: String,
}

/// one execution of a scenario under a choice prefix
pub fn run_scenario(
    ex: &Explorer,
    fx: &Fixture,
    sc: &Scenario,
    prefix: &[usize],
    expect: Option<&[String]>,
    shared_cache_labels: bool,
) -> Result<Outcome, String> {
    let _ = shared_cache_labels;
    let path = fx.scratch.path.join(format!("out_{}.txt", sc.name));
    let _ = std::fs::remove_file(&path);
    let path2 = fx.scratch.path.join(format!("out2_{}.txt", sc.name));
    let _ = std::fs::remove_file(&path2);
    let pol = if sc.combined {
        let a = serde_json::to_value(policy(path.to_str().unwrap(), false, sc.flush_rate)?)
            .map_err(|e| e.to_string())?;
        let b = serde_json::to_value(policy(path2.to_str().unwrap(), true, sc.flush_rate)?)
            .map_err(|e| e.to_string())?;
        serde_json::from_value(json!({"type": "combined", "policies": [a, b]}))
            .map_err(|e| e.to_string())?
    } else {
        policy(path.to_str().unwrap(), sc.csv, sc.flush_rate)?
    };
    let sink = Arc::new(pol.build().map_err(|e| e.to_string())?);
    let n_total: usize = sc.batches.iter().map(|b| b.len()).sum();
    let bar = Bar::builder()
        .total(n_total)
        .disable(true)
        .build()
        .map_err(|e| e.to_string())?;
    let pb = Arc::new(VMutex::new(bar));
    // names of the shared primitives for labels: (file lock, counter lock, file) per file sink
    fn sink_ids(s: &ResponseSink, out: &mut Vec<(usize, usize, usize)>) -> Result<(), String> {
        match s {
            ResponseSink::File {
                file, iterations, ..
            } => {
                let fid = {
                    let g = file.lock().map_err(|_| "poisoned")?;
                    (&*g) as *const _ as *const u8 as usize
                };
                out.push((
                    Arc::as_ptr(file) as *const u8 as usize,
                    Arc::as_ptr(iterations) as *const u8 as usize,
                    fid,
                ));
            }
            ResponseSink::Combined(v) => {
                for x in v.iter() {
                    sink_ids(x, out)?;
                }
            }
            ResponseSink::None => {}
        }
        Ok(())
    }
    let mut ids: Vec<(usize, usize, usize)> = vec![];
    sink_ids(sink.as_ref(), &mut ids)?;
    let pb_lock = Arc::as_ptr(&pb) as *const u8 as usize;
    let label = move |e: &Ev| -> String {
        let name = |id: usize| {
            for (i, (fl, cl, f)) in ids.iter().enumerate() {
                let sfx = if i == 0 {
                    String::new()
                } else {
                    format!("#{}", i)
                };
                if id == *fl {
                    return format!("file_lock{}", sfx);
                } else if id == *cl {
                    return format!("counter_lock{}", sfx);
                } else if id == *f {
                    return format!("file{}", sfx);
                }
            }
            if id == pb_lock {
                "progress_lock".to_string()
            } else {
                "other".to_string()
            }
        };
        match e {
            Ev::Start => "start".into(),
            Ev::Lock(id) => format!("lock({})", name(*id)),
            Ev::Write(id) => format!("write({})", name(*id)),
            Ev::Flush(id) => format!("flush({})", name(*id)),
        }
    };
    let mut tasks: Vec<Task> = vec![];
    let the_app = if sc.fresh_app {
        Arc::new(fx.spec.build(&fx.scratch.path.join("fresh_app"))?)
    } else {
        fx.app.clone()
    };
    for b in sc.batches.iter() {
        let app = the_app.clone();
        let sink = sink.clone();
        let pb = pb.clone();
        let queries = b.clone();
        let keep = sc.keep_responses;
        tasks.push(Box::new(move || {
            let batch: Vec<&Value> = queries.iter().collect();
            let batches = vec![batch];
            let r = if keep {
                run_batch_with_responses(
                    &batches,
                    &app.search_orientation,
                    &app.output_plugins,
                    &app.search_app,
                    &sink,
                    pb,
                )
            } else {
                run_batch_without_responses(
                    &batches,
                    &app.search_orientation,
                    &app.output_plugins,
                    &app.search_app,
                    &sink,
                    pb,
                )
            };
            match r {
                Ok(it) => Value::Array(it.collect()),
                Err(e) => json!({"run_error": e.to_string()}),
            }
        }));
    }
    let exec = ex.run_once(prefix, expect, tasks, &label);
    let file = std::fs::read_to_string(&path).unwrap_or_default();
    let file2 = std::fs::read_to_string(&path2).unwrap_or_default();
    Ok(Outcome { exec, file, file2 })
}

/// judges one execution; returns failed clauses and the order in which the qids appear in the file
pub fn judge(
    sc: &Scenario,
    alone: &BTreeMap<String, Value>,
    out: &Outcome,
) -> (Vec<(&'static str, String)>, String) {
    let mut bad: Vec<(&'static str, String)> = vec![];
    if let Some(d) = &out.exec.deadlock {
        bad.push(("no_deadlock", d.clone()));
        return (bad, String::new());
    }
    // what the tasks returned
    let mut returned: Vec<Value> = vec![];
    for (ti, r) in out.exec.results.iter().enumerate() {
        match r {
            Some(Value::Array(a)) => {
                if sc.keep_responses {
                    // C06: each task's vector equals the alone-responses of its batch, in order
                    let want: Vec<Value> = sc.batches[ti]
                        .iter()
                        .map(|q| {
                            alone
                                .get(q["qid"].as_str().unwrap_or(""))
                                .cloned()
                                .unwrap_or(Value::Null)
                        })
                        .collect();
                    let got: Vec<Value> = a.iter().map(project).collect();
                    // sums over hash-ordered maps may differ in the last bit: compare at 12 significant digits
                    if got
                        .iter()
                        .map(crate::engine::canon_json)
                        .collect::<Vec<_>>()
                        != want
                            .iter()
                            .map(crate::engine::canon_json)
                            .collect::<Vec<_>>()
                    {
                        bad.push((
                            "task_returns_alone_responses_in_order",
                            format!("task {} returned {:?} want {:?}", ti, got, want),
                        ));
                    }
                    returned.extend(a.iter().cloned());
                } else if !a.is_empty() {
                    bad.push((
                        "discard_policy_returns_nothing",
                        format!("task {} returned {} responses", ti, a.len()),
                    ));
                }
            }
            other => bad.push(("task_completes", format!("task {}: {:?}", ti, other))),
        }
    }
    if sc.combined {
        let o1 = judge_file(sc, false, alone, &out.file, &returned, &mut bad);
        let o2 = judge_file(sc, true, alone, &out.file2, &returned, &mut bad);
        (bad, format!("{}|{}", o1, o2))
    } else {
        let o = judge_file(sc, sc.csv, alone, &out.file, &returned, &mut bad);
        (bad, o)
    }
}

/// the file oracle for one output file in JSON-lines or CSV form; returns the order of qids in the file
fn judge_file(
    sc: &Scenario,
    csv: bool,
    alone: &BTreeMap<String, Value>,
    file: &str,
    returned: &[Value],
    bad: &mut Vec<(&'static str, String)>,
) -> String {
    let n_expected: usize = sc.batches.iter().map(|b| b.len()).sum();
    let lines: Vec<&str> = file.split('\n').collect();
    // a complete file ends with a newline: the last split element is empty
    if lines.last().map_or(false, |l| !l.is_empty()) {
        bad.push((
            "last_record_is_terminated",
            format!("file ends with {:?}", lines.last()),
        ));
    }
    let lines: Vec<&str> = lines.into_iter().filter(|l| !l.is_empty()).collect();
    let mut order = vec![];
    if csv {
        let fmt = csv_format();
        if lines.first().copied() != Some(ref_csv_header(&fmt).as_str()) {
            bad.push((
                "single_header_first",
                format!("first line {:?}", lines.first()),
            ));
        }
        let rows = &lines[1.min(lines.len())..];
        if rows.len() != n_expected {
            bad.push((
                "one_record_per_response",
                format!("{} rows for {} responses", rows.len(), n_expected),
            ));
        }
        // expected rows: from the responses returned (keep) or from the alone responses re-rendered (discard: compare on qid column and shape)
        let mut want: Vec<String> = if sc.keep_responses {
            returned.iter().map(|r| ref_csv_row(&fmt, r)).collect()
        } else {
            vec![]
        };
        let mut got: Vec<String> = rows.iter().map(|s| s.to_string()).collect();
        for r in rows {
            order.push(
                r.rsplit(',')
                    .next()
                    .unwrap_or("")
                    .trim_matches('"')
                    .to_string(),
            );
        }
        if sc.keep_responses {
            want.sort();
            got.sort();
            if want != got {
                bad.push((
                    "rows_follow_mapping_in_header_order",
                    format!("rows {:?} want {:?}", got, want),
                ));
            }
        } else {
            let mut ids: Vec<String> = order.clone();
            ids.sort();
            let mut wids: Vec<String> = sc
                .batches
                .iter()
                .flatten()
                .map(|q| q["qid"].as_str().unwrap_or("").to_string())
                .collect();
            wids.sort();
            if ids != wids {
                bad.push((
                    "one_record_per_response",
                    format!("qids in file {:?} want {:?}", ids, wids),
                ));
            }
            let ncols = ref_csv_header(&fmt).split(',').count();
            // error texts may contain commas inside the quoted string; count columns on rows without an error only
            for r in rows {
                if r.contains(",null,") && r.split(',').count() != ncols {
                    bad.push((
                        "rows_follow_mapping_in_header_order",
                        format!(
                            "row {:?} has {} columns, header has {}",
                            r,
                            r.split(',').count(),
                            ncols
                        ),
                    ));
                }
            }
        }
    } else {
        if lines.len() != n_expected {
            bad.push((
                "one_record_per_response",
                format!(
                    "{} lines for {} responses: {:?}",
                    lines.len(),
                    n_expected,
                    lines
                        .iter()
                        .map(|l| l.chars().take(60).collect::<String>())
                        .collect::<Vec<_>>()
                ),
            ));
        }
        let mut parsed: Vec<Value> = vec![];
        for l in lines.iter() {
            match serde_json::from_str::<Value>(l) {
                Ok(v) => {
                    order.push(v["request"]["qid"].as_str().unwrap_or("?").to_string());
                    parsed.push(v);
                }
                Err(e) => bad.push((
                    "every_record_parses",
                    format!("{}: {:?}", e, l.chars().take(120).collect::<String>()),
                )),
            }
        }
        let canon = |v: &Vec<Value>| {
            let mut s: Vec<String> = v.iter().map(crate::engine::canon_json).collect();
            s.sort();
            s
        };
        if sc.keep_responses {
            if canon(&parsed) != canon(&returned.to_vec()) {
                bad.push((
                    "records_are_the_responses_produced",
                    format!(
                        "file {:?} returned {:?}",
                        canon(&parsed.iter().map(project).collect()),
                        canon(&returned.iter().map(project).collect::<Vec<_>>())
                    ),
                ));
            }
        } else {
            let want: Vec<Value> = sc
                .batches
                .iter()
                .flatten()
                .map(|q| {
                    alone
                        .get(q["qid"].as_str().unwrap_or(""))
                        .cloned()
                        .unwrap_or(Value::Null)
                })
                .collect();
            if canon(&parsed.iter().map(project).collect()) != canon(&want) {
                bad.push((
                    "records_are_the_responses_produced",
                    format!(
                        "file {:?} want {:?}",
                        canon(&parsed.iter().map(project).collect()),
                        canon(&want)
                    ),
                ));
            }
        }
    }
    order.join(">")
}

pub fn scenarios(tier: Tier) -> Vec<(Scenario, Option<usize>)> {
    let qa = query_alphabet();
    let q = |i: usize, id: &str| tagq(&qa[i], id);
    let mut v = vec![];
    // two tasks x two queries: explored completely (no preemption bound)
    for (csv, flush, keep) in [
        (false, 1, true),
        (true, 2, true),
        (false, 2, false),
        (true, 1, false),
    ] {
        v.push((
            Scenario {
                name: format!(
                    "2x2_{}_{}_{}",
                    if csv { "csv" } else { "jsonl" },
                    flush,
                    if keep { "keep" } else { "discard" }
                ),
                batches: vec![vec![q(0, "a0"), q(2, "a1")], vec![q(1, "b0"), q(4, "b1")]],
                csv,
                flush_rate: flush,
                keep_responses: keep,
                fresh_app: false,
                combined: false,
            },
            None,
        ));
    }
    // one Combined sink writing a JSON-lines file and a CSV file: each response takes both pairs of locks one after the other
    v.push((
        Scenario {
            name: "2x2_combined_1_keep".into(),
            batches: vec![vec![q(0, "a0"), q(2, "a1")], vec![q(1, "b0"), q(4, "b1")]],
            csv: false,
            flush_rate: 1,
            keep_responses: true,
            fresh_app: false,
            combined: true,
        },
        Some(tier.pick(3, 5)),
    ));
    v.push((
        Scenario {
            name: "2x1_combined_2_discard".into(),
            batches: vec![vec![q(0, "a0")], vec![q(1, "b0")]],
            csv: false,
            flush_rate: 2,
            keep_responses: false,
            fresh_app: false,
            combined: true,
        },
        None,
    ));
    // three tasks: preemption bounded
    let b3 = tier.pick(2, 3);
    v.push((
        Scenario {
            name: "3x1_jsonl".into(),
            batches: vec![vec![q(0, "a0")], vec![q(1, "b0")], vec![q(2, "c0")]],
            csv: false,
            flush_rate: 1,
            keep_responses: true,
            fresh_app: false,
            combined: false,
        },
        Some(tier.pick(4, 6)),
    ));
    v.push((
        Scenario {
            name: "3x2_csv".into(),
            batches: vec![
                vec![q(0, "a0"), q(3, "a1")],
                vec![q(1, "b0"), q(2, "b1")],
                vec![q(5, "c0"), q(4, "c1")],
            ],
            csv: true,
            flush_rate: 2,
            keep_responses: true,
            fresh_app: false,
            combined: false,
        },
        Some(b3),
    ));
    if tier == Tier::Thorough {
        // the whole matrix of small shapes under preemption bound 2: tasks x queries per task x format x flush rate x persistence
        // (the hand-picked scenarios above go deeper on a few of them)
        for tasks in [2usize, 3] {
            for per_task in [1usize, 2] {
                for fmt in ["jsonl", "csv", "combined"] {
                    for flush in [1i64, 2, 3] {
                        for keep in [true, false] {
                            let batches: Vec<Vec<Value>> = (0..tasks)
                                .map(|t| {
                                    (0..per_task)
                                        .map(|k| {
                                            q(
                                                (t * 2 + k * 3) % 6,
                                                &format!("{}{}", ["a", "b", "c"][t], k),
                                            )
                                        })
                                        .collect()
                                })
                                .collect();
                            v.push((
                                Scenario {
                                    name: format!(
                                        "gen_{}x{}_{}_{}_{}",
                                        tasks,
                                        per_task,
                                        fmt,
                                        flush,
                                        if keep { "keep" } else { "discard" }
                                    ),
                                    batches,
                                    csv: fmt == "csv",
                                    flush_rate: flush,
                                    keep_responses: keep,
                                    fresh_app: false,
                                    combined: fmt == "combined",
                                },
                                Some(2),
                            ));
                        }
                    }
                }
            }
        }
        v.push((
            Scenario {
                name: "3x2_jsonl_discard".into(),
                batches: vec![
                    vec![q(0, "a0"), q(3, "a1")],
                    vec![q(1, "b0"), q(2, "b1")],
                    vec![q(5, "c0"), q(4, "c1")],
                ],
                csv: false,
                flush_rate: 3,
                keep_responses: false,
                fresh_app: false,
                combined: false,
            },
            Some(3),
        ));
        v.push((
            Scenario {
                name: "2x3_jsonl".into(),
                batches: vec![
                    vec![q(0, "a0"), q(2, "a1"), q(3, "a2")],
                    vec![q(1, "b0"), q(4, "b1"), q(5, "b2")],
                ],
                csv: false,
                flush_rate: 2,
                keep_responses: true,
                fresh_app: false,
                combined: false,
            },
            Some(4),
        ));
    }
    v
}

/// explores one scenario; returns (distinct file orders, schedules, per-bound counts)
pub fn explore_scenario(
    fx: &Fixture,
    sc: &Scenario,
    bound: Option<usize>,
    max_schedules: u64,
    property: &str,
    st: &mut Stats,
) -> Result<(usize, u64), String> {
    let al = alone(&fx.app, &sc.batches);
    let mut ex = Explorer::new(sc.batches.len());
    let mut orders: std::collections::BTreeSet<String> = std::collections::BTreeSet::new();
    let mut machinery: Option<String> = None;
    let mut need_new_explorer = false;
    let comp = format!("schedules.{}", sc.name);
    let (stats, diverged) = {
        let mut run = |prefix: &[usize], expect: Option<&[String]>| -> Execution {
            if need_new_explorer {
                ex = Explorer::new(sc.batches.len());
                need_new_explorer = false;
            }
            match run_scenario(&ex, fx, sc, prefix, expect, false) {
                Ok(o) => {
                    let (bad, order) = judge(sc, &al, &o);
                    let mut e = o.exec.clone();
                    // stash the verdict in the execution through the results vector is awkward; judge again in check
                    e.results = o.exec.results.clone();
                    LAST.with(|l| {
                        *l.borrow_mut() = Some((
                            bad.iter()
                                .map(|(c, d)| (c.to_string(), d.clone()))
                                .collect(),
                            order,
                            o.file,
                        ))
                    });
                    if e.deadlock.is_some() {
                        need_new_explorer = true;
                    }
                    e
                }
                Err(e) => {
                    machinery = Some(e);
                    Execution {
                        diverged: Some("scenario setup failed".into()),
                        ..Default::default()
                    }
                }
            }
        };
        let mut check = |x: &Execution| -> bool {
            st.evaluations += 1;
            st.transitions += x.points.len() as u64;
            st.traces += 1;
            st.states += 1;
            let (bad, order, _file) = LAST.with(|l| l.borrow_mut().take()).unwrap_or_default();
            if orders.is_empty() && std::env::var("VERIF_DEBUG_LABELS").is_ok() {
                eprintln!(
                    "{}: {:?}",
                    sc.name,
                    x.points.iter().map(|p| p.label.clone()).collect::<Vec<_>>()
                );
            }
            if x.preemptions() > 0 {
                st.nontrivial += 1;
            }
            orders.insert(order.clone());
            st.outcome(&format!("{}:{}", sc.name, order));
            if bad.is_empty() {
                st.pass("schedule_ok");
            }
            // clauses belonging to the two properties served by this engine
            for (clause, detail) in bad {
                let c06 = clause == "task_returns_alone_responses_in_order"
                    || clause == "no_deadlock"
                    || clause == "task_completes"
                    || clause == "discard_policy_returns_nothing";
                if (property == "C06") == c06 || clause == "no_deadlock" {
                    let choices = x.choices();
                    let labels: Vec<String> = x.points.iter().map(|p| p.label.clone()).collect();
                    st.violation(&comp, Box::leak(clause.clone().into_boxed_str()), x.preemptions() as u64 * 1000 + x.points.len() as u64, || detail.clone(), || json!({"scenario": sc.name, "schedule": choices, "schedule_labels": labels, "preemptions": x.preemptions()}));
                }
            }
            // a deadlocked execution leaves its worker threads stuck for good (they are abandoned, a fresh set of pools
            // is created): one deadlock per scenario is reported and the exploration of that scenario stops there
            if x.deadlock.is_some() {
                st.notes.insert(format!(
                    "{}: exploration stopped at the first deadlock",
                    sc.name
                ));
                return false;
            }
            true
        };
        explore(bound, max_schedules, &mut run, &mut check)
    };
    if let Some(m) = machinery {
        return Err(m);
    }
    if let Some(d) = diverged {
        return Err(format!(
            "divergence while replaying a prefix in {}: {}",
            sc.name, d
        ));
    }
    st.capped |= stats.capped;
    st.notes.insert(format!("{}: bound {:?}: {} schedules {:?} per preemption count, max {} choice points, {} distinct file orders{}", sc.name, bound, stats.schedules, stats.schedules_per_bound, stats.max_points, orders.len(), if stats.capped { " (schedule cap hit)" } else { "" }));
    Ok((orders.len(), stats.schedules))
}

thread_local! {
    static LAST: std::cell::RefCell<Option<(Vec<(String, String)>, String, String)>> = const { std::cell::RefCell::new(None) };
}

/// (b) histories: sequences of runs appending to the same file
/// `only`: a recorded history (replay) - just that format x persistence x parallelism x run sequence is run
fn histories(fx: &Fixture, tier: Tier, st: &mut Stats, only: Option<&Value>) {
    let qa = query_alphabet();
    let app = &fx.app;
    let formats: Vec<(&str, Value)> = vec![
        ("jsonl", json!({"type": "json", "newline_delimited": true})),
        ("csv_optional", csv_format()),
        ("csv_sorted", {
            let mut f = csv_format();
            f["sorted"] = json!(true);
            f
        }),
        (
            "csv_missing_path",
            json!({"type": "csv", "sorted": false, "mapping": {"qid": "request.qid", "dist": "route.traversal_summary.distance", "nope": "does.not.exist"}}),
        ),
        // column names whose byte order differs from their case-insensitive order (header and rows are rendered at two sites)
        (
            "csv_sorted_mixed_case",
            json!({"type": "csv", "sorted": true, "mapping": {"qid": "request.qid", "Zone": "request.origin_vertex", "tripId": {"optional": "route.traversal_summary.distance"}, "trip_distance": {"sum": [{"optional": "route_edges"}, {"optional": "iterations"}]}, "n": {"optional": "error"}}}),
        ),
        (
            "csv_unsorted_mixed_case",
            json!({"type": "csv", "sorted": false, "mapping": {"Zone": "request.origin_vertex", "qid": "request.qid", "tripId": {"optional": "route.traversal_summary.distance"}, "a_b": {"optional": "error"}}}),
        ),
        // one column: the record of a response for which the column does not resolve is the empty row
        (
            "csv_single_column",
            json!({"type": "csv", "sorted": false, "mapping": {"dist": "route.traversal_summary.distance"}}),
        ),
        (
            "csv_single_error_column",
            json!({"type": "csv", "sorted": true, "mapping": {"err": "error"}}),
        ),
        // columns that do not resolve ahead (in header order) of a column that reads `error`: a row is the mapping applied to the
        // response as it was produced, whatever the formatter notes about the failing columns afterwards
        (
            "csv_failing_columns_before_error_column",
            json!({"type": "csv", "sorted": false, "mapping": {"err": {"optional": "error"}, "qid": "request.qid", "total": {"sum": ["route.no_such_number"]}, "nope": "does.not.exist"}}),
        ),
        (
            "csv_failing_columns_before_error_column_sorted",
            json!({"type": "csv", "sorted": true, "mapping": {"c_err": {"optional": "error"}, "b_qid": "request.qid", "a_missing": "does.not.exist", "a_second": "route.no_such_field"}}),
        ),
    ];
    // run contents: indices into the query alphabet
    let contents: Vec<Vec<usize>> = vec![vec![0], vec![2], vec![0, 2], vec![1, 4, 3], vec![5, 0]];
    let max_runs = tier.pick(2, 3);
    for (fname, format) in formats.iter() {
        for persist in ["persist_response_in_memory", "discard_response_from_memory"] {
            for par in [1usize, 3] {
                // all sequences of 1..max_runs run contents
                let mut seqs: Vec<Vec<usize>> = vec![];
                let mut layer: Vec<Vec<usize>> = vec![vec![]];
                for _ in 0..max_runs {
                    let mut next = vec![];
                    for s in layer.iter() {
                        for c in 0..contents.len() {
                            let mut s2 = s.clone();
                            s2.push(c);
                            next.push(s2);
                        }
                    }
                    seqs.extend(next.iter().cloned());
                    layer = next;
                }
                for (si, seq) in seqs.iter().enumerate() {
                    if let Some(o) = only {
                        let runs =
                            json!(seq.iter().map(|c| contents[*c].clone()).collect::<Vec<_>>());
                        if o["format"].as_str() != Some(*fname)
                            || o["persistence"].as_str() != Some(persist)
                            || o["parallelism"].as_u64() != Some(par as u64)
                            || o["runs"] != runs
                        {
                            continue;
                        }
                    }
                    if tier == Tier::Quick && seq.len() > 1 && (si + par) % 3 != 0 {
                        continue;
                    }
                    st.states += 1;
                    st.evaluations += 1;
                    st.traces += 1;
                    if seq.len() > 1 {
                        st.nontrivial += 1;
                    }
                    let path = fx.scratch.path.join(format!(
                        "hist_{}_{}_{}_{}.txt",
                        fname,
                        persist.len(),
                        par,
                        si
                    ));
                    let _ = std::fs::remove_file(&path);
                    let cfg = json!({"parallelism": par, "response_persistence_policy": persist, "response_output_policy": {"type": "file", "filename": path.to_str().unwrap(), "format": format, "file_flush_rate": 1}});
                    let comp = format!("append_histories.{}", fname);
                    let case = || json!({"format": fname, "persistence": persist, "parallelism": par, "runs": seq.iter().map(|c| contents[*c].clone()).collect::<Vec<_>>()});
                    let mut expected_ids: Vec<String> = vec![];
                    let mut all_alone: Vec<Value> = vec![];
                    let mut all_returned: Vec<Value> = vec![];
                    let mut ok = true;
                    for (ri, c) in seq.iter().enumerate() {
                        st.transitions += 1;
                        let queries: Vec<Value> = contents[*c]
                            .iter()
                            .enumerate()
                            .map(|(k, qi)| tagq(&qa[*qi], &format!("r{}q{}", ri, k)))
                            .collect();
                        for q in queries.iter() {
                            expected_ids.push(q["qid"].as_str().unwrap().to_string());
                        }
                        let alone_r: Vec<Value> = queries
                            .iter()
                            .map(|q| {
                                app.run(vec![q.clone()], None)
                                    .ok()
                                    .and_then(|r| r.first().map(project))
                                    .unwrap_or(Value::Null)
                            })
                            .collect();
                        all_alone.extend(alone_r.iter().cloned());
                        let (a2, q2, c2) = (fx.app.clone(), queries.clone(), cfg.clone());
                        let answer = match crate::engine::with_deadline(60, move || {
                            guarded(|| a2.run(q2, Some(&c2)).map_err(|e| e.to_string()))
                        }) {
                            Some(a) => a,
                            None => {
                                st.violation(&comp, "returns_in_bounded_time", seq.len() as u64, || "CompassApp::run did not return within 60 s (worker pool stuck); the rest of this run is skipped".to_string(), case);
                                return;
                            }
                        };
                        match answer {
                            Err(p) => {
                                st.violation(
                                    &comp,
                                    "no_panic",
                                    seq.len() as u64,
                                    || p.clone(),
                                    case,
                                );
                                ok = false;
                                break;
                            }
                            Ok(Err(e)) => {
                                st.violation(
                                    &comp,
                                    "run_succeeds",
                                    seq.len() as u64,
                                    || e.clone(),
                                    case,
                                );
                                ok = false;
                                break;
                            }
                            Ok(Ok(resp)) => {
                                all_returned.extend(resp.iter().cloned());
                                if persist.starts_with("persist") {
                                    // writing never removes or replaces information in the response handed back
                                    for (q, want) in queries.iter().zip(alone_r.iter()) {
                                        let got = resp
                                            .iter()
                                            .find(|r| r["request"]["qid"] == q["qid"])
                                            .map(project)
                                            .unwrap_or(Value::Null);
                                        // the CSV formatter may add an error entry; whatever was there before must still be there
                                        let keeps = match (want.get("error"), got.get("error")) {
                                            (Some(Value::Null), _) | (None, _) => true,
                                            (Some(w), Some(g)) => w == g,
                                            (Some(_), None) => false,
                                        } && want["route"] == got["route"]
                                            && want["request"] == got["request"];
                                        if keeps {
                                            st.pass("returned_response_keeps_its_information");
                                        } else {
                                            let site = if want
                                                .get("error")
                                                .map_or(false, |e| !e.is_null())
                                            {
                                                "error_response"
                                            } else {
                                                "success_response"
                                            };
                                            st.violation(
                                                &format!("{}.{}", comp, site),
                                                "returned_response_keeps_its_information",
                                                seq.len() as u64,
                                                || {
                                                    format!(
                                                        "before writing {} ; handed back {}",
                                                        want, got
                                                    )
                                                },
                                                case,
                                            );
                                        }
                                    }
                                }
                            }
                        }
                    }
                    if !ok {
                        continue;
                    }
                    let text = std::fs::read_to_string(&path).unwrap_or_default();
                    let lines: Vec<&str> = text.split('\n').filter(|l| !l.is_empty()).collect();
                    if fname.starts_with("csv_single") || fname.starts_with("csv_failing") {
                        // one column: empty rows are records; the wanted rows come from the responses of the queries run alone
                        let mut raw: Vec<&str> = text.split('\n').collect();
                        if raw.last() == Some(&"") {
                            raw.pop();
                        }
                        let header = ref_csv_header(format);
                        if raw.first().copied() == Some(header.as_str()) {
                            st.pass("single_header_first");
                        } else {
                            st.violation(
                                &comp,
                                "single_header_first",
                                seq.len() as u64,
                                || format!("first line {:?}", raw.first()),
                                case,
                            );
                        }
                        let strip = |r: &Value| {
                            Value::Object(
                                r.as_object()
                                    .map(|m| {
                                        m.iter()
                                            .filter(|(_, v)| !v.is_null())
                                            .map(|(k, v)| (k.clone(), v.clone()))
                                            .collect()
                                    })
                                    .unwrap_or_default(),
                            )
                        };
                        let mut want: Vec<String> = all_alone
                            .iter()
                            .map(|r| ref_csv_row(format, &strip(r)))
                            .collect();
                        let mut got: Vec<String> =
                            raw.iter().skip(1).map(|l| l.to_string()).collect();
                        if got.len() == expected_ids.len() {
                            st.pass("rows_accumulate_across_runs");
                        } else {
                            st.violation(&comp, "rows_accumulate_across_runs", seq.len() as u64, || format!("{} rows (empty ones included) for {} responses over {} runs", got.len(), expected_ids.len(), seq.len()), case);
                        }
                        want.sort();
                        got.sort();
                        if want == got {
                            st.pass("rows_follow_mapping_in_header_order");
                        } else {
                            st.violation(
                                &comp,
                                "rows_follow_mapping_in_header_order",
                                seq.len() as u64,
                                || format!("header {:?}: rows {:?} want {:?}", header, got, want),
                                case,
                            );
                        }
                    } else if format["type"] == json!("csv") {
                        let header = ref_csv_header(format);
                        let n_headers = lines.iter().filter(|l| **l == header).count();
                        if n_headers == 1 && lines.first().copied() == Some(header.as_str()) {
                            st.pass("single_header_first");
                        } else {
                            st.violation(
                                &comp,
                                "single_header_first",
                                seq.len() as u64,
                                || {
                                    format!(
                                        "{} header lines; first line {:?}",
                                        n_headers,
                                        lines.first()
                                    )
                                },
                                case,
                            );
                        }
                        // rows = the mapping applied to the responses, cell by cell in header order (responses kept in memory only)
                        if persist.starts_with("persist")
                            && fname != &"csv_missing_path"
                            && !fname.starts_with("csv_failing")
                        {
                            let mut want: Vec<String> = all_returned
                                .iter()
                                .map(|r| ref_csv_row(format, r))
                                .collect();
                            let mut got: Vec<String> = lines
                                .iter()
                                .filter(|l| **l != header)
                                .map(|l| l.to_string())
                                .collect();
                            want.sort();
                            got.sort();
                            if want == got {
                                st.pass("rows_follow_mapping_in_header_order");
                            } else {
                                st.violation(
                                    &comp,
                                    "rows_follow_mapping_in_header_order",
                                    seq.len() as u64,
                                    || {
                                        format!(
                                            "header {:?}: rows {:?} want {:?}",
                                            header, got, want
                                        )
                                    },
                                    case,
                                );
                            }
                        }
                        if lines.len() - n_headers.min(lines.len()) == expected_ids.len() {
                            st.pass("rows_accumulate_across_runs");
                        } else {
                            st.violation(
                                &comp,
                                "rows_accumulate_across_runs",
                                seq.len() as u64,
                                || {
                                    format!(
                                        "{} rows for {} responses over {} runs",
                                        lines.len() - n_headers.min(lines.len()),
                                        expected_ids.len(),
                                        seq.len()
                                    )
                                },
                                case,
                            );
                        }
                    } else {
                        let ids: Vec<String> = lines
                            .iter()
                            .filter_map(|l| serde_json::from_str::<Value>(l).ok())
                            .map(|v| v["request"]["qid"].as_str().unwrap_or("?").to_string())
                            .collect();
                        let mut a = ids.clone();
                        a.sort();
                        let mut b = expected_ids.clone();
                        b.sort();
                        if a == b && lines.len() == expected_ids.len() {
                            st.pass("rows_accumulate_across_runs");
                        } else {
                            st.violation(
                                &comp,
                                "rows_accumulate_across_runs",
                                seq.len() as u64,
                                || format!("records {:?} want {:?}", ids, expected_ids),
                                case,
                            );
                        }
                    }
                    let _ = std::fs::remove_file(&path);
                }
            }
        }
    }
    // responses of queries that fail in an input plugin are responses too: they must reach the file
    {
        st.states += 1;
        st.evaluations += 1;
        st.transitions += 1;
        let mut spec = AppSpec::simple(base_net());
        spec.input_plugins = vec![
            json!({"type": "inject", "key": "weight_factor", "value": "1.0", "format": "json", "overwrite": false}),
        ];
        let case = || json!({"input_plugin_failure": true});
        match spec.build(&fx.scratch.path.join("app_inject")) {
            Err(e) => st.violation("harness", "app_build", 0, || e.clone(), case),
            Ok(app2) => {
                // every batch of length 1..3 over {answered query, query failing in the input plugin} x persistence x format:
                // in particular batches in which nothing reaches the search
                let mk = |fails: bool, id: &str| {
                    if fails {
                        tagq(
                            &json!({"origin_vertex": 0, "destination_vertex": 4, "weight_factor": 2.0}),
                            id,
                        )
                    } else {
                        tagq(&json!({"origin_vertex": 0, "destination_vertex": 4}), id)
                    }
                };
                for len in 1..=3usize {
                    for code in 0..(1usize << len) {
                        for persist in
                            ["persist_response_in_memory", "discard_response_from_memory"]
                        {
                            for (fname, format) in [
                                ("jsonl", json!({"type": "json", "newline_delimited": true})),
                                ("csv", csv_format()),
                            ] {
                                st.states += 1;
                                st.evaluations += 1;
                                st.transitions += 1;
                                st.traces += 1;
                                let path = fx.scratch.path.join("plugin_failure.txt");
                                let _ = std::fs::remove_file(&path);
                                let cfg = json!({"response_persistence_policy": persist, "response_output_policy": {"type": "file", "filename": path.to_str().unwrap(), "format": format}});
                                let qs: Vec<Value> = (0..len)
                                    .map(|i| mk(code >> i & 1 == 1, &format!("q{}", i)))
                                    .collect();
                                let pattern: String = (0..len)
                                    .map(|i| if code >> i & 1 == 1 { 'F' } else { 'A' })
                                    .collect();
                                let case = || json!({"input_plugin_failure": true, "batch": pattern, "persistence": persist, "format": fname});
                                let comp = format!(
                                    "append_histories.input_plugin_failure.{}",
                                    if code == (1 << len) - 1 {
                                        "nothing_reaches_the_search"
                                    } else {
                                        "mixed_batch"
                                    }
                                );
                                match guarded(|| app2.run(qs.clone(), Some(&cfg))) {
                                    Ok(Ok(resp)) => {
                                        let text =
                                            std::fs::read_to_string(&path).unwrap_or_default();
                                        let n = text.split('\n').filter(|l| !l.is_empty()).count()
                                            - (fname == "csv") as usize;
                                        let keep = persist.starts_with("persist");
                                        if n == len && (!keep || resp.len() == len) {
                                            st.pass("input_plugin_failures_are_written");
                                        } else {
                                            st.violation(&comp, "one_record_per_response", len as u64, || format!("batch {} ({}): {} responses returned, {} records in the file: {:?}", pattern, persist, resp.len(), n, text), case);
                                        }
                                    }
                                    other => st.violation(
                                        &comp,
                                        "run_succeeds",
                                        len as u64,
                                        || format!("{:?}", other),
                                        case,
                                    ),
                                }
                            }
                        }
                    }
                }
            }
        }
    }
}

/// every leaf of `a` is in `b` under the same path with the same value
fn leaves_kept(a: &Value, b: &Value) -> bool {
    match a {
        Value::Object(o) => o
            .iter()
            .all(|(k, v)| b.get(k).map_or(false, |w| leaves_kept(v, w))),
        Value::Array(x) => b.as_array().map_or(false, |y| {
            x.len() <= y.len() && x.iter().zip(y.iter()).all(|(v, w)| leaves_kept(v, w))
        }),
        other => other == b,
    }
}

/// one response written by several sinks of a combined policy: what the first sinks left in the response handed back (their
/// notes about columns that do not resolve) is still there after the later ones have written. Every ordered pair and triple
/// of four CSV sinks (two with a failing column each, one clean, one JSON lines) x a successful and a failing query
fn combined_sinks(fx: &Fixture, st: &mut Stats) {
    let qa = query_alphabet();
    let sinks: Vec<(&str, Value)> = vec![
        (
            "csv_alpha_fails",
            json!({"type": "csv", "sorted": false, "mapping": {"qid": "request.qid", "alpha": "does.not.exist"}}),
        ),
        (
            "csv_beta_fails",
            json!({"type": "csv", "sorted": true, "mapping": {"qid": "request.qid", "beta": "route.no_such_field"}}),
        ),
        (
            "csv_clean",
            json!({"type": "csv", "sorted": false, "mapping": {"qid": "request.qid", "d": {"optional": "route.traversal_summary.distance"}}}),
        ),
        ("jsonl", json!({"type": "json", "newline_delimited": true})),
    ];
    let mut lists: Vec<Vec<usize>> = vec![];
    for a in 0..sinks.len() {
        for b in 0..sinks.len() {
            if a != b {
                lists.push(vec![a, b]);
                for c in 0..sinks.len() {
                    if c != a && c != b {
                        lists.push(vec![a, b, c]);
                    }
                }
            }
        }
    }
    let run_with = |list: &[usize], q: &Value, tag: &str| -> Result<Value, String> {
        let policies: Vec<Value> = list
            .iter()
            .enumerate()
            .map(|(i, s)| {
                let path = fx.scratch.path.join(format!("comb_{}_{}_{}.txt", tag, i, sinks[*s].0));
                let _ = std::fs::remove_file(&path);
                json!({"type": "file", "filename": path.to_str().unwrap(), "format": sinks[*s].1, "file_flush_rate": 1})
            })
            .collect();
        let pol = if policies.len() == 1 {
            policies[0].clone()
        } else {
            json!({"type": "combined", "policies": policies})
        };
        let cfg = json!({"parallelism": 1, "response_persistence_policy": "persist_response_in_memory", "response_output_policy": pol});
        match guarded(|| {
            fx.app
                .run(vec![q.clone()], Some(&cfg))
                .map_err(|e| e.to_string())
        }) {
            Err(p) => Err(format!("panic: {}", p)),
            Ok(Err(e)) => Err(e),
            Ok(Ok(r)) => r.first().cloned().ok_or_else(|| "no response".to_string()),
        }
    };
    for (qi, qidx) in [0usize, 2].iter().enumerate() {
        let q = tagq(&qa[*qidx], &format!("comb{}", qi));
        for (li, list) in lists.iter().enumerate() {
            st.evaluations += 1;
            st.transitions += list.len() as u64;
            st.traces += 1;
            st.states += 1;
            st.nontrivial += 1;
            let names: Vec<&str> = list.iter().map(|s| sinks[*s].0).collect();
            let comp = "combined_sinks".to_string();
            let case = || json!({"combined_sinks": names, "query": q});
            let whole = match run_with(list, &q, &format!("w{}_{}", qi, li)) {
                Ok(r) => r,
                Err(e) => {
                    st.violation(&comp, "run_succeeds", list.len() as u64, || e.clone(), case);
                    continue;
                }
            };
            // what each proper prefix of the list leaves in the response must still be in it after the whole list
            let mut ok = true;
            for k in 1..list.len() {
                let part = match run_with(&list[..k], &q, &format!("p{}_{}_{}", qi, li, k)) {
                    Ok(r) => r,
                    Err(_) => continue,
                };
                let (pe, we) = (
                    part.get("error").cloned().unwrap_or(Value::Null),
                    whole.get("error").cloned().unwrap_or(Value::Null),
                );
                let (pc, wc) = (
                    part.get("csv_error").cloned().unwrap_or(Value::Null),
                    whole.get("csv_error").cloned().unwrap_or(Value::Null),
                );
                if !(pe.is_null() || leaves_kept(&pe, &we))
                    || !(pc.is_null() || leaves_kept(&pc, &wc))
                    || part.get("route") != whole.get("route")
                    || part.get("request") != whole.get("request")
                {
                    ok = false;
                    st.violation(&comp, "returned_response_keeps_its_information", list.len() as u64, || format!("after the first {} sink(s) the response holds error {} csv_error {}; after all {} it holds error {} csv_error {}", k, pe, pc, list.len(), we, wc), case);
                    break;
                }
            }
            if ok {
                st.pass("later_sinks_keep_what_earlier_sinks_noted");
            }
        }
    }
}

pub fn run(tier: Tier) -> i32 {
    let info = RunInfo::new("C19", tier);
    let fx = match fixture() {
        Ok(f) => f,
        Err(e) => {
            println!(
                "MACHINERY-ERROR cannot build the application fixture: {}",
                e
            );
            return 2;
        }
    };
    let mut bounds = serde_json::Map::new();
    // the scenarios are explored in parallel, one worker process each (the scheduling hook is global to a process)
    let mut st = match explore_in_workers("C19", tier, scenarios(tier).len() as u64, &mut bounds) {
        Ok(st) => st,
        Err(e) => {
            println!("MACHINERY-ERROR {}", e);
            return 2;
        }
    };
    st.sample(2, || json!({"scenario": "2x2_jsonl_1_keep", "tasks": 2, "queries_per_task": 2, "schedule": [0, 0, 1, 0, 0, 1], "meaning": "choice index among enabled tasks at each lock/write/flush point; 0 = running task continues"}));
    histories(&fx, tier, &mut st, None);
    combined_sinks(&fx, &mut st);
    st.sample(4, || json!({"history": {"format": "csv_optional", "persistence": "persist_response_in_memory", "parallelism": 3, "runs": [[0, 2], [1, 4, 3]]}}));
    let assumptions = vec![
        "shared state between workers is only reachable through the five hooked mutex sites and the output file (source scan recorded in DESIGN §2.3); rayon's own scheduler is trusted".into(),
        crate::engine::scan_shared_state(),
        "each schedule re-runs the scenario from scratch (new file, new sink, new progress bar); replaying a prefix must reproduce the same (task, event) at every point, otherwise the run stops as a machinery error".into(),
        "CSV cells are compared as rendered; the mapping of the schedule scenarios uses optional paths so that formatting itself does not alter responses".into(),
    ];
    finish(
        &info,
        st,
        "(a) state = one complete schedule (choice sequence over lock/write/flush points) of K one-thread worker pools each running the real run_batch_with_responses / run_batch_without_responses on its batch against one shared ResponseSink; 2x2 scenarios explored completely, 3-task scenarios up to the stated preemption bound; oracle on the final file and the returned responses; (b) state = one history of 1-3 CompassApp::run calls appending to the same file x format x persistence policy x parallelism; (b') one response written by every ordered pair and triple of four sinks of a combined policy (two CSV sinks with a failing column each, a clean one, JSON lines): what a prefix of the list leaves in the response handed back is still there after the whole list; non-trivial = schedule with at least one preemption / history with more than one run",
        true,
        Value::Object(bounds),
        assumptions,
    )
}

/// runs `n` scenario explorations of property `id` in worker processes (`vharness --worker <id> <tier> scenarios`);
/// the workers report their scenario's bound, schedule count and distinct outcomes in a `BOUND {json}` note
pub fn explore_in_workers(
    id: &str,
    tier: Tier,
    n: u64,
    bounds: &mut serde_json::Map<String, Value>,
) -> Result<Stats, String> {
    use crate::engine::sandbox::{run_cases, SandboxCfg};
    let cfg = SandboxCfg {
        worker_args: vec![
            "--worker".into(),
            id.into(),
            tier.as_str().into(),
            "scenarios".into(),
        ],
        n_workers: 16,
        case_timeout: std::time::Duration::from_secs(tier.pick(900, 6 * 3600)),
        block: 1,
        budget: std::time::Duration::from_secs(tier.pick(1800, 8 * 3600)),
    };
    let (mut st, fates) = run_cases(&cfg, n)?;
    if !fates.is_empty() {
        return Err(format!("scenario workers hung or died: {:?}", fates));
    }
    let notes: Vec<String> = st.notes.iter().cloned().collect();
    for nline in notes {
        if let Some(rest) = nline.strip_prefix("BOUND ") {
            if let Ok(v) = serde_json::from_str::<Value>(rest) {
                if let Some(name) = v["scenario"].as_str() {
                    let mut v2 = v.clone();
                    if let Some(o) = v2.as_object_mut() {
                        o.remove("scenario");
                    }
                    bounds.insert(name.to_string(), v2);
                }
            }
            st.notes.remove(&nline);
        } else if let Some(rest) = nline.strip_prefix("MACHINERY ") {
            return Err(rest.to_string());
        }
    }
    if (bounds.len() as u64) < n {
        return Err(format!("{} scenarios reported out of {}", bounds.len(), n));
    }
    Ok(st)
}

/// explores one scenario and leaves its coverage in a BOUND note (worker side)
pub fn explore_and_note(
    fx: &Fixture,
    sc: &Scenario,
    bound: Option<usize>,
    cap: u64,
    property: &str,
    st: &mut Stats,
) {
    let t0 = std::time::Instant::now();
    match explore_scenario(fx, sc, bound, cap, property, st) {
        Ok((orders, schedules)) => {
            st.notes.insert(format!(
                "BOUND {}",
                json!({"scenario": sc.name, "preemption_bound": bound.map(|b| json!(b)).unwrap_or(json!("unbounded (complete)")), "schedules": schedules, "distinct_file_orders": orders, "wall_s": (t0.elapsed().as_secs_f64() * 10.0).round() / 10.0})
            ));
            if orders < 2 {
                st.violation(
                    "harness",
                    "vacuous_exploration",
                    0,
                    || {
                        format!(
                            "scenario {} produced a single file order: nothing collided",
                            sc.name
                        )
                    },
                    || json!({"scenario": sc.name}),
                );
            }
        }
        Err(e) => {
            st.notes.insert(format!("MACHINERY {}", e));
        }
    }
}

pub fn worker(args: &[String]) -> i32 {
    let tier = if args.first().map(|s| s.as_str()) == Some("thorough") {
        Tier::Thorough
    } else {
        Tier::Quick
    };
    let fx = match fixture() {
        Ok(f) => f,
        Err(e) => {
            println!("MACHINERY-ERROR {}", e);
            return 2;
        }
    };
    let scs = scenarios(tier);
    crate::engine::sandbox::worker_loop(|i, st| {
        let (sc, bound) = &scs[i as usize];
        explore_and_note(&fx, sc, *bound, tier.pick(40_000, 2_000_000), "C19", st);
    })
}

pub fn replay(case: &Value) -> i32 {
    let fx = match fixture() {
        Ok(f) => f,
        Err(e) => {
            println!("MACHINERY-ERROR {}", e);
            return 2;
        }
    };
    let name = case["scenario"].as_str().unwrap_or("");
    let sc = match scenarios(Tier::Thorough)
        .into_iter()
        .map(|s| s.0)
        .find(|s| s.name == name)
    {
        Some(s) => s,
        None => {
            // an append history (or an input-plugin-failure batch, which is part of the same pass): run it again without the tier
            let mut st = Stats::new();
            let c = if case.get("case").is_some() {
                &case["case"]
            } else {
                case
            };
            if c.get("combined_sinks").is_some() {
                combined_sinks(&fx, &mut st);
            } else if c.get("runs").is_some() {
                histories(&fx, Tier::Thorough, &mut st, Some(c));
            } else {
                histories(
                    &fx,
                    Tier::Thorough,
                    &mut st,
                    Some(&json!({"format": "none"})),
                );
            }
            for (k, g) in st.violations.iter() {
                println!(
                    "REPLAY-VIOLATION {} ({} cases) {}",
                    k,
                    g.count,
                    g.detail.chars().take(500).collect::<String>()
                );
            }
            println!(
                "replay: {} violated clauses over {} histories",
                st.violations.len(),
                st.evaluations
            );
            return if st.violations.is_empty() { 0 } else { 1 };
        }
    };
    let prefix: Vec<usize> = serde_json::from_value(case["schedule"].clone()).unwrap_or_default();
    let al = alone(&fx.app, &sc.batches);
    let mut verdicts = vec![];
    // replay the recorded schedule twice: identical observations are required before a failure is trusted
    for round in 0..2 {
        let ex = Explorer::new(sc.batches.len());
        match run_scenario(&ex, &fx, &sc, &prefix, None, false) {
            Ok(o) => {
                let (bad, order) = judge(&sc, &al, &o);
                println!(
                    "round {}: file order {} ; labels {:?}",
                    round,
                    order,
                    o.exec
                        .points
                        .iter()
                        .map(|p| p.label.clone())
                        .collect::<Vec<_>>()
                );
                for (c, d) in bad.iter() {
                    println!("REPLAY-VIOLATION {} {}", c, d);
                }
                verdicts.push((bad.iter().map(|b| b.0).collect::<Vec<_>>(), order, o.file));
            }
            Err(e) => {
                println!("MACHINERY-ERROR {}", e);
                return 2;
            }
        }
    }
    if verdicts[0] != verdicts[1] {
        println!("MACHINERY-ERROR the same schedule gave different observations");
        return 2;
    }
    if verdicts[0].0.is_empty() {
        0
    } else {
        1
    }
}
