use crate::engine::Tier;
use serde_json::Value;

pub mod c01;
pub mod c02;
pub mod c03;
pub mod c04;
pub mod c05;
pub mod c06;
pub mod c07;
pub mod c08;
pub mod c09;
pub mod c10;
pub mod c11;
pub mod c12;
pub mod c13;
pub mod c14;
pub mod c15;
pub mod c16;
pub mod c17;
pub mod c18;
pub mod c19;
pub mod c20;
pub mod search_common;

pub fn run(id: &str, tier: Tier) -> i32 {
    match id {
        "C01" => c01::run(tier),
        "C02" => c02::run(tier),
        "C03" => c03::run(tier),
        "C04" => c04::run(tier),
        "C05" => c05::run(tier),
        "C06" => c06::run(tier),
        "C07" => c07::run(tier),
        "C08" => c08::run(tier),
        "C09" => c09::run(tier),
        "C10" => c10::run(tier),
        "C11" => c11::run(tier),
        "C12" => c12::run(tier),
        "C13" => c13::run(tier),
        "C14" => c14::run(tier),
        "C15" => c15::run(tier),
        "C16" => c16::run(tier),
        "C17" => c17::run(tier),
        "C18" => c18::run(tier),
        "C19" => c19::run(tier),
        "C20" => c20::run(tier),
        _ => {
            println!("MACHINERY-ERROR unknown property {}", id);
            2
        }
    }
}

pub fn replay(id: &str, case: &Value) -> i32 {
    match id {
        "C01" => c01::replay(case),
        "C02" => c02::replay(case),
        "C03" => c03::replay(case),
        "C04" => c04::replay(case),
        "C05" => c05::replay(case),
        "C06" => c06::replay(case),
        "C07" => c07::replay(case),
        "C08" => c08::replay(case),
        "C09" => c09::replay(case),
        "C10" => c10::replay(case),
        "C11" => c11::replay(case),
        "C12" => c12::replay(case),
        "C13" => c13::replay(case),
        "C14" => c14::replay(case),
        "C15" => c15::replay(case),
        "C16" => c16::replay(case),
        "C17" => c17::replay(case),
        "C18" => c18::replay(case),
        "C19" => c19::replay(case),
        "C20" => c20::replay(case),
        _ => {
            println!("MACHINERY-ERROR unknown property {}", id);
            2
        }
    }
}

pub fn worker(id: &str) -> i32 {
    let args: Vec<String> = std::env::args().skip(3).collect();
    match id {
        "C10" => c10::worker(&args),
        "C12" => c12::worker(&args),
        "C13" => c13::worker(&args),
        "C04" => c04::worker(&args),
        "C06" => c06::worker(&args),
        "C17" => c17::worker(&args),
        "C19" => c19::worker(&args),
        _ => {
            println!("MACHINERY-ERROR no worker for {}", id);
            2
        }
    }
}
