//! C08 — vehicle energy and battery state follow the powertrain model along a route (edge histories)
use crate::engine::{close, finish, guarded, par_blocks, RunInfo, Stats, Tier};
use crate::refmodel::units as ru;
use routee_compass_core::model::network::{Edge, Vertex};
use routee_compass_core::model::state::state_model::StateModel;
use routee_compass_core::model::traversal::default::speed_traversal_engine::SpeedTraversalEngine;
use routee_compass_core::model::traversal::default::speed_traversal_service::SpeedLookupService;
use routee_compass_core::model::traversal::traversal_model::TraversalModel;
use routee_compass_core::model::traversal::traversal_model_error::TraversalModelError;
use routee_compass_core::model::unit::as_f64::AsF64;
use routee_compass_core::model::unit::*;
use routee_compass_core::util::cache_policy::float_cache_policy::{
    FloatCachePolicy, FloatCachePolicyConfig,
};
use routee_compass_powertrain::routee::energy_model_service::EnergyModelService;
use routee_compass_powertrain::routee::energy_traversal_model::EnergyTraversalModel;
use routee_compass_powertrain::routee::prediction::model_type::ModelType;
use routee_compass_powertrain::routee::prediction::{
    load_prediction_model, PredictionModel, PredictionModelRecord,
};
use routee_compass_powertrain::routee::vehicle::default::bev::BEV;
use routee_compass_powertrain::routee::vehicle::default::ice::ICE;
use routee_compass_powertrain::routee::vehicle::default::phev::PHEV;
use routee_compass_powertrain::routee::vehicle::VehicleType;
use serde::{Deserialize, Serialize};
use serde_json::{json, Value};
use std::collections::HashMap;
use std::sync::Arc;

/// edge alphabet: (length m, speed kph, grade decimal)
pub fn edge_types_for(cfg: &Cfg) -> Vec<(f64, f64, f64)> {
    if cfg.key_decimals == 0 {
        return edge_types();
    }
    let mut v = vec![];
    for sp in [20.0, 60.0] {
        for gr in [-0.02, -0.01, 0.0, 0.01] {
            v.push((1000.0, sp, gr));
        }
    }
    v
}

pub fn edge_types() -> Vec<(f64, f64, f64)> {
    let mut v = vec![];
    for len in [100.0, 1000.0] {
        for sp in [20.0, 60.0] {
            for gr in [-0.15, 0.0, 0.06] {
                v.push((len, sp, gr));
            }
        }
    }
    v
}

/// smooth synthetic powertrain: rate per mile as a function of speed (mph) and grade (decimal); negative downhill
#[derive(Clone, Debug)]
struct Synthetic {
    speed_unit: SpeedUnit,
    grade_unit: GradeUnit,
    rate_unit: EnergyRateUnit,
    /// scale so that electric and liquid models differ
    scale: f64,
}
impl Synthetic {
    /// rate in the model's own rate unit for physical inputs
    fn rate_ref(&self, speed_mps: f64, grade_dec: f64) -> f64 {
        let mph = speed_mps / ru::speed_mps(&SpeedUnit::MilesPerHour);
        let per_mile = self.scale * (0.2 + 0.002 * mph + 2.0 * grade_dec);
        // per_mile is energy per mile; express per the rate unit's distance
        per_mile * ru::distance_m(&ru::rate_distance_unit(&self.rate_unit))
            / ru::distance_m(&DistanceUnit::Miles)
    }
}
impl PredictionModel for Synthetic {
    fn predict(
        &self,
        speed: (Speed, SpeedUnit),
        grade: (Grade, GradeUnit),
    ) -> Result<(EnergyRate, EnergyRateUnit), TraversalModelError> {
        let mps = speed.0.as_f64() * ru::speed_mps(&speed.1);
        let dec = grade.0.as_f64() * ru::grade_dec(&grade.1);
        let _ = (&self.speed_unit, &self.grade_unit);
        Ok((EnergyRate::new(self.rate_ref(mps, dec)), self.rate_unit))
    }
}

#[derive(Clone, Debug, Serialize, Deserialize)]
pub struct Cfg {
    pub vehicle: String, // ice | bev | phev
    pub model_speed_unit: SpeedUnit,
    pub model_grade_unit: GradeUnit,
    pub rate_unit: EnergyRateUnit,
    pub time_speed_unit: SpeedUnit,
    pub time_distance_unit: DistanceUnit,
    pub time_time_unit: TimeUnit,
    pub out_distance_unit: DistanceUnit,
    pub grade_table_unit: GradeUnit,
    pub capacity_kwh: f64,
    pub start_soc: Value,
    pub adjustment: f64,
    pub cache: bool,
    /// number of cache entries (0: 64); sizes 1 and 2 make edge histories evict and re-insert keys
    #[serde(default)]
    pub cache_size: usize,
    /// the energy model's own (output) time unit when it differs from the unit the time model stores its feature in
    #[serde(default)]
    pub service_time_unit: Option<TimeUnit>,
    pub real_model: bool,
    /// decimals kept in the cache key (0: 6). With 2 decimals the edge alphabet is the fine one: grades that are whole key
    /// steps around zero, so that every edge type has its own key and the cache may not merge any two of them
    #[serde(default)]
    pub key_decimals: u32,
}

struct Built {
    model: Arc<dyn TraversalModel>,
    sm: StateModel,
    /// reference rate functions (electric or only model, liquid)
    rate_a: Box<dyn Fn(f64, f64) -> f64 + Send + Sync>,
    rate_b: Option<Box<dyn Fn(f64, f64) -> f64 + Send + Sync>>,
    rate_unit_a: EnergyRateUnit,
    rate_unit_b: Option<EnergyRateUnit>,
    ideal_a: f64,
}

const REAL_DIR: &str = "/repo/rust/routee-compass-powertrain/src/routee/test";

fn record(
    cfg: &Cfg,
    which: &str,
) -> Result<
    (
        PredictionModelRecord,
        Box<dyn Fn(f64, f64) -> f64 + Send + Sync>,
    ),
    String,
> {
    let cache = if cfg.cache {
        Some(
            FloatCachePolicy::from_config(FloatCachePolicyConfig {
                cache_size: if cfg.cache_size == 0 {
                    64
                } else {
                    cfg.cache_size
                },
                key_precisions: if cfg.key_decimals == 0 {
                    vec![6, 6]
                } else {
                    vec![cfg.key_decimals as i32, cfg.key_decimals as i32]
                },
            })
            .map_err(|e| e.to_string())?,
        )
    } else {
        None
    };
    if cfg.real_model {
        let (file, eru) = match which {
            "ice" => ("Toyota_Camry.bin", EnergyRateUnit::GallonsGasolinePerMile),
            "bev" => (
                "2017_CHEVROLET_Bolt.bin",
                EnergyRateUnit::KilowattHoursPerMile,
            ),
            "cd" => (
                "2016_CHEVROLET_Volt_Charge_Depleting.bin",
                EnergyRateUnit::KilowattHoursPerMile,
            ),
            _ => (
                "2016_CHEVROLET_Volt_Charge_Sustaining.bin",
                EnergyRateUnit::GallonsGasolinePerMile,
            ),
        };
        let path = std::path::Path::new(REAL_DIR).join(file);
        // the declaration of the bundled model: its speed unit, and for the electric models its rate unit, come from the
        // configuration (mph and per mile as bundled, or units built on different distances)
        let su = cfg.model_speed_unit;
        let eru = match (which, cfg.rate_unit) {
            (
                "bev" | "cd",
                EnergyRateUnit::KilowattHoursPerKilometer
                | EnergyRateUnit::KilowattHoursPerMeter
                | EnergyRateUnit::KilowattHoursPerMile,
            ) => cfg.rate_unit,
            _ => eru,
        };
        let (s_lo, s_hi, s_n, g_lo, g_hi, g_n) =
            (0.0f64, 100.0f64, 101usize, -0.2f64, 0.2f64, 41usize);
        let mt = ModelType::Interpolate {
            underlying_model_type: Box::new(ModelType::Smartcore),
            speed_lower_bound: Speed::new(s_lo),
            speed_upper_bound: Speed::new(s_hi),
            speed_bins: s_n,
            grade_lower_bound: Grade::new(g_lo),
            grade_upper_bound: Grade::new(g_hi),
            grade_bins: g_n,
        };
        let rec = load_prediction_model(
            which.to_string(),
            &path,
            mt,
            su,
            GradeUnit::Decimal,
            eru,
            Some(EnergyRate::new(0.02)),
            Some(cfg.adjustment),
            cache,
        )
        .map_err(|e| e.to_string())?;
        // reference: the underlying model itself, loaded separately under the same declaration and read at the four table
        // points around the edge's speed and grade (bilinear between them, written out here)
        let under = load_prediction_model(
            which.to_string(),
            &path,
            ModelType::Smartcore,
            su,
            GradeUnit::Decimal,
            eru,
            Some(EnergyRate::new(0.02)),
            Some(1.0),
            None,
        )
        .map_err(|e| e.to_string())?;
        let f = move |mps: f64, dec: f64| {
            let s = mps / ru::speed_mps(&su);
            let ds = (s_hi - s_lo) / (s_n - 1) as f64;
            let dg = (g_hi - g_lo) / (g_n - 1) as f64;
            let i0 = (((s - s_lo) / ds).floor().max(0.0) as usize).min(s_n - 2);
            let j0 = (((dec - g_lo) / dg).floor().max(0.0) as usize).min(g_n - 2);
            let sk = |i: usize| s_lo + i as f64 * ds;
            let gk = |j: usize| g_lo + j as f64 * dg;
            let at = |i: usize, j: usize| {
                under
                    .prediction_model
                    .predict(
                        (Speed::new(sk(i)), su),
                        (Grade::new(gk(j)), GradeUnit::Decimal),
                    )
                    .map(|r| r.0.as_f64())
                    .unwrap_or(f64::NAN)
            };
            let ts = (s - sk(i0)) / ds;
            let tg = (dec - gk(j0)) / dg;
            (at(i0, j0) * (1.0 - ts) + at(i0 + 1, j0) * ts) * (1.0 - tg)
                + (at(i0, j0 + 1) * (1.0 - ts) + at(i0 + 1, j0 + 1) * ts) * tg
        };
        Ok((rec, Box::new(f)))
    } else {
        let unit = match which {
            "cs" | "ice" => {
                if matches!(cfg.rate_unit, EnergyRateUnit::GallonsDieselPerMile) {
                    EnergyRateUnit::GallonsDieselPerMile
                } else {
                    EnergyRateUnit::GallonsGasolinePerMile
                }
            }
            _ => match cfg.rate_unit {
                EnergyRateUnit::KilowattHoursPerKilometer
                | EnergyRateUnit::KilowattHoursPerMeter
                | EnergyRateUnit::KilowattHoursPerMile => cfg.rate_unit,
                _ => EnergyRateUnit::KilowattHoursPerMile,
            },
        };
        let syn = Synthetic {
            speed_unit: cfg.model_speed_unit,
            grade_unit: cfg.model_grade_unit,
            rate_unit: unit,
            scale: if which == "cs" || which == "ice" {
                0.04
            } else {
                1.0
            },
        };
        let s2 = syn.clone();
        let rec = PredictionModelRecord {
            name: which.to_string(),
            prediction_model: Arc::new(syn.clone()),
            model_type: ModelType::Smartcore,
            speed_unit: cfg.model_speed_unit,
            grade_unit: cfg.model_grade_unit,
            energy_rate_unit: unit,
            ideal_energy_rate: EnergyRate::new(syn.rate_ref(20.0, 0.0) * 0.5),
            real_world_energy_adjustment: cfg.adjustment,
            cache,
        };
        Ok((rec, Box::new(move |mps, dec| s2.rate_ref(mps, dec))))
    }
}

fn build(cfg: &Cfg) -> Result<Built, String> {
    let types = edge_types_for(cfg);
    // the time model's speed table is stored in the time model's speed unit
    let speeds: Vec<Speed> = types
        .iter()
        .map(|(_, kph, _)| {
            Speed::new(
                kph * ru::speed_mps(&SpeedUnit::KilometersPerHour)
                    / ru::speed_mps(&cfg.time_speed_unit),
            )
        })
        .collect();
    let max = speeds.iter().map(|s| s.as_f64()).fold(0.0, f64::max);
    let engine = SpeedTraversalEngine {
        speed_table: speeds.into_boxed_slice(),
        speed_unit: cfg.time_speed_unit,
        time_unit: cfg.time_time_unit,
        distance_unit: cfg.time_distance_unit,
        max_speed: Speed::new(max),
    };
    let grades: Vec<Grade> = types
        .iter()
        .map(|(_, _, g)| Grade::new(g / ru::grade_dec(&cfg.grade_table_unit)))
        .collect();
    let cap = Energy::new(cfg.capacity_kwh);
    let mut lib: HashMap<String, Arc<dyn VehicleType>> = HashMap::new();
    let (rate_a, rate_b, ua, ub, ideal): (
        Box<dyn Fn(f64, f64) -> f64 + Send + Sync>,
        Option<Box<dyn Fn(f64, f64) -> f64 + Send + Sync>>,
        EnergyRateUnit,
        Option<EnergyRateUnit>,
        f64,
    );
    match cfg.vehicle.as_str() {
        "ice" => {
            let (rec, f) = record(cfg, "ice")?;
            ua = rec.energy_rate_unit;
            ideal = rec.ideal_energy_rate.as_f64();
            lib.insert(
                "v".into(),
                Arc::new(ICE::new("v".into(), rec).map_err(|e| e.to_string())?),
            );
            rate_a = f;
            rate_b = None;
            ub = None;
        }
        "bev" => {
            let (rec, f) = record(cfg, "bev")?;
            ua = rec.energy_rate_unit;
            ideal = rec.ideal_energy_rate.as_f64();
            lib.insert(
                "v".into(),
                Arc::new(BEV::new(
                    "v".into(),
                    rec,
                    cap,
                    cap,
                    EnergyUnit::KilowattHours,
                )),
            );
            rate_a = f;
            rate_b = None;
            ub = None;
        }
        _ => {
            let (cd, f) = record(cfg, "cd")?;
            let (cs, g) = record(cfg, "cs")?;
            ua = cd.energy_rate_unit;
            ub = Some(cs.energy_rate_unit);
            ideal = cd.ideal_energy_rate.as_f64();
            lib.insert(
                "v".into(),
                Arc::new(
                    PHEV::new(
                        "v".into(),
                        cs,
                        cd,
                        cap,
                        cap,
                        EnergyUnit::KilowattHours,
                        None,
                    )
                    .map_err(|e| e.to_string())?,
                ),
            );
            rate_a = f;
            rate_b = Some(g);
        }
    }
    let service = EnergyModelService {
        time_model_service: Arc::new(SpeedLookupService {
            e: Arc::new(engine),
        }),
        time_model_speed_unit: cfg.time_speed_unit,
        grade_table: Arc::new(Some(grades.into_boxed_slice())),
        grade_table_grade_unit: cfg.grade_table_unit,
        time_unit: cfg.service_time_unit.unwrap_or(cfg.time_time_unit),
        distance_unit: cfg.out_distance_unit,
        vehicle_library: lib,
    };
    let mut q = json!({"model_name": "v"});
    if !cfg.start_soc.is_null() {
        q["starting_soc_percent"] = cfg.start_soc.clone();
    }
    let model =
        EnergyTraversalModel::new(Arc::new(service), &q).map_err(|e| format!("build: {}", e))?;
    let sm = StateModel::empty()
        .extend(model.state_features())
        .map_err(|e| e.to_string())?;
    Ok(Built {
        model: Arc::new(model),
        sm,
        rate_a,
        rate_b,
        rate_unit_a: ua,
        rate_unit_b: ub,
        ideal_a: ideal,
    })
}

fn energy_unit_factor(from: &EnergyUnit, to: &EnergyUnit) -> f64 {
    // only identical units occur between a rate and its own feature; battery bookkeeping is in kWh
    if from == to {
        1.0
    } else {
        from.convert(&Energy::new(1.0), to).as_f64()
    }
}

pub fn check_history(cfg: &Cfg, b: &Built, hist: &[usize], st: &mut Stats) {
    st.evaluations += 1;
    st.traces += 1;
    let types = edge_types_for(cfg);
    let tol = if cfg.real_model { 2e-2 } else { 3e-3 };
    let case = || json!({"cfg": cfg, "edge_history": hist, "edge_alphabet": if cfg.key_decimals == 0 { "index -> (length m, speed kph, grade) over lengths {100,1000} x speeds {20,60} x grades {-0.15,0,0.06}" } else { "index -> (1000 m, speed kph, grade) over speeds {20,60} x grades {-0.02,-0.01,0,0.01}" }});
    let size = hist.len() as u64 * 100 + hist.iter().sum::<usize>() as u64;
    let comp_base = format!(
        "{}.{}",
        cfg.vehicle,
        if cfg.real_model {
            "real_model"
        } else {
            "synthetic_model"
        }
    );
    let mut state = match b.sm.initial_state() {
        Ok(s) => s,
        Err(e) => {
            st.violation(&comp_base, "initial_state", size, || e.to_string(), case);
            return;
        }
    };
    let name_e = "energy_electric".to_string();
    let name_l = "energy_liquid".to_string();
    let name_s = "battery_state".to_string();
    let has_batt = cfg.vehicle != "ice";
    let start = cfg.start_soc.as_f64().unwrap_or(100.0);
    if has_batt {
        match b.sm.get_custom_f64(&state, &name_s) {
            Ok(s) if close(s, start, 1e-9) => st.pass("charge_starts_at_query_value"),
            other => {
                st.violation(
                    &comp_base,
                    "charge_starts_at_query_value",
                    size,
                    || format!("{:?} want {}", other, start),
                    case,
                );
                return;
            }
        }
    }
    let mut ref_soc = start;
    let mut ref_elec = 0.0; // in kWh
    let mut ref_liq = 0.0; // in the liquid rate's energy unit
                           // magnitudes accumulated so far: tolerances are relative to them, not to a sum that may cancel
    let mut mag_elec = 0.0;
    let mut mag_liq = 0.0;
    for (step, e) in hist.iter().enumerate() {
        st.transitions += 1;
        let (len_m, kph, grade) = types[*e];
        let edge = Edge::new(*e, 0, 1, len_m);
        let (v0, v1) = (Vertex::new(0, 0.0, 0.0), Vertex::new(1, 0.01, 0.0));
        let before = state.clone();
        let r = guarded(|| b.model.traverse_edge((&v0, &edge, &v1), &mut state, &b.sm));
        match r {
            Err(p) => {
                st.violation(&comp_base, "no_panic", size, || p.clone(), case);
                return;
            }
            Ok(Err(e)) => {
                st.violation(
                    &comp_base,
                    "traversal_succeeds",
                    size,
                    || e.to_string(),
                    case,
                );
                return;
            }
            Ok(Ok(())) => {}
        }
        let mps = kph * ru::speed_mps(&SpeedUnit::KilometersPerHour);
        // which model is in force on this edge
        let soc_before = ref_soc;
        let electric_mode = match cfg.vehicle.as_str() {
            "ice" => false,
            "bev" => true,
            _ => {
                if soc_before.abs() < 1e-9 && soc_before != 0.0 {
                    st.skipped_boundary += 1;
                    return;
                }
                soc_before > 0.0
            }
        };
        let (rate, unit) = if cfg.vehicle == "phev" && !electric_mode {
            (
                (b.rate_b.as_ref().unwrap())(mps, grade),
                b.rate_unit_b.unwrap(),
            )
        } else {
            ((b.rate_a)(mps, grade), b.rate_unit_a)
        };
        let dist_in_rate_unit = len_m / ru::distance_m(&ru::rate_distance_unit(&unit));
        let energy = rate * cfg.adjustment * dist_in_rate_unit; // in ru::rate_energy_unit(&unit)
        let comp = format!("{}.step", comp_base);
        // energy features
        if cfg.vehicle == "ice" {
            ref_liq += energy;
            mag_liq += energy.abs();
            let got =
                b.sm.get_energy(&state, &name_l, &ru::rate_energy_unit(&unit))
                    .map(|e| e.as_f64())
                    .unwrap_or(f64::NAN);
            if (got - ref_liq).abs() <= tol * mag_liq + 1e-12 {
                st.pass("energy_is_rate_times_distance_times_adjustment");
            } else {
                st.violation(
                    &comp,
                    "energy_is_rate_times_distance_times_adjustment",
                    size,
                    || {
                        format!(
                            "step {} edge type {}: accumulated liquid energy {} reference {}",
                            step, e, got, ref_liq
                        )
                    },
                    case,
                );
                return;
            }
        } else {
            let d_elec_kwh = if electric_mode {
                energy
                    * energy_unit_factor(&ru::rate_energy_unit(&unit), &EnergyUnit::KilowattHours)
            } else {
                0.0
            };
            ref_elec += d_elec_kwh;
            mag_elec += d_elec_kwh.abs();
            if cfg.vehicle == "phev" && !electric_mode {
                ref_liq += energy;
                mag_liq += energy.abs();
            }
            let got_e =
                b.sm.get_energy(&state, &name_e, &EnergyUnit::KilowattHours)
                    .map(|e| e.as_f64())
                    .unwrap_or(f64::NAN);
            if (got_e - ref_elec).abs() <= tol * mag_elec + 1e-12 {
                st.pass("energy_is_rate_times_distance_times_adjustment");
            } else {
                st.violation(
                    &comp,
                    "energy_is_rate_times_distance_times_adjustment",
                    size,
                    || {
                        format!(
                            "step {} edge type {}: accumulated electric energy {} kWh reference {}",
                            step, e, got_e, ref_elec
                        )
                    },
                    case,
                );
                return;
            }
            if cfg.vehicle == "phev" {
                let lu = ru::rate_energy_unit(&b.rate_unit_b.unwrap());
                let got_l =
                    b.sm.get_energy(&state, &name_l, &lu)
                        .map(|e| e.as_f64())
                        .unwrap_or(f64::NAN);
                if (got_l - ref_liq).abs() <= tol * mag_liq + 1e-12 {
                    st.pass("hybrid_draws_one_energy_source_per_edge");
                } else {
                    st.violation(&comp, "hybrid_draws_one_energy_source_per_edge", size, || format!("step {} (charge at edge start {}): liquid energy {} reference {}; electric {} reference {}", step, soc_before, got_l, ref_liq, got_e, ref_elec), case);
                    return;
                }
            }
            // state of charge
            let unclamped = soc_before - 100.0 * d_elec_kwh / cfg.capacity_kwh;
            ref_soc = unclamped.clamp(0.0, 100.0);
            let got_s = b.sm.get_custom_f64(&state, &name_s).unwrap_or(f64::NAN);
            if !(0.0..=100.0).contains(&got_s) {
                st.violation(
                    &comp,
                    "charge_stays_within_0_100",
                    size,
                    || format!("step {}: {}", step, got_s),
                    case,
                );
                return;
            }
            st.pass("charge_stays_within_0_100");
            if (unclamped - ref_soc).abs() < 1e-9 {
                // not clamped: exact change
                if (got_s - ref_soc).abs()
                    <= tol * (100.0 * d_elec_kwh.abs() / cfg.capacity_kwh) + 1e-7
                {
                    st.pass("unclamped_charge_change_is_exact");
                } else {
                    st.violation(
                        &comp,
                        "unclamped_charge_change_is_exact",
                        size,
                        || {
                            format!(
                                "step {}: charge {} -> {} but -100 x {} kWh / {} kWh gives {}",
                                step, soc_before, got_s, d_elec_kwh, cfg.capacity_kwh, ref_soc
                            )
                        },
                        case,
                    );
                    return;
                }
            } else if (got_s - ref_soc).abs() > 1e-6 {
                st.violation(
                    &comp,
                    "clamped_charge_is_at_bound",
                    size,
                    || format!("step {}: charge {} reference {}", step, got_s, ref_soc),
                    case,
                );
                return;
            }
            // carry the implementation's value forward so that rounding cannot accumulate into a mode flip
            ref_soc = got_s;
        }
        let _ = before;
    }
    st.outcome(&format!(
        "final_soc_{}",
        if !has_batt {
            "n/a".to_string()
        } else if ref_soc <= 0.0 {
            "empty".to_string()
        } else if ref_soc >= 100.0 {
            "full".to_string()
        } else {
            "partial".to_string()
        }
    ));
}

/// best-case energy used to order the search: ideal rate x great-circle distance
fn check_estimate(cfg: &Cfg, b: &Built, st: &mut Stats) {
    st.evaluations += 1;
    st.transitions += 1;
    let case = || json!({"cfg": cfg, "estimate": true});
    let comp = format!("{}.estimate", cfg.vehicle);
    let (v0, v1) = (Vertex::new(0, 0.0, 0.0), Vertex::new(1, 0.02, 0.01));
    let mut state = match b.sm.initial_state() {
        Ok(s) => s,
        Err(_) => return,
    };
    match guarded(|| b.model.estimate_traversal((&v0, &v1), &mut state, &b.sm)) {
        Ok(Ok(())) => {
            let d_m = ru::great_circle_m(0.0, 0.0, 0.02f32 as f64, 0.01f32 as f64);
            let want = b.ideal_a * d_m / ru::distance_m(&ru::rate_distance_unit(&b.rate_unit_a));
            let name = if cfg.vehicle == "ice" {
                "energy_liquid"
            } else {
                "energy_electric"
            }
            .to_string();
            let got =
                b.sm.get_energy(&state, &name, &ru::rate_energy_unit(&b.rate_unit_a))
                    .map(|e| e.as_f64())
                    .unwrap_or(f64::NAN);
            if close(got, want, 3e-3) {
                st.pass("best_case_energy_is_ideal_rate_times_distance");
            } else {
                st.violation(
                    &comp,
                    "best_case_energy_is_ideal_rate_times_distance",
                    0,
                    || format!("estimate {} reference {}", got, want),
                    case,
                );
            }
        }
        Ok(Err(e)) => st.violation(&comp, "estimate_succeeds", 0, || e.to_string(), case),
        Err(p) => st.violation(&comp, "no_panic", 0, || p.clone(), case),
    }
}

fn configs(tier: Tier) -> Vec<Cfg> {
    let mut out = vec![];
    let model_units: Vec<(SpeedUnit, GradeUnit, EnergyRateUnit)> = vec![
        (
            SpeedUnit::MilesPerHour,
            GradeUnit::Decimal,
            EnergyRateUnit::KilowattHoursPerMile,
        ),
        (
            SpeedUnit::KilometersPerHour,
            GradeUnit::Percent,
            EnergyRateUnit::KilowattHoursPerKilometer,
        ),
        (
            SpeedUnit::MetersPerSecond,
            GradeUnit::Millis,
            EnergyRateUnit::KilowattHoursPerMeter,
        ),
        (
            SpeedUnit::MilesPerHour,
            GradeUnit::Percent,
            EnergyRateUnit::GallonsDieselPerMile,
        ),
        (
            SpeedUnit::KilometersPerHour,
            GradeUnit::Decimal,
            EnergyRateUnit::GallonsGasolinePerMile,
        ),
    ];
    let time_units: Vec<(SpeedUnit, DistanceUnit, TimeUnit, DistanceUnit, GradeUnit)> = vec![
        (
            SpeedUnit::KilometersPerHour,
            DistanceUnit::Meters,
            TimeUnit::Seconds,
            DistanceUnit::Meters,
            GradeUnit::Decimal,
        ),
        (
            SpeedUnit::MilesPerHour,
            DistanceUnit::Miles,
            TimeUnit::Minutes,
            DistanceUnit::Miles,
            GradeUnit::Percent,
        ),
        (
            SpeedUnit::MetersPerSecond,
            DistanceUnit::Kilometers,
            TimeUnit::Hours,
            DistanceUnit::Feet,
            GradeUnit::Millis,
        ),
        (
            SpeedUnit::KilometersPerHour,
            DistanceUnit::Feet,
            TimeUnit::Milliseconds,
            DistanceUnit::Kilometers,
            GradeUnit::Percent,
        ),
        (
            SpeedUnit::MilesPerHour,
            DistanceUnit::Inches,
            TimeUnit::Seconds,
            DistanceUnit::Inches,
            GradeUnit::Decimal,
        ),
    ];
    for vehicle in ["ice", "bev", "phev"] {
        for (mi, (msu, mgu, mru)) in model_units.iter().enumerate() {
            for (ti, (tsu, tdu, ttu, odu, gtu)) in time_units.iter().enumerate() {
                if tier == Tier::Quick && (mi + ti) % 3 != 0 {
                    continue;
                }
                for (ci, cap) in [0.05, 60.0].iter().enumerate() {
                    for soc in [json!(0), json!(1), json!(50.0), json!(100)] {
                        if vehicle == "ice" && (ci > 0 || soc != json!(50.0)) {
                            continue;
                        }
                        for (ki, csize) in [0usize, 64, 1, 2].iter().enumerate() {
                            let cache = *csize > 0;
                            if tier == Tier::Quick && cache && (mi + ti + ci + ki) % 3 != 0 {
                                continue;
                            }
                            out.push(Cfg {
                                vehicle: vehicle.into(),
                                model_speed_unit: *msu,
                                model_grade_unit: *mgu,
                                rate_unit: *mru,
                                time_speed_unit: *tsu,
                                time_distance_unit: *tdu,
                                time_time_unit: *ttu,
                                out_distance_unit: *odu,
                                grade_table_unit: *gtu,
                                capacity_kwh: *cap,
                                start_soc: soc.clone(),
                                adjustment: if (mi + ti) % 2 == 0 { 1.0 } else { 1.3958 },
                                cache,
                                cache_size: *csize,
                                // every third configuration: the energy model is configured with another time unit than the time model
                                service_time_unit: if (mi + ti + ci + ki) % 3 == 1 {
                                    Some(
                                        [
                                            TimeUnit::Hours,
                                            TimeUnit::Minutes,
                                            TimeUnit::Seconds,
                                            TimeUnit::Milliseconds,
                                        ][(mi + ki) % 4],
                                    )
                                } else {
                                    None
                                },
                                real_model: false,
                                key_decimals: 0,
                            });
                        }
                    }
                }
            }
        }
        // real bundled models behind the interpolated model
        for cap in [0.3, 60.0] {
            for soc in [json!(2.0), json!(100)] {
                if vehicle == "ice" && (cap > 1.0 || soc != json!(100)) {
                    continue;
                }
                out.push(Cfg {
                    vehicle: vehicle.into(),
                    model_speed_unit: SpeedUnit::MilesPerHour,
                    model_grade_unit: GradeUnit::Decimal,
                    rate_unit: EnergyRateUnit::KilowattHoursPerMile,
                    time_speed_unit: SpeedUnit::KilometersPerHour,
                    time_distance_unit: DistanceUnit::Miles,
                    time_time_unit: TimeUnit::Minutes,
                    out_distance_unit: DistanceUnit::Miles,
                    grade_table_unit: GradeUnit::Decimal,
                    capacity_kwh: cap,
                    start_soc: soc.clone(),
                    adjustment: 1.1,
                    cache: cap > 1.0,
                    cache_size: if soc == json!(100) { 2 } else { 0 },
                    service_time_unit: if cap > 1.0 {
                        Some(TimeUnit::Seconds)
                    } else {
                        None
                    },
                    real_model: true,
                    key_decimals: 0,
                });
            }
        }
    }
    // bundled models declared in units built on different distances (km/h with a rate per mile; for the battery vehicle also
    // mph with a rate per kilometre): the recorded energy follows the declared rate unit's distance
    for (vehicle, su, ru_) in [
        (
            "ice",
            SpeedUnit::KilometersPerHour,
            EnergyRateUnit::KilowattHoursPerMile,
        ),
        (
            "bev",
            SpeedUnit::KilometersPerHour,
            EnergyRateUnit::KilowattHoursPerMile,
        ),
        (
            "phev",
            SpeedUnit::KilometersPerHour,
            EnergyRateUnit::KilowattHoursPerMile,
        ),
        (
            "bev",
            SpeedUnit::MilesPerHour,
            EnergyRateUnit::KilowattHoursPerKilometer,
        ),
        (
            "phev",
            SpeedUnit::MetersPerSecond,
            EnergyRateUnit::KilowattHoursPerKilometer,
        ),
    ] {
        out.push(Cfg {
            vehicle: vehicle.into(),
            model_speed_unit: su,
            model_grade_unit: GradeUnit::Decimal,
            rate_unit: ru_,
            time_speed_unit: SpeedUnit::KilometersPerHour,
            time_distance_unit: DistanceUnit::Kilometers,
            time_time_unit: TimeUnit::Minutes,
            out_distance_unit: DistanceUnit::Kilometers,
            grade_table_unit: GradeUnit::Decimal,
            capacity_kwh: 60.0,
            start_soc: json!(80),
            adjustment: 1.1,
            cache: false,
            cache_size: 0,
            service_time_unit: None,
            real_model: true,
            key_decimals: 0,
        });
    }
    // cache keys with two decimals and grades that are whole key steps around zero (edge types one step apart on either
    // side of flat): synthetic and bundled models, every vehicle type
    for vehicle in ["ice", "bev", "phev"] {
        for real_model in [false, true] {
            for csize in [64usize, 2] {
                out.push(Cfg {
                    vehicle: vehicle.into(),
                    model_speed_unit: SpeedUnit::MilesPerHour,
                    model_grade_unit: GradeUnit::Decimal,
                    rate_unit: EnergyRateUnit::KilowattHoursPerMile,
                    time_speed_unit: SpeedUnit::KilometersPerHour,
                    time_distance_unit: DistanceUnit::Meters,
                    time_time_unit: TimeUnit::Seconds,
                    out_distance_unit: DistanceUnit::Kilometers,
                    grade_table_unit: if csize == 2 {
                        GradeUnit::Percent
                    } else {
                        GradeUnit::Decimal
                    },
                    capacity_kwh: if real_model { 60.0 } else { 5.0 },
                    start_soc: json!(80),
                    adjustment: 1.2,
                    cache: true,
                    cache_size: csize,
                    service_time_unit: None,
                    real_model,
                    key_decimals: 2,
                });
            }
        }
    }
    out
}

fn histories(max_len: usize, alphabet: usize) -> Vec<Vec<usize>> {
    let mut out = vec![];
    let mut layer: Vec<Vec<usize>> = vec![vec![]];
    for _ in 0..max_len {
        let mut next = vec![];
        for h in layer.iter() {
            for e in 0..alphabet {
                let mut h2 = h.clone();
                h2.push(e);
                next.push(h2);
            }
        }
        out.extend(next.iter().cloned());
        layer = next;
    }
    out
}

pub fn run(tier: Tier) -> i32 {
    let info = RunInfo::new("C08", tier);
    let cfgs = configs(tier);
    let n_types = edge_types().len();
    let hists_full = histories(tier.pick(4, 5), n_types);
    let hists_real = histories(2, n_types);
    let hists_fine = histories(3, 8);
    let n = cfgs.len() as u64;
    let mut st = par_blocks(n, 1, |lo, hi, st| {
        for i in lo..hi {
            let cfg = &cfgs[i as usize];
            st.states += 1;
            st.nontrivial += 1;
            let b = match build(cfg) {
                Ok(b) => b,
                Err(e) => {
                    st.violation(
                        &format!("{}.build", cfg.vehicle),
                        "model_builds_for_valid_query",
                        0,
                        || e.clone(),
                        || json!({"cfg": cfg}),
                    );
                    continue;
                }
            };
            let hs = if cfg.key_decimals != 0 {
                &hists_fine
            } else if cfg.real_model {
                &hists_real
            } else {
                &hists_full
            };
            // quick: every history of length <= 2 and a third of the longer ones, rotating with the configuration
            for (hi_, h) in hs.iter().enumerate() {
                if tier == Tier::Quick && h.len() > 2 && (hi_ + i as usize) % 3 != 0 {
                    continue;
                }
                check_history(cfg, &b, h, st);
            }
            check_estimate(cfg, &b, st);
            if i == 3 || i == 200 {
                st.sample(3, || json!({"cfg": cfg, "edge_history": [11, 0, 7]}));
            }
        }
    });
    // starting charges that must be rejected
    for vehicle in ["bev", "phev"] {
        for bad in [
            json!(-1),
            json!(100.5),
            json!("x"),
            json!(-0.0001),
            json!(1e9),
            Value::Null,
        ] {
            st.evaluations += 1;
            st.transitions += 1;
            st.states += 1;
            let cfg = Cfg {
                vehicle: vehicle.into(),
                model_speed_unit: SpeedUnit::MilesPerHour,
                model_grade_unit: GradeUnit::Decimal,
                rate_unit: EnergyRateUnit::KilowattHoursPerMile,
                time_speed_unit: SpeedUnit::KilometersPerHour,
                time_distance_unit: DistanceUnit::Meters,
                time_time_unit: TimeUnit::Seconds,
                out_distance_unit: DistanceUnit::Meters,
                grade_table_unit: GradeUnit::Decimal,
                capacity_kwh: 60.0,
                start_soc: bad.clone(),
                adjustment: 1.0,
                cache: false,
                cache_size: 0,
                service_time_unit: None,
                real_model: false,
                key_decimals: 0,
            };
            // a missing starting charge is an error for the hybrid only (the BEV defaults to full)
            let must_fail = !(bad.is_null() && vehicle == "bev");
            match build(&cfg) {
                Ok(_) if must_fail => st.violation(
                    &format!("{}.build", vehicle),
                    "bad_starting_charge_is_rejected",
                    0,
                    || format!("starting_soc_percent {} accepted", bad),
                    || json!({"cfg": cfg}),
                ),
                Ok(_) => st.pass("missing_charge_defaults_to_full_for_bev"),
                Err(_) if must_fail => st.pass("bad_starting_charge_is_rejected"),
                Err(e) => st.violation(
                    &format!("{}.build", vehicle),
                    "model_builds_for_valid_query",
                    0,
                    || e.clone(),
                    || json!({"cfg": cfg}),
                ),
            }
        }
    }
    finish(
        &info,
        st,
        "state = one powertrain configuration (ICE/BEV/PHEV x prediction-model units x time-model units x output units x battery capacity x starting charge x prediction cache {off, 64, 1, 2 entries; keys of 6 decimals, and of 2 decimals over an edge alphabet whose grades are whole key steps -2,-1,0,1} x energy model's time unit {same as the time model's, different}, synthetic smooth models incl. negative rates downhill, and the bundled Camry/Bolt/Volt models behind the interpolated model, declared as bundled (mph, per mile) and in units built on different distances (km/h or m/s with per mile / per kilometre); their reference is the underlying model read at the four surrounding table points); transition = one traverse_edge of the real EnergyTraversalModel in an edge history (all sequences up to length 4 (quick) / 5 (thorough) over 12 edge types = 2 lengths x 2 speeds x 3 grades); oracle = reference energy and state-of-charge arithmetic with clamp and PHEV mode switch; non-trivial = every configuration",
        true,
        json!({"configurations": n, "edge_types": n_types, "max_history_length": tier.pick(4, 5), "histories": hists_full.len()}),
        vec![
            "tolerance 3e-3 for synthetic models (unit tables), 2e-2 for the bundled models (the speed handed to the model is reconstructed from length / time)".into(),
            "the charge carried forward in the reference is the implementation's own value after each checked step, so rounding cannot flip the PHEV mode".into(),
        ],
    )
}

pub fn replay(case: &Value) -> i32 {
    let cfg: Cfg = match serde_json::from_value(case["cfg"].clone()) {
        Ok(c) => c,
        Err(e) => {
            println!("MACHINERY-ERROR cannot parse cfg: {}", e);
            return 2;
        }
    };
    let hist: Vec<usize> = serde_json::from_value(case["edge_history"].clone()).unwrap_or_default();
    let mut st = Stats::new();
    match build(&cfg) {
        Ok(b) => {
            check_history(&cfg, &b, &hist, &mut st);
            check_estimate(&cfg, &b, &mut st);
        }
        Err(e) => println!("build failed: {}", e),
    }
    for (k, g) in st.violations.iter() {
        println!("REPLAY-VIOLATION {} {}", k, g.detail);
    }
    println!(
        "replay: {} violated clauses; passes {:?}",
        st.violations.len(),
        st.clause_pass
    );
    if st.violations.is_empty() {
        0
    } else {
        1
    }
}
