//! C14 — interpolated powertrain predictions stay faithful to the underlying model; generic interpolators
use crate::engine::{close, finish, guarded, par_blocks, RunInfo, Stats, Tier};
use ndarray::{ArrayD, IxDyn, ShapeBuilder};
use routee_compass_core::model::unit::as_f64::AsF64;
use routee_compass_core::model::unit::*;
use routee_compass_powertrain::routee::prediction::interpolation::interp::{
    Interp1D, Interp2D, Interp3D, InterpND, Interpolator, Strategy,
};
use routee_compass_powertrain::routee::prediction::interpolation::interpolation_speed_grade_model::InterpolationSpeedGradeModel;
use routee_compass_powertrain::routee::prediction::interpolation::utils::linspace;
use routee_compass_powertrain::routee::prediction::model_type::ModelType;
use routee_compass_powertrain::routee::prediction::smartcore::smartcore_speed_grade_model::SmartcoreSpeedGradeModel;
use routee_compass_powertrain::routee::prediction::PredictionModel;
use serde_json::{json, Value};

fn axes() -> Vec<Vec<f64>> {
    // the last two are uneven axes whose first spacing equals their mean spacing (they look even to a test that compares only
    // those two)
    vec![
        vec![0.0, 1.0],
        vec![0.0, 1.0, 2.0],
        vec![0.0, 0.5, 2.0],
        vec![-1.0, 0.0, 0.1, 5.0],
        vec![2.0, 3.0, 4.0, 5.0],
        vec![0.0, 10.0, 12.0, 14.0, 16.0, 50.0],
        vec![0.0, 2.0, 3.0, 4.0, 11.0],
    ]
}

/// reference: multilinear interpolation inside the cell that holds the point (cell found by a linear scan of every axis)
fn ref_interp(grid: &[Vec<f64>], f: &dyn Fn(&[f64]) -> f64, p: &[f64]) -> f64 {
    let n = grid.len();
    let cell: Vec<usize> = (0..n)
        .map(|d| {
            let g = &grid[d];
            let mut i = 0;
            while i + 2 < g.len() && p[d] > g[i + 1] {
                i += 1;
            }
            i
        })
        .collect();
    let mut total = 0.0;
    for corner in 0..(1usize << n) {
        let mut w = 1.0;
        let mut x = vec![0.0; n];
        for d in 0..n {
            let (lo, hi) = (grid[d][cell[d]], grid[d][cell[d] + 1]);
            let t = (p[d] - lo) / (hi - lo);
            if corner >> d & 1 == 1 {
                w *= t;
                x[d] = hi;
            } else {
                w *= 1.0 - t;
                x[d] = lo;
            }
        }
        if w != 0.0 {
            total += w * f(&x);
        }
    }
    total
}

/// query coordinates on one axis: (value, inside?)
fn coords(axis: &[f64]) -> Vec<(f64, bool)> {
    let lo = axis[0];
    let hi = *axis.last().unwrap();
    let mut v: Vec<(f64, bool)> = vec![];
    for k in axis {
        v.push((*k, true));
    }
    for w in axis.windows(2) {
        v.push(((w[0] + w[1]) / 2.0, true));
        v.push((w[0] + (w[1] - w[0]) / 4.0, true));
    }
    v.push((lo - 1e-9, false));
    v.push((hi + 1e-9, false));
    v.push((hi + 100.0, false));
    v.push((lo - 100.0, false));
    v
}

/// multilinear function with coefficient per subset of dimensions; `code` selects coefficients from {0, 1, -2}
fn multilinear(code: u64, x: &[f64]) -> f64 {
    let n = x.len();
    let mut c = code;
    let mut s = 0.0;
    for subset in 0..(1u32 << n) {
        let coef = [0.0, 1.0, -2.0][(c % 3) as usize];
        c /= 3;
        let mut t = coef;
        for i in 0..n {
            if subset >> i & 1 == 1 {
                t *= x[i];
            }
        }
        s += t;
    }
    s
}
fn wiggly(x: &[f64]) -> f64 {
    x.iter()
        .enumerate()
        .map(|(i, v)| (v * (i as f64 + 1.3)).sin() + v * v * 0.1)
        .sum::<f64>()
        + x.iter().product::<f64>()
}

/// the same table of values in two further memory layouts (the values an index addresses are the same; only the order in
/// which the elements lie in memory differs): column-major, and the layout of a table built with its first axis last and
/// then turned round
fn build_layouts(
    grid: &[Vec<f64>],
    f: &dyn Fn(&[f64]) -> f64,
) -> Vec<(&'static str, Interpolator)> {
    let n = grid.len();
    let shape: Vec<usize> = grid.iter().map(|g| g.len()).collect();
    let fill = |values: &mut ArrayD<f64>| {
        for (idx, v) in values.indexed_iter_mut() {
            let x: Vec<f64> = (0..n).map(|i| grid[i][idx[i]]).collect();
            *v = f(&x);
        }
    };
    let mut col = ArrayD::<f64>::zeros(IxDyn(&shape).f());
    fill(&mut col);
    let mut out = vec![(
        "nd_column_major",
        Interpolator::InterpND(InterpND::new(grid.to_vec(), col).expect("InterpND::new")),
    )];
    if n >= 2 {
        let mut rot_shape: Vec<usize> = shape[1..].to_vec();
        rot_shape.push(shape[0]);
        let mut perm: Vec<usize> = vec![n - 1];
        perm.extend(0..n - 1);
        let mut rot = ArrayD::<f64>::zeros(IxDyn(&rot_shape)).permuted_axes(IxDyn(&perm));
        assert_eq!(rot.shape(), &shape[..]);
        fill(&mut rot);
        out.push((
            "nd_first_axis_last_in_memory",
            Interpolator::InterpND(InterpND::new(grid.to_vec(), rot).expect("InterpND::new")),
        ));
    }
    out
}

fn build(grid: &[Vec<f64>], f: &dyn Fn(&[f64]) -> f64) -> (Option<Interpolator>, Interpolator) {
    let n = grid.len();
    let shape: Vec<usize> = grid.iter().map(|g| g.len()).collect();
    let mut values = ArrayD::<f64>::zeros(IxDyn(&shape));
    for (idx, v) in values.indexed_iter_mut() {
        let x: Vec<f64> = (0..n).map(|i| grid[i][idx[i]]).collect();
        *v = f(&x);
    }
    let nd = Interpolator::InterpND(InterpND::new(grid.to_vec(), values).expect("InterpND::new"));
    let fixed = match n {
        1 => Some(Interpolator::Interp1D(
            Interp1D::new(grid[0].clone(), grid[0].iter().map(|x| f(&[*x])).collect())
                .expect("Interp1D"),
        )),
        2 => Some(Interpolator::Interp2D(
            Interp2D::new(
                grid[0].clone(),
                grid[1].clone(),
                grid[0]
                    .iter()
                    .map(|x| grid[1].iter().map(|y| f(&[*x, *y])).collect())
                    .collect(),
            )
            .expect("Interp2D"),
        )),
        3 => Some(Interpolator::Interp3D(
            Interp3D::new(
                grid[0].clone(),
                grid[1].clone(),
                grid[2].clone(),
                grid[0]
                    .iter()
                    .map(|x| {
                        grid[1]
                            .iter()
                            .map(|y| grid[2].iter().map(|z| f(&[*x, *y, *z])).collect())
                            .collect()
                    })
                    .collect(),
            )
            .expect("Interp3D"),
        )),
        _ => None,
    };
    (fixed, nd)
}

fn generic(tier: Tier, st: &mut Stats) {
    let ax = axes();
    for n in 1..=4usize {
        // axis combinations: rotate through the axis alphabet
        let combos: Vec<Vec<usize>> = match n {
            1 => (0..ax.len()).map(|a| vec![a]).collect(),
            2 => (0..ax.len())
                .flat_map(|a| (0..ax.len()).map(move |b| vec![a, b]))
                .collect(),
            3 => (0..ax.len())
                .map(|a| vec![a, (a + 1) % ax.len(), (a + 3) % ax.len()])
                .collect(),
            _ => vec![vec![0, 1, 2, 3], vec![3, 2, 1, 0], vec![2, 2, 0, 4]],
        };
        let n_codes: u64 = 3u64.pow(1 << n);
        let code_step: u64 = match n {
            1 | 2 => 1,
            3 => tier.pick(97, 7),
            _ => tier.pick(1_000_003, 100_003),
        };
        for (ci, combo) in combos.iter().enumerate() {
            let grid: Vec<Vec<f64>> = combo.iter().map(|a| ax[*a].clone()).collect();
            let per_axis: Vec<Vec<(f64, bool)>> = grid.iter().map(|g| coords(g)).collect();
            // all query points: for n <= 2 the full product, beyond that each axis varied against two fixed settings of the others
            let mut points: Vec<(Vec<f64>, bool)> = vec![];
            // the full product of the per-axis coordinates up to three dimensions (and for four in the thorough tier); four
            // dimensions in the quick tier: the product of a reduced list per axis (two knots, a midpoint, a quarter point of
            // another cell, one point outside) - points on a grid line in some dimensions and off it, at different relative
            // positions, in the others are part of every product
            let per_axis: Vec<Vec<(f64, bool)>> = if n == 4 && tier == Tier::Quick {
                per_axis
                    .iter()
                    .zip(grid.iter())
                    .map(|(pa, g)| {
                        let k = g.len();
                        // pa = knots (k), then (midpoint, quarter) per cell, then four outside points
                        vec![
                            pa[0],
                            pa[k - 1],
                            pa[k],
                            pa[(k + 3).min(pa.len() - 5)],
                            pa[pa.len() - 2],
                        ]
                    })
                    .collect()
            } else {
                per_axis
            };
            if n <= 4 {
                let mut idx = vec![0usize; n];
                loop {
                    let p: Vec<f64> = (0..n).map(|i| per_axis[i][idx[i]].0).collect();
                    let inside = (0..n).all(|i| per_axis[i][idx[i]].1);
                    points.push((p, inside));
                    let mut k = 0;
                    while k < n {
                        idx[k] += 1;
                        if idx[k] < per_axis[k].len() {
                            break;
                        }
                        idx[k] = 0;
                        k += 1;
                    }
                    if k == n {
                        break;
                    }
                }
            } else {
                for base in 0..3 {
                    for i in 0..n {
                        for (v, inside) in per_axis[i].iter() {
                            let mut p: Vec<f64> = (0..n)
                                .map(|j| per_axis[j][(base * 2 + j) % grid[j].len()].0)
                                .collect();
                            p[i] = *v;
                            points.push((p, *inside));
                        }
                    }
                }
            }
            let mut code = (ci as u64 * 7) % code_step;
            while code < n_codes {
                st.states += 1;
                st.nontrivial += 1;
                let f = |x: &[f64]| multilinear(code, x);
                let (fixed, nd) = build(&grid, &f);
                let layouts = build_layouts(&grid, &f);
                for (p, inside) in points.iter() {
                    st.evaluations += 1;
                    st.transitions += 1;
                    st.traces += 1;
                    let case = || json!({"kind": "generic", "grid": grid, "coefficient_code": code, "point": p});
                    let want = f(p);
                    let mut its: Vec<(&str, Option<&Interpolator>)> =
                        vec![("fixed", fixed.as_ref()), ("nd", Some(&nd))];
                    its.extend(layouts.iter().map(|(n, i)| (*n, Some(i))));
                    for (name, it) in its {
                        let it = match it {
                            Some(i) => i,
                            None => continue,
                        };
                        let comp = format!("interp{}d.{}", n, name);
                        match guarded(|| it.interpolate(p, &Strategy::Linear)) {
                            Err(pn) => {
                                st.violation(&comp, "no_panic", n as u64, || pn.clone(), case)
                            }
                            Ok(Ok(v)) => {
                                if !*inside {
                                    st.violation(
                                        &comp,
                                        "outside_grid_is_rejected",
                                        n as u64,
                                        || format!("point {:?} outside the grid gave {}", p, v),
                                        case,
                                    );
                                } else if close(v, want, 1e-9) || (v - want).abs() < 1e-9 {
                                    st.pass("reproduces_multilinear_function");
                                } else {
                                    st.violation(
                                        &comp,
                                        "reproduces_multilinear_function",
                                        n as u64,
                                        || {
                                            format!(
                                                "f({:?}) = {} but interpolator gives {}",
                                                p, want, v
                                            )
                                        },
                                        case,
                                    );
                                }
                            }
                            Ok(Err(e)) => {
                                if *inside {
                                    st.violation(
                                        &comp,
                                        "inside_grid_is_accepted",
                                        n as u64,
                                        || e.clone(),
                                        case,
                                    );
                                } else {
                                    st.pass("outside_grid_is_rejected");
                                }
                            }
                        }
                    }
                }
                code += code_step;
            }
            // data that is not multilinear (interpolating in the wrong cell no longer gives the right value): every interpolator
            // against the reference interpolation in the cell that holds the point
            let (fixed, nd) = build(&grid, &wiggly);
            let layouts = build_layouts(&grid, &wiggly);
            for (p, _) in points.iter().filter(|p| p.1) {
                let want = ref_interp(&grid, &wiggly, p);
                let mut its: Vec<(&str, Option<&Interpolator>)> =
                    vec![("fixed", fixed.as_ref()), ("nd", Some(&nd))];
                its.extend(layouts.iter().map(|(n, i)| (*n, Some(i))));
                for (name, it) in its {
                    let it = match it {
                        Some(i) => i,
                        None => continue,
                    };
                    st.evaluations += 1;
                    st.transitions += 1;
                    st.traces += 1;
                    let comp = format!("interp{}d.{}", n, name);
                    let case = || json!({"kind": "generic_agreement", "grid": grid, "point": p});
                    match guarded(|| it.interpolate(p, &Strategy::Linear)) {
                        Ok(Ok(v)) if close(v, want, 1e-9) => {
                            st.pass("interpolates_in_the_cell_that_holds_the_point")
                        }
                        Ok(other) => st.violation(
                            &comp,
                            "interpolates_in_the_cell_that_holds_the_point",
                            n as u64,
                            || {
                                format!(
                                    "at {:?}: {:?}, the cell that holds the point gives {}",
                                    p, other, want
                                )
                            },
                            case,
                        ),
                        Err(pn) => st.violation(&comp, "no_panic", n as u64, || pn.clone(), case),
                    }
                }
            }
            if let Some(fx) = fixed {
                for (p, inside) in points.iter().filter(|p| p.1) {
                    st.evaluations += 1;
                    st.transitions += 1;
                    let _ = inside;
                    let (a, b) = match (
                        guarded(|| fx.interpolate(p, &Strategy::Linear)),
                        guarded(|| nd.interpolate(p, &Strategy::Linear)),
                    ) {
                        (Ok(a), Ok(b)) => (a, b),
                        (a, b) => {
                            let msg = format!("{:?} / {:?}", a.err(), b.err());
                            st.violation(
                                &format!("interp{}d.fixed_vs_nd", n),
                                "no_panic",
                                n as u64,
                                || msg.clone(),
                                || json!({"kind": "generic_agreement", "grid": grid, "point": p}),
                            );
                            continue;
                        }
                    };
                    match (a, b) {
                        (Ok(a), Ok(b)) if close(a, b, 1e-9) => {
                            st.pass("interpolators_agree_on_same_data")
                        }
                        (a, b) => st.violation(
                            &format!("interp{}d.fixed_vs_nd", n),
                            "interpolators_agree_on_same_data",
                            n as u64,
                            || format!("{:?} vs {:?}", a, b),
                            || json!({"kind": "generic_agreement", "grid": grid, "point": p}),
                        ),
                    }
                }
            }
        }
    }
}

fn model_files(tier: Tier) -> Vec<(String, std::path::PathBuf, EnergyRateUnit)> {
    let dir = std::path::Path::new("/repo/python/nrel/routee/compass/resources/models");
    let mut names: Vec<String> = std::fs::read_dir(dir)
        .map(|rd| {
            rd.filter_map(|e| e.ok())
                .map(|e| e.file_name().to_string_lossy().to_string())
                .filter(|n| n.ends_with(".bin"))
                .collect()
        })
        .unwrap_or_default();
    names.sort();
    let pick: Vec<String> = match tier {
        Tier::Thorough => names,
        Tier::Quick => names
            .into_iter()
            .filter(|n| {
                [
                    "2016_TOYOTA_Camry_4cyl_2WD.bin",
                    "2017_CHEVROLET_Bolt.bin",
                    "2016_CHEVROLET_Volt_Charge_Depleting.bin",
                    "2016_CHEVROLET_Volt_Charge_Sustaining.bin",
                    "2020_Chevrolet_Colorado_2WD_Diesel.bin",
                    "2022_Tesla_Model_3_RWD.bin",
                ]
                .contains(&n.as_str())
            })
            .collect(),
    };
    pick.into_iter()
        .map(|n| {
            let electric = n.contains("Bolt")
                || n.contains("Depleting")
                || n.contains("Tesla")
                || n.contains("Leaf")
                || n.contains("EV")
                || n.contains("MiEV")
                || n.contains("Zoe")
                || n.contains("Lightning")
                || n.contains("Recharge")
                || n.contains("i3");
            let unit = if electric {
                EnergyRateUnit::KilowattHoursPerMile
            } else if n.contains("Diesel") || n.contains("TDI") || n.contains("328d") {
                EnergyRateUnit::GallonsDieselPerMile
            } else {
                EnergyRateUnit::GallonsGasolinePerMile
            };
            (n.clone(), dir.join(&n), unit)
        })
        .collect()
}

/// `su`, `gu`, `eru`: the units the model is declared with (the same for the interpolated and the separately loaded
/// underlying model); speed, grade and rate units built on different distance units must not change the comparison
fn check_model(
    name: &str,
    path: &std::path::Path,
    su: SpeedUnit,
    gu: GradeUnit,
    eru: EnergyRateUnit,
    tier: Tier,
    st: &mut Stats,
) {
    let underlying = match SmartcoreSpeedGradeModel::new(&path, su, gu, eru) {
        Ok(m) => m,
        Err(e) => {
            st.violation(
                "harness",
                "load_underlying_model",
                0,
                || e.to_string(),
                || json!({"model": name}),
            );
            return;
        }
    };
    // (speed lo, hi, bins, grade lo, hi, bins)
    // (0..160, 101) and (-0.2..0.2, 21) are grids whose accumulated last knot falls a few ulp short of the nominal bound
    let grids: Vec<(f64, f64, usize, f64, f64, usize)> = tier.pick(
        vec![
            (0.0, 100.0, 101, -0.2, 0.2, 41),
            (10.0, 70.0, 5, -0.1, 0.1, 3),
            (0.0, 160.0, 101, -0.2, 0.2, 21),
        ],
        vec![
            (0.0, 100.0, 101, -0.2, 0.2, 41),
            (10.0, 70.0, 5, -0.1, 0.1, 3),
            (0.0, 160.0, 101, -0.2, 0.2, 21),
            (5.0, 85.0, 9, -0.15, 0.05, 6),
            (20.0, 21.0, 2, 0.0, 0.01, 2),
            (0.0, 0.7, 8, -0.3, 0.3, 7),
            (1.0, 2.0, 11, -0.1, 0.2, 4),
        ],
    );
    for (slo, shi, sb, glo, ghi, gb) in grids {
        st.states += 1;
        st.nontrivial += 1;
        let model = match guarded(|| {
            InterpolationSpeedGradeModel::new(
                &path,
                ModelType::Smartcore,
                name.to_string(),
                su,
                (Speed::new(slo), Speed::new(shi)),
                sb,
                gu,
                (Grade::new(glo), Grade::new(ghi)),
                gb,
                eru,
            )
        }) {
            Ok(Ok(m)) => m,
            Ok(Err(e)) => {
                st.violation(
                    "interpolated_model",
                    "builds",
                    0,
                    || e.to_string(),
                    || json!({"model": name, "grid": [slo, shi, sb as f64, glo, ghi, gb as f64]}),
                );
                continue;
            }
            Err(p) => {
                st.violation(
                    "interpolated_model",
                    "builds_no_panic",
                    0,
                    || p.clone(),
                    || json!({"model": name}),
                );
                continue;
            }
        };
        // the same grid configured through the loader the application uses (ModelType::Interpolate): it must be the same model
        // as the directly constructed one (speed and grade bin counts differ in most grids, so a mix-up shows)
        let mt = ModelType::Interpolate {
            underlying_model_type: Box::new(ModelType::Smartcore),
            speed_lower_bound: Speed::new(slo),
            speed_upper_bound: Speed::new(shi),
            speed_bins: sb,
            grade_lower_bound: Grade::new(glo),
            grade_upper_bound: Grade::new(ghi),
            grade_bins: gb,
        };
        let loaded = match guarded(|| {
            routee_compass_powertrain::routee::prediction::load_prediction_model(
                name.to_string(),
                &path,
                mt.clone(),
                su,
                gu,
                eru,
                Some(EnergyRate::new(0.02)),
                Some(1.0),
                None,
            )
            .map_err(|e| e.to_string())
        }) {
            Ok(Ok(r)) => Some(r),
            Ok(Err(e)) => {
                st.violation("interpolated_model.loader", "builds", 0, || e.clone(), || json!({"kind": "model", "model": name, "grid": [slo, shi, sb as f64, glo, ghi, gb as f64]}));
                None
            }
            Err(p) => {
                st.violation(
                    "interpolated_model.loader",
                    "builds_no_panic",
                    0,
                    || p.clone(),
                    || json!({"kind": "model", "model": name}),
                );
                None
            }
        };
        if let Some(rec) = &loaded {
            let sxx = linspace(slo, shi, sb);
            let gxx = linspace(glo, ghi, gb);
            let mut all_same = true;
            for (i, s) in sxx.iter().enumerate().step_by((sb / 7).max(1)) {
                for (j, g) in gxx.iter().enumerate().step_by((gb / 5).max(1)) {
                    // grid points and cell centres
                    for (ds, dg) in [(0.0, 0.0), (0.5, 0.5)] {
                        if (ds > 0.0) && (i + 1 >= sb || j + 1 >= gb) {
                            continue;
                        }
                        let (sq, gq) = if ds > 0.0 {
                            (s + (sxx[i + 1] - s) * ds, g + (gxx[j + 1] - g) * dg)
                        } else {
                            (*s, *g)
                        };
                        st.evaluations += 1;
                        st.transitions += 2;
                        let a = model
                            .predict((Speed::new(sq), su), (Grade::new(gq), gu))
                            .map(|r| r.0.as_f64())
                            .unwrap_or(f64::NAN);
                        let b = rec
                            .prediction_model
                            .predict((Speed::new(sq), su), (Grade::new(gq), gu))
                            .map(|r| r.0.as_f64())
                            .unwrap_or(f64::NAN);
                        if !close(a, b, 1e-9) {
                            all_same = false;
                            st.violation("interpolated_model.loader", "loaded_model_is_the_configured_model", (i * 100 + j) as u64, || format!("at ({}, {}): constructed directly {} loaded through load_prediction_model {}", sq, gq, a, b), || json!({"kind": "model", "model": name, "grid": [slo, shi, sb as f64, glo, ghi, gb as f64], "declared_units": [su.to_string(), gu.to_string(), eru.to_string()], "speed": sq, "grade": gq}));
                        }
                    }
                }
            }
            if all_same {
                st.pass("loaded_model_is_the_configured_model");
            }
        }
        let sx = linspace(slo, shi, sb);
        let gx = linspace(glo, ghi, gb);
        let under = |s: f64, g: f64| {
            underlying
                .predict((Speed::new(s), su), (Grade::new(g), gu))
                .map(|r| r.0.as_f64())
                .unwrap_or(f64::NAN)
        };
        let interp = |s: f64, g: f64| {
            guarded(|| {
                model
                    .predict((Speed::new(s), su), (Grade::new(g), gu))
                    .map(|r| r.0.as_f64())
                    .map_err(|e| e.to_string())
            })
        };
        // corner values of the underlying model on the grid (computed lazily per cell)
        let cells_s: Vec<usize> = if sb > 12 && tier == Tier::Quick {
            vec![0, 1, sb / 6, sb / 2, sb - 3, sb - 2]
        } else {
            (0..sb - 1).collect()
        };
        let cells_g: Vec<usize> = if gb > 12 && tier == Tier::Quick {
            vec![0, 1, gb / 2, gb - 3, gb - 2]
        } else {
            (0..gb - 1).collect()
        };
        let grid_desc = json!([slo, shi, sb, glo, ghi, gb]);
        for ci in cells_s.iter() {
            for cj in cells_g.iter() {
                let (s0, s1, g0, g1) = (sx[*ci], sx[*ci + 1], gx[*cj], gx[*cj + 1]);
                let corners = [under(s0, g0), under(s0, g1), under(s1, g0), under(s1, g1)];
                let cmin = corners.iter().cloned().fold(f64::INFINITY, f64::min);
                let cmax = corners.iter().cloned().fold(f64::NEG_INFINITY, f64::max);
                let slack = 1e-9 * (cmax.abs().max(cmin.abs()) + 1.0);
                // lattice inside the cell: corners, centre, edge midpoints, quarter points
                let fr = [0.0, 0.25, 0.5, 1.0];
                for fs in fr {
                    for fg in fr {
                        st.evaluations += 1;
                        st.transitions += 1;
                        st.traces += 1;
                        let s = if fs == 1.0 { s1 } else { s0 + (s1 - s0) * fs };
                        let g = if fg == 1.0 { g1 } else { g0 + (g1 - g0) * fg };
                        let case = || json!({"kind": "model", "model": name, "grid": grid_desc, "declared_units": [su.to_string(), gu.to_string(), eru.to_string()], "speed": s, "grade": g});
                        let size = (*ci * 100 + *cj) as u64;
                        match interp(s, g) {
                            Err(p) => st.violation(
                                "interpolated_model",
                                "no_panic",
                                size,
                                || p.clone(),
                                case,
                            ),
                            Ok(Err(e)) => st.violation(
                                "interpolated_model",
                                "predicts_inside_grid",
                                size,
                                || e.clone(),
                                case,
                            ),
                            Ok(Ok(v)) => {
                                if v >= cmin - slack && v <= cmax + slack {
                                    st.pass("between_surrounding_grid_values");
                                } else {
                                    st.violation("interpolated_model", "between_surrounding_grid_values", size, || format!("prediction {} outside [{}, {}] of the four surrounding underlying-model values", v, cmin, cmax), case);
                                }
                                if (fs == 0.0 || fs == 1.0) && (fg == 0.0 || fg == 1.0) {
                                    let u = under(s, g);
                                    if close(v, u, 1e-9) {
                                        st.pass("equals_underlying_model_at_grid_points");
                                    } else {
                                        st.violation("interpolated_model", "equals_underlying_model_at_grid_points", size, || format!("grid point ({}, {}): interpolated {} underlying {}", s, g, v, u), case);
                                    }
                                }
                            }
                        }
                    }
                }
                // continuity across the cell borders: +-1e-7 around the upper grid lines of this cell
                let eps_s = 1e-7;
                let eps_g = 1e-9;
                let lip = (cmax - cmin).abs();
                for (a, b, what) in [
                    (
                        (s1 - eps_s, g0 + (g1 - g0) * 0.3),
                        (s1 + eps_s, g0 + (g1 - g0) * 0.3),
                        "speed_line",
                    ),
                    (
                        (s0 + (s1 - s0) * 0.3, g1 - eps_g),
                        (s0 + (s1 - s0) * 0.3, g1 + eps_g),
                        "grade_line",
                    ),
                ] {
                    st.evaluations += 1;
                    st.transitions += 2;
                    if let (Ok(Ok(va)), Ok(Ok(vb))) = (interp(a.0, a.1), interp(b.0, b.1)) {
                        // the neighbouring cell may be steeper: allow the larger of both cells' ranges per cell width
                        let bound = 10.0
                            * (lip + 1e-3)
                            * (2.0 * eps_s / (s1 - s0)).max(2.0 * eps_g / (g1 - g0))
                            + 1e-9 * (1.0 + va.abs());
                        let neighbour_range = {
                            let (ns0, ns1, ng0, ng1) = if what == "speed_line" && *ci + 2 < sb {
                                (sx[*ci + 1], sx[*ci + 2], g0, g1)
                            } else if what == "grade_line" && *cj + 2 < gb {
                                (s0, s1, gx[*cj + 1], gx[*cj + 2])
                            } else {
                                (s0, s1, g0, g1)
                            };
                            let c = [
                                under(ns0, ng0),
                                under(ns0, ng1),
                                under(ns1, ng0),
                                under(ns1, ng1),
                            ];
                            c.iter().cloned().fold(f64::NEG_INFINITY, f64::max)
                                - c.iter().cloned().fold(f64::INFINITY, f64::min)
                        };
                        let bound = bound
                            + 10.0
                                * neighbour_range
                                * (2.0 * eps_s / (s1 - s0)).max(2.0 * eps_g / (g1 - g0));
                        if (va - vb).abs() <= bound {
                            st.pass("continuous_across_cell_borders");
                        } else {
                            st.violation("interpolated_model", "continuous_across_cell_borders", 0, || format!("{}: f{:?} = {} but f{:?} = {} (allowed jump {})", what, a, va, b, vb, bound), || json!({"kind": "model", "model": name, "grid": grid_desc, "a": [a.0, a.1], "b": [b.0, b.1]}));
                        }
                    }
                }
            }
        }
        // outside the grid = value at the nearest boundary point, never an error
        let s_last = *sx.last().unwrap();
        let g_last = *gx.last().unwrap();
        for (s, g, cs, cg) in [
            (
                slo - 5.0,
                glo + (ghi - glo) * 0.4,
                sx[0],
                glo + (ghi - glo) * 0.4,
            ),
            (
                shi + 25.0,
                glo + (ghi - glo) * 0.4,
                s_last,
                glo + (ghi - glo) * 0.4,
            ),
            (
                slo + (shi - slo) * 0.3,
                glo - 0.5,
                slo + (shi - slo) * 0.3,
                gx[0],
            ),
            (
                slo + (shi - slo) * 0.3,
                ghi + 0.5,
                slo + (shi - slo) * 0.3,
                g_last,
            ),
            (slo - 1e-9, glo - 1e-12, sx[0], gx[0]),
            (shi + 1e-9, ghi + 1e-12, s_last, g_last),
            (shi + 1000.0, ghi + 10.0, s_last, g_last),
        ] {
            st.evaluations += 1;
            st.transitions += 2;
            st.traces += 1;
            let case = || json!({"kind": "model_outside", "model": name, "grid": grid_desc, "declared_units": [su.to_string(), gu.to_string(), eru.to_string()], "speed": s, "grade": g});
            match (interp(s, g), interp(cs, cg)) {
                (Ok(Ok(v)), Ok(Ok(c))) => {
                    if close(v, c, 1e-9) {
                        st.pass("outside_grid_is_nearest_boundary");
                    } else {
                        st.violation(
                            "interpolated_model",
                            "outside_grid_is_nearest_boundary",
                            0,
                            || {
                                format!(
                                    "f({}, {}) = {} but at the clamped point ({}, {}) = {}",
                                    s, g, v, cs, cg, c
                                )
                            },
                            case,
                        );
                    }
                }
                (a, b) => st.violation(
                    "interpolated_model",
                    "outside_grid_does_not_fail",
                    0,
                    || format!("{:?} / {:?}", a, b),
                    case,
                ),
            }
        }
        // inputs that are not finite numbers: an infinite speed or grade is the boundary on that side, and a NaN (a gap in a
        // grade table parses as one) is outside the grid like any other value that is not inside it - it gets the value of some
        // boundary point, never an error
        {
            let (ms, mg) = (slo + (shi - slo) * 0.3, glo + (ghi - glo) * 0.4);
            let inf = f64::INFINITY;
            for (s, g, clamped) in [
                (inf, mg, Some((s_last, mg))),
                (-inf, mg, Some((sx[0], mg))),
                (ms, inf, Some((ms, g_last))),
                (ms, -inf, Some((ms, gx[0]))),
                (inf, -inf, Some((s_last, gx[0]))),
                (f64::NAN, mg, None),
                (ms, f64::NAN, None),
                (f64::NAN, f64::NAN, None),
            ] {
                st.evaluations += 1;
                st.transitions += 1;
                st.traces += 1;
                let case = || json!({"kind": "model_outside", "model": name, "grid": grid_desc, "declared_units": [su.to_string(), gu.to_string(), eru.to_string()], "speed": format!("{}", s), "grade": format!("{}", g)});
                match (interp(s, g), clamped.map(|(cs, cg)| interp(cs, cg))) {
                    (Ok(Ok(v)), Some(Ok(Ok(c)))) => {
                        if close(v, c, 1e-9) {
                            st.pass("infinite_input_is_the_boundary");
                        } else {
                            st.violation(
                                "interpolated_model.non_finite_input",
                                "outside_grid_is_nearest_boundary",
                                0,
                                || {
                                    format!(
                                        "f({}, {}) = {} but at the boundary point {:?} = {}",
                                        s, g, v, clamped, c
                                    )
                                },
                                case,
                            );
                        }
                    }
                    (Ok(Ok(v)), None) if v.is_finite() => st.pass("nan_input_does_not_fail"),
                    (a, _) => st.violation(
                        "interpolated_model.non_finite_input",
                        "outside_grid_does_not_fail",
                        0,
                        || format!("f({}, {}) -> {:?}", s, g, a),
                        case,
                    ),
                }
            }
        }
        // every speed / grade input unit: cell centres expressed in another unit stay within the surrounding corner values
        let centre_s: Vec<usize> = if sb > 12 {
            vec![3, sb / 2 - 3, sb - 4]
        } else {
            (0..sb - 1).collect()
        };
        let centre_g: Vec<usize> = if gb > 12 {
            vec![2, gb / 2 + 2, gb - 4]
        } else {
            (0..gb - 1).collect()
        };
        for isu in crate::refmodel::units::SPEED_UNITS.iter() {
            for igu in crate::refmodel::units::GRADE_UNITS.iter() {
                for ci in centre_s.iter() {
                    for cj in centre_g.iter() {
                        st.evaluations += 1;
                        st.transitions += 1;
                        st.traces += 1;
                        let (s0, s1, g0, g1) = (sx[*ci], sx[*ci + 1], gx[*cj], gx[*cj + 1]);
                        let (s, g) = ((s0 + s1) / 2.0, (g0 + g1) / 2.0);
                        // the same physical point expressed in the input unit (physical factors)
                        let s_in = crate::refmodel::units::speed(s, &su, isu);
                        let g_in = g * crate::refmodel::units::grade_dec(&gu)
                            / crate::refmodel::units::grade_dec(igu);
                        let corners = [under(s0, g0), under(s0, g1), under(s1, g0), under(s1, g1)];
                        let cmin = corners.iter().cloned().fold(f64::INFINITY, f64::min);
                        let cmax = corners.iter().cloned().fold(f64::NEG_INFINITY, f64::max);
                        let slack = 1e-9 * (cmax.abs().max(cmin.abs()) + 1.0);
                        let case = || json!({"kind": "model_units", "model": name, "grid": grid_desc, "speed": s_in, "speed_unit": isu.to_string(), "grade": g_in, "grade_unit": igu.to_string()});
                        match guarded(|| {
                            model
                                .predict((Speed::new(s_in), *isu), (Grade::new(g_in), *igu))
                                .map(|r| r.0.as_f64())
                                .map_err(|e| e.to_string())
                        }) {
                            Ok(Ok(v)) => {
                                if v >= cmin - slack && v <= cmax + slack {
                                    st.pass("input_units_are_converted");
                                } else {
                                    st.violation(
                                        "interpolated_model.input_units",
                                        "between_surrounding_grid_values",
                                        0,
                                        || {
                                            format!(
                                                "{} {} / {} {}: prediction {} outside [{}, {}]",
                                                s_in, isu, g_in, igu, v, cmin, cmax
                                            )
                                        },
                                        case,
                                    );
                                }
                            }
                            other => st.violation(
                                "interpolated_model.input_units",
                                "predicts",
                                0,
                                || format!("{:?}", other),
                                case,
                            ),
                        }
                    }
                }
            }
        }
    }
}

pub fn run(tier: Tier) -> i32 {
    let info = RunInfo::new("C14", tier);
    let mut st = Stats::new();
    generic(tier, &mut st);
    st.sample(2, || json!({"kind": "generic", "grid": [[0.0, 0.5, 2.0], [-1.0, 0.0, 0.1, 5.0]], "coefficient_code": 47, "point": [0.25, 5.000000001]}));
    let models = model_files(tier);
    let nm = models.len() as u64;
    let mst = par_blocks(nm, 1, |lo, hi, st| {
        for i in lo..hi {
            let (name, path, eru) = &models[i as usize];
            // declared units: the bundled configuration (mph, decimal, per mile) and combinations whose speed and rate units
            // are built on different distance units; quick: the bundled one plus one other, rotating with the model
            let declared = [
                (SpeedUnit::MilesPerHour, GradeUnit::Decimal, *eru),
                (SpeedUnit::KilometersPerHour, GradeUnit::Decimal, *eru),
                (
                    SpeedUnit::MilesPerHour,
                    GradeUnit::Percent,
                    EnergyRateUnit::KilowattHoursPerKilometer,
                ),
                (
                    SpeedUnit::MetersPerSecond,
                    GradeUnit::Decimal,
                    EnergyRateUnit::KilowattHoursPerMeter,
                ),
            ];
            for (di, (su, gu, eru)) in declared.iter().enumerate() {
                if tier == Tier::Quick && di != 0 && di != 1 + (i as usize % 3) {
                    continue;
                }
                check_model(name, path, *su, *gu, *eru, tier, st);
            }
            st.sample(2, || json!({"kind": "model", "model": name, "grids": tier.pick(2, 4), "lattice": "corners, centre, quarter points and edge midpoints of the selected cells; +-1e-7 around grid lines; beyond each bound; 3x3 input units"}));
        }
    });
    st.merge(mst);
    finish(
        &info,
        st,
        "(a) state = one grid (uniform and non-uniform axes with 2-4 knots, dimensions 1,2,3 and N=2,3,4) with one multilinear data set (coefficients {0,1,-2} per monomial); transition = one interpolation at a lattice point (every knot, midpoints, quarter points, bounds, bounds +-1e-9, far outside) through the fixed-dimension and the N-D interpolator; (b) state = one bundled vehicle model x one grid; transition = one prediction of the interpolated model compared with the separately loaded underlying random forest at the repository's own linspace grid points; non-trivial = every state (all grids have >= 1 cell)",
        true,
        json!({"bundled_models": nm, "generic_dimensions": [1, 2, 3, 4]}),
        vec![
            "underlying model loaded separately with the same declared units (the bundled mph / decimal / per-mile declaration and three declarations whose speed and rate units are built on different distance units); grid coordinates come from the repository's linspace so both sides see bit-identical inputs".into(),
            "energy-rate unit per model is assigned by name (electric / diesel / gasoline); it does not influence the comparison".into(),
        ],
    )
}

pub fn replay(case: &Value) -> i32 {
    // generic cases: the whole generic part is run again (it takes about a second and contains the recorded grid and point);
    // model cases: the recorded model is run again under every unit declaration and every grid
    let c = if case.get("case").is_some() {
        &case["case"]
    } else {
        case
    };
    let mut st = Stats::new();
    match c["kind"].as_str() {
        Some(k) if k.starts_with("model") => {
            let name = c["model"].as_str().unwrap_or("");
            match model_files(Tier::Thorough)
                .into_iter()
                .find(|m| m.0 == name)
            {
                None => {
                    println!("MACHINERY-ERROR model {} not found", name);
                    return 2;
                }
                Some((name, path, eru)) => {
                    for (su, gu, eru) in [
                        (SpeedUnit::MilesPerHour, GradeUnit::Decimal, eru),
                        (SpeedUnit::KilometersPerHour, GradeUnit::Decimal, eru),
                        (
                            SpeedUnit::MilesPerHour,
                            GradeUnit::Percent,
                            EnergyRateUnit::KilowattHoursPerKilometer,
                        ),
                        (
                            SpeedUnit::MetersPerSecond,
                            GradeUnit::Decimal,
                            EnergyRateUnit::KilowattHoursPerMeter,
                        ),
                    ] {
                        check_model(&name, &path, su, gu, eru, Tier::Thorough, &mut st);
                    }
                }
            }
        }
        Some(_) => generic(Tier::Thorough, &mut st),
        None => {
            println!("C14 replay: unknown kind of case; re-running the quick tier");
            return run(Tier::Quick);
        }
    }
    for (k, g) in st.violations.iter() {
        println!("REPLAY-VIOLATION {} ({} cases) {}", k, g.count, g.detail);
    }
    println!(
        "replay: {} violated clauses over {} evaluations",
        st.violations.len(),
        st.evaluations
    );
    if st.violations.is_empty() {
        0
    } else {
        1
    }
}
