//! C03 — reported state and costs along a route are the true sums over its edges
use crate::engine::{finish, RunInfo, Stats, Tier};
use crate::props::search_common::*;
use crate::world::net::{par_enumerate, GenSpec, LenMode, Net};
use crate::world::sw::{Rate, Trav, TurnCfg, World};
use routee_compass_core::model::unit::*;
use serde_json::{json, Value};

pub fn worlds(net: &Net, tier: Tier, idx: u64) -> Vec<World> {
    let m = net.m();
    if m == 0 {
        return vec![];
    }
    let mut out = vec![];
    let k = idx as usize;
    let speeds: Vec<f64> = (0..m).map(|e| [10.0, 30.0, 60.0][(e + k) % 3]).collect();
    let hs = [0i16, 90, 180, 270, 350, 45, 200];
    // heading tables (start heading, end heading) per edge, three patterns rotating with the net: all different starts;
    // starts from two values only (consecutive edges often enter with the same heading they were entered with);
    // one start heading for every edge, straight and curved edges alternating; on every other block of nine nets two
    // thirds of the edges have no end heading (such an edge ends with the heading it starts with)
    let headings: Vec<(i16, i16)> = (0..m)
        .map(|e| match (k / 3) % 3 {
            0 => (hs[(e * 3 + k) % 7], hs[(e * 5 + k / 7 + 1) % 7]),
            1 => ([0i16, 90][(e + k) % 2], hs[(e * 5 + k / 7 + 1) % 7]),
            _ => (
                180,
                if e % 2 == 0 {
                    180
                } else {
                    hs[(e * 5 + k / 7 + 1) % 7]
                },
            ),
        })
        .collect();
    let delays = [0.25, 0.5, 1.0, 1.5, 2.0, 2.5, 3.0, 9.5];
    // (speed unit, model distance unit, model time unit, feature distance unit, feature time unit, delay unit)
    let units: Vec<(
        SpeedUnit,
        DistanceUnit,
        TimeUnit,
        DistanceUnit,
        TimeUnit,
        TimeUnit,
    )> = vec![
        (
            SpeedUnit::KilometersPerHour,
            DistanceUnit::Meters,
            TimeUnit::Seconds,
            DistanceUnit::Meters,
            TimeUnit::Seconds,
            TimeUnit::Seconds,
        ),
        (
            SpeedUnit::MilesPerHour,
            DistanceUnit::Meters,
            TimeUnit::Seconds,
            DistanceUnit::Meters,
            TimeUnit::Seconds,
            TimeUnit::Seconds,
        ),
        (
            SpeedUnit::KilometersPerHour,
            DistanceUnit::Kilometers,
            TimeUnit::Minutes,
            DistanceUnit::Kilometers,
            TimeUnit::Minutes,
            TimeUnit::Seconds,
        ),
        (
            SpeedUnit::MilesPerHour,
            DistanceUnit::Miles,
            TimeUnit::Hours,
            DistanceUnit::Feet,
            TimeUnit::Milliseconds,
            TimeUnit::Minutes,
        ),
        (
            SpeedUnit::MetersPerSecond,
            DistanceUnit::Feet,
            TimeUnit::Milliseconds,
            DistanceUnit::Miles,
            TimeUnit::Hours,
            TimeUnit::Hours,
        ),
        (
            SpeedUnit::KilometersPerHour,
            DistanceUnit::Inches,
            TimeUnit::Seconds,
            DistanceUnit::Kilometers,
            TimeUnit::Seconds,
            TimeUnit::Milliseconds,
        ),
        (
            SpeedUnit::MetersPerSecond,
            DistanceUnit::Meters,
            TimeUnit::Hours,
            DistanceUnit::Inches,
            TimeUnit::Minutes,
            TimeUnit::Seconds,
        ),
    ];
    let full = tier == Tier::Thorough;
    for (ui, (su, du, tu, fdu, ftu, delu)) in units.iter().enumerate() {
        for (ii, (id, it)) in [(0.0, 0.0), (12.5, 3.25)].iter().enumerate() {
            for (wi, (wd, wt, rd, rt)) in [
                (0.0, 1.0, Rate::Raw, Rate::Raw),
                (1.0, 1.0, Rate::Factor(0.5), Rate::Factor(2.0)),
                (1.0, 0.0, Rate::Raw, Rate::Raw),
                (
                    0.5,
                    2.0,
                    Rate::Combined(vec![Rate::Factor(0.01), Rate::Offset(1.5)]),
                    Rate::Offset(30.0),
                ),
            ]
            .iter()
            .enumerate()
            {
                for turn_on in [true, false] {
                    if !full && (ui * 3 + ii * 2 + wi + turn_on as usize + k) % 12 != 0 {
                        continue;
                    }
                    out.push(World {
                        net: net.clone(),
                        trav: Trav::Speed {
                            speed_unit: *su,
                            dist_unit: *du,
                            time_unit: *tu,
                            speeds: speeds.clone(),
                        },
                        feat_dist_unit: *fdu,
                        feat_time_unit: *ftu,
                        init_dist: *id,
                        init_time: *it,
                        turn: if turn_on {
                            Some(TurnCfg {
                                headings: headings.clone(),
                                delays,
                                unit: *delu,
                                blank_departure: (0..m)
                                    .map(|e| (k / 9) % 2 == 1 && (e + k) % 3 != 1)
                                    .collect(),
                                no_departure_column: false,
                            })
                        } else {
                            None
                        },
                        w_dist: *wd,
                        w_time: *wt,
                        r_dist: rd.clone(),
                        r_time: rt.clone(),
                        surcharge: if (k + ui) % 3 == 0 {
                            vec![(0, 2.5)]
                        } else {
                            vec![]
                        },
                        turn_surcharge: vec![],
                        mul: false,
                        term: crate::world::sw::Term::Unlimited,
                    });
                }
            }
        }
    }
    // distance-only worlds in three unit pairs
    for (ui, (mu, fu)) in [
        (DistanceUnit::Meters, DistanceUnit::Meters),
        (DistanceUnit::Kilometers, DistanceUnit::Miles),
        (DistanceUnit::Feet, DistanceUnit::Inches),
    ]
    .iter()
    .enumerate()
    {
        if !full && (ui + k) % 3 != 0 {
            continue;
        }
        let mut w = World::distance(net.clone());
        w.trav = Trav::Distance { model_unit: *mu };
        w.feat_dist_unit = *fu;
        w.init_dist = if k % 2 == 0 { 0.0 } else { 100.0 };
        // the product aggregation: with one feature the product has a single factor, so every edge costs what it costs under
        // the sum (with and without a surcharge on the first edge)
        if full || (ui + k) % 2 == 0 {
            let mut wm = w.clone();
            wm.mul = true;
            wm.w_dist = if k % 3 == 0 { 2.0 } else { 1.0 };
            wm.surcharge = if k % 2 == 0 { vec![(0, 2.5)] } else { vec![] };
            out.push(wm);
        }
        out.push(w);
    }
    // the product aggregation over two features (no turn model, no surcharge): each edge costs the product of its weighted,
    // rated changes of distance and time
    for (ui, (su, du, tu, fdu, ftu, _)) in units.iter().enumerate() {
        for (wi, (wd, wt, rd, rt)) in [
            (1.0, 1.0, Rate::Raw, Rate::Raw),
            (0.5, 2.0, Rate::Factor(0.5), Rate::Factor(2.0)),
        ]
        .iter()
        .enumerate()
        {
            if !(ui == 0 || ui == 3) || (!full && (ui + wi + k) % 4 != 0) {
                continue;
            }
            out.push(World {
                net: net.clone(),
                trav: Trav::Speed {
                    speed_unit: *su,
                    dist_unit: *du,
                    time_unit: *tu,
                    speeds: speeds.clone(),
                },
                feat_dist_unit: *fdu,
                feat_time_unit: *ftu,
                init_dist: 0.0,
                init_time: 0.0,
                turn: None,
                w_dist: *wd,
                w_time: *wt,
                r_dist: rd.clone(),
                r_time: rt.clone(),
                surcharge: vec![],
                turn_surcharge: vec![],
                mul: true,
                term: crate::world::sw::Term::Unlimited,
            });
        }
    }
    out
}

pub fn check_case(w: &World, algo: &Algo, orient: &Orient, reverse: bool, st: &mut Stats) {
    st.evaluations += 1;
    st.transitions += 1;
    st.traces += 1;
    let net = &w.net;
    let si = match w.si() {
        Ok(si) => si,
        Err(e) => {
            st.violation(
                "harness",
                "si_build",
                0,
                || e.clone(),
                || json!({"world": w}),
            );
            return;
        }
    };
    let out = run_search(&si, algo, orient, reverse, &json!({}));
    st.outcome(out.kind());
    let size = net.size();
    let case = || case_json(w, algo, orient, reverse, Value::Null);
    let unit_mode = if w.tol() < 1e-6 {
        "base_units"
    } else {
        "mixed_units"
    };
    match &out {
        Outcome::Panic(p) => st.violation(&algo.component(), "no_panic", size, || p.clone(), case),
        Outcome::OtherErr(e) => st.violation(
            &algo.component(),
            "no_internal_error",
            size,
            || e.clone(),
            case,
        ),
        Outcome::Ok { routes, .. } => {
            for (ri, r) in routes.iter().enumerate() {
                if r.is_empty() {
                    continue;
                }
                if r.len() >= 2 {
                    st.nontrivial += 1;
                }
                let part = if algo.is_ksp() && ri > 0 {
                    "alternative"
                } else {
                    "best"
                };
                let comp = format!(
                    "{}.{}.{}.{}.{}{}",
                    algo.component(),
                    if matches!(orient, Orient::Vertex { .. }) {
                        "vertex"
                    } else {
                        "edge"
                    },
                    if reverse { "reverse" } else { "forward" },
                    part,
                    unit_mode,
                    if w.turn.is_some() { ".turn_delays" } else { "" }
                );
                let bad = route_accumulation(w, r, orient, reverse);
                if bad.is_empty() {
                    st.pass("route_accumulates_true_sums");
                }
                for (c, d) in bad {
                    st.violation(
                        &comp,
                        c,
                        size + r.len() as u64,
                        || format!("route #{} {:?}: {}", ri, route_ids(r), d),
                        case,
                    );
                }
            }
        }
        _ => {}
    }
}

pub fn algos(tier: Tier) -> Vec<Algo> {
    let mut v = vec![
        Algo::Dijkstra,
        Algo::AStar(Some(1.0)),
        Algo::SingleVia {
            k: 3,
            under: Box::new(Algo::Dijkstra),
            sim: Some(Sim::EdgeCos(0.99)),
            term: None,
        },
        // an inadmissible estimate: vertices are reached again over cheaper ways after they were expanded (fix 149ab43 was
        // found under factor 10 in the thorough tier only)
        Algo::AStar(Some(10.0)),
    ];
    if tier == Tier::Thorough {
        v.push(Algo::AStar(Some(3.0)));
        v.push(Algo::SingleVia {
            k: 4,
            under: Box::new(Algo::AStar(Some(1.0))),
            sim: Some(Sim::DistCos(0.95)),
            term: Some(KTerm::Factor(2)),
        });
    }
    v
}

pub fn for_net(net: &Net, tier: Tier, idx: u64, st: &mut Stats) {
    st.states += 1;
    let n = net.n;
    let m = net.m();
    // a connector of length zero (every fifth network; the first or the last edge): the distance does not change over
    // it, its cost is the floor or its surcharge, and the sums along the route stay true
    if m > 0 && idx % 5 == 0 {
        let e = if idx % 2 == 0 { 0 } else { m - 1 };
        let mut net0 = net.clone();
        net0.edges[e].2 = 0.0;
        // (distance worlds only: the speed model refuses a non-positive distance by design, see C09's guard)
        // (and only where model and feature share the unit: across units the repository converts the running value there and
        // back with seven-digit factors, which moves it by 4e-7 of itself even when nothing is added - DESIGN section 6)
        for w0 in worlds(&net0, tier, idx).iter().filter(|w| w.turn.is_none() && matches!(w.trav, Trav::Distance { .. }) && w.tol() < 1e-6).take(3) {
            check_case(w0, &Algo::Dijkstra, &Orient::Vertex { o: 0, d: Some(n - 1) }, false, st);
            check_case(w0, &Algo::Dijkstra, &Orient::Vertex { o: 0, d: Some(n - 1) }, true, st);
        }
    }
    for w in worlds(net, tier, idx).iter() {
        for algo in algos(tier).iter() {
            check_case(
                w,
                algo,
                &Orient::Vertex {
                    o: 0,
                    d: Some(n - 1),
                },
                false,
                st,
            );
            if !algo.is_ksp() {
                check_case(
                    w,
                    algo,
                    &Orient::Vertex {
                        o: 0,
                        d: Some(n - 1),
                    },
                    true,
                    st,
                );
            }
            for o in 0..m {
                for d in 0..m {
                    if o == d || (o * 5 + d * 3 + idx as usize) % 5 != 0 {
                        continue;
                    }
                    check_case(w, algo, &Orient::Edge { o, d: Some(d) }, false, st);
                }
            }
        }
    }
}

pub fn specs(tier: Tier) -> Vec<GenSpec> {
    match tier {
        Tier::Quick => vec![
            GenSpec {
                n: 3,
                max_edges: 5,
                max_mult: 2,
                n_len: 2,
                self_loops: true,
                mode: LenMode::Alphabet,
            },
            GenSpec {
                n: 4,
                max_edges: 5,
                max_mult: 1,
                n_len: 1,
                self_loops: false,
                mode: LenMode::PowersOfTwo,
            },
            GenSpec {
                n: 4,
                max_edges: 4,
                max_mult: 2,
                n_len: 2,
                self_loops: true,
                mode: LenMode::Metric,
            },
        ],
        Tier::Thorough => vec![
            GenSpec {
                n: 3,
                max_edges: 5,
                max_mult: 2,
                n_len: 2,
                self_loops: true,
                mode: LenMode::Alphabet,
            },
            GenSpec {
                n: 4,
                max_edges: 5,
                max_mult: 2,
                n_len: 1,
                self_loops: false,
                mode: LenMode::PowersOfTwo,
            },
            GenSpec {
                n: 4,
                max_edges: 5,
                max_mult: 1,
                n_len: 2,
                self_loops: true,
                mode: LenMode::Metric,
            },
            GenSpec {
                n: 5,
                max_edges: 5,
                max_mult: 1,
                n_len: 1,
                self_loops: false,
                mode: LenMode::Alphabet,
            },
        ],
    }
}

/// the same oracle through the whole application: speed table, heading table and turn-delay table written to files and
/// configured as a user would (units as configuration strings), route rendered as per-edge JSON records; every ordered
/// origin/destination pair. the records' states and costs and the route summary are walked with the reference accumulation
pub fn app_layer(scratch: &crate::world::app::Scratch, net: &Net, st: &mut Stats) {
    use crate::world::app::AppSpec;
    let n = net.n;
    let m = net.m();
    if m == 0 || n < 2 {
        return;
    }
    let k = net.hash_idx() as usize;
    let units = [
        (
            SpeedUnit::KilometersPerHour,
            DistanceUnit::Meters,
            TimeUnit::Seconds,
            TimeUnit::Seconds,
        ),
        (
            SpeedUnit::MilesPerHour,
            DistanceUnit::Miles,
            TimeUnit::Hours,
            TimeUnit::Minutes,
        ),
        (
            SpeedUnit::KilometersPerHour,
            DistanceUnit::Kilometers,
            TimeUnit::Minutes,
            TimeUnit::Seconds,
        ),
        (
            SpeedUnit::MetersPerSecond,
            DistanceUnit::Feet,
            TimeUnit::Milliseconds,
            TimeUnit::Hours,
        ),
    ];
    let (su, du, tu, delu) = units[k % units.len()];
    let speeds: Vec<f64> = (0..m).map(|e| [10.0, 30.0, 60.0][(e + k) % 3]).collect();
    let hs = [0i16, 90, 180, 270, 350, 45, 200];
    let headings: Vec<(i16, i16)> = (0..m)
        .map(|e| {
            if (k / 4) % 2 == 0 {
                (hs[(e * 3 + k) % 7], hs[(e * 5 + k / 7 + 1) % 7])
            } else {
                ([0i16, 90][(e + k) % 2], hs[(e * 5 + 1) % 7])
            }
        })
        .collect();
    let turn = TurnCfg {
        headings,
        delays: [0.25, 0.5, 1.0, 1.5, 2.0, 2.5, 3.0, 9.5],
        unit: delu,
        blank_departure: (0..m)
            .map(|e| (k / 30) % 3 == 1 && (e + k / 90) % 2 == 0)
            .collect(),
        no_departure_column: (k / 30) % 3 == 2,
    };
    let (wd, wt) = [(0.0, 1.0), (1.0, 1.0), (0.5, 2.0)][(k / 3) % 3];
    let w = World {
        net: net.clone(),
        trav: Trav::Speed {
            speed_unit: su,
            dist_unit: du,
            time_unit: tu,
            speeds: speeds.clone(),
        },
        feat_dist_unit: du,
        feat_time_unit: tu,
        init_dist: 0.0,
        init_time: 0.0,
        turn: Some(turn.clone()),
        w_dist: wd,
        w_time: wt,
        r_dist: Rate::Raw,
        r_time: Rate::Factor(2.0),
        surcharge: vec![],
        turn_surcharge: vec![],
        mul: false,
        term: crate::world::sw::Term::Unlimited,
    };
    let mut spec = AppSpec::simple(net.clone());
    spec.algorithm = json!({"type": "dijkstra"});
    spec.speed = Some((speeds, su, Some(du), Some(tu)));
    spec.distance_unit = du;
    spec.turn = Some(turn);
    spec.cost = json!({"weights": {"distance": wd, "time": wt}, "vehicle_rates": {"distance": {"type": "raw"}, "time": {"type": "factor", "factor": 2.0}}, "cost_aggregation": "sum", "network_rates": {}});
    spec.output_plugins = vec![
        json!({"type": "traversal", "route": "json", "geometry_input_file": "$DIR/geometries.txt"}),
    ];
    // (the same network can come from two families at the same time: the directory name carries a counter)
    static APP_DIR_COUNTER: std::sync::atomic::AtomicU64 = std::sync::atomic::AtomicU64::new(0);
    let dir = scratch.path.join(format!(
        "a{}_{}",
        net.hash_idx(),
        APP_DIR_COUNTER.fetch_add(1, std::sync::atomic::Ordering::Relaxed)
    ));
    let app = match spec.build(&dir) {
        Ok(a) => a,
        Err(e) => {
            st.violation(
                "harness",
                "app_build",
                0,
                || e.clone(),
                || json!({"net": net}),
            );
            return;
        }
    };
    let mut queries: Vec<(Value, usize, usize)> = vec![];
    for o in 0..n {
        for d in 0..n {
            if o != d {
                queries.push((json!({"origin_vertex": o, "destination_vertex": d}), o, d));
            }
        }
    }
    let batch: Vec<Value> = queries.iter().map(|q| q.0.clone()).collect();
    let res = match crate::engine::guarded(|| app.run(batch.clone(), None)) {
        Ok(Ok(r)) => r,
        other => {
            st.violation(
                "app",
                "run_returns_responses",
                net.size(),
                || {
                    format!(
                        "{:?}",
                        other.map(|r| r.map(|v| v.len()).map_err(|e| e.to_string()))
                    )
                },
                || json!({"net": net, "app_layer": true}),
            );
            let _ = std::fs::remove_dir_all(&dir);
            return;
        }
    };
    for (q, o, d) in queries.iter() {
        let r = match res.iter().find(|r| r["request"] == *q) {
            Some(r) => r,
            None => continue,
        };
        if r.get("error").map_or(false, |e| !e.is_null()) {
            continue;
        }
        let path = match r["route"]["path"].as_array() {
            Some(p) if !p.is_empty() => p,
            _ => continue,
        };
        st.evaluations += 1;
        st.transitions += 1;
        st.traces += 1;
        // slots of the state vector by feature name
        let idx_of = |name: &str| {
            r["route"]["state_model"][name]["index"]
                .as_u64()
                .or_else(|| r["state_model"][name]["index"].as_u64())
                .map(|i| i as usize)
        };
        let (di, ti) = match (idx_of("distance"), idx_of("time")) {
            (Some(a), Some(b)) => (a, b),
            _ => (0, 1),
        };
        let route: Vec<RouteEdge> = path
            .iter()
            .map(|x| {
                let sv: Vec<f64> = x["result_state"]
                    .as_array()
                    .map(|a| a.iter().map(|v| v.as_f64().unwrap_or(f64::NAN)).collect())
                    .unwrap_or_default();
                RouteEdge {
                    edge: x["edge_id"].as_u64().unwrap_or(u64::MAX) as usize,
                    access: x["access_cost"].as_f64().unwrap_or(f64::NAN),
                    traversal: x["traversal_cost"].as_f64().unwrap_or(f64::NAN),
                    state: vec![
                        sv.get(di).copied().unwrap_or(f64::NAN),
                        sv.get(ti).copied().unwrap_or(f64::NAN),
                    ],
                }
            })
            .collect();
        if route.len() >= 2 {
            st.nontrivial += 1;
        }
        let case = || json!({"net": net, "app_layer": true, "query": q, "world": w});
        let orient = Orient::Vertex { o: *o, d: Some(*d) };
        let mut bad = route_structure(net, &route_ids(&route), &orient, false);
        if bad.is_empty() {
            bad.extend(route_accumulation(&w, &route, &orient, false));
        }
        // the summary is the state after the last edge
        if let Some(last) = route.last() {
            let sd = r["route"]["traversal_summary"]["distance"].as_f64();
            let stime = r["route"]["traversal_summary"]["time"].as_f64();
            if sd != Some(last.state[0]) || stime != Some(last.state[1]) {
                bad.push((
                    "summary_is_last_state",
                    format!(
                        "summary distance {:?} time {:?} but the last record holds {:?}",
                        sd, stime, last.state
                    ),
                ));
            }
        }
        if bad.is_empty() {
            st.pass("app_route_accumulates_true_sums");
        }
        for (c, dtl) in bad {
            st.violation(
                "app.vertex",
                c,
                net.size() + route.len() as u64,
                || format!("route {:?}: {}", route_ids(&route), dtl),
                case,
            );
        }
    }
    let _ = std::fs::remove_dir_all(&dir);
}

/// weighted A* (weight factor above 1) re-opens vertices that were already expanded: a vertex whose label improves after
/// its children were labelled leaves them with states computed from the old label. Networks with edge lengths comparable to
/// the heuristic (metric lengths on the lattice and on the uneven line) x moderate weight factors, distance-only world
pub fn reopening_specs(tier: Tier) -> Vec<GenSpec> {
    vec![
        GenSpec {
            n: 5,
            max_edges: tier.pick(4, 5),
            max_mult: 1,
            n_len: 3,
            self_loops: false,
            mode: LenMode::Metric,
        },
        GenSpec {
            n: 5,
            max_edges: 5,
            max_mult: 1,
            n_len: 3,
            self_loops: false,
            mode: LenMode::LineMetric,
        },
    ]
}

pub fn reopening_algos() -> Vec<Algo> {
    vec![
        Algo::AStar(Some(1.5)),
        Algo::AStar(Some(2.0)),
        Algo::AStar(Some(3.0)),
        Algo::AStar(Some(5.0)),
        Algo::AStar(Some(10.0)),
    ]
}

pub fn run(tier: Tier) -> i32 {
    let info = RunInfo::new("C03", tier);
    let specs = specs(tier);
    let scratch = crate::world::app::Scratch::new("c03");
    let mut st = par_enumerate(&specs, |_spec, net, st| {
        let idx = net.hash_idx();
        for_net(net, tier, idx, st);
        // every 30th network also goes through the whole application
        if idx % 30 == 0 {
            app_layer(&scratch, net, st);
        }
        if net.n == 4 && net.m() == 4 {
            st.sample(
                1,
                || json!({"example_world": worlds(net, tier, idx).first()}),
            );
        }
    });
    let rspecs = reopening_specs(tier);
    let st2 = par_enumerate(&rspecs, |_spec, net, st| {
        st.states += 1;
        let w = World::distance(net.clone());
        for algo in reopening_algos().iter() {
            check_case(
                &w,
                algo,
                &Orient::Vertex {
                    o: 0,
                    d: Some(net.n - 1),
                },
                false,
                st,
            );
            check_case(
                &w,
                algo,
                &Orient::Vertex {
                    o: 0,
                    d: Some(net.n - 1),
                },
                true,
                st,
            );
        }
    });
    st.merge(st2);
    // plain A* (no weight factor, weight factor 1) where the estimate is inconsistent because edges are recorded shorter than
    // the straight line between their end points: a vertex reached again more cheaply after it was expanded
    let sspecs = vec![GenSpec {
        n: 5,
        max_edges: tier.pick(4, 5),
        max_mult: 1,
        n_len: 3,
        self_loops: false,
        mode: LenMode::LineShort,
    }];
    let st2b = par_enumerate(&sspecs, |_spec, net, st| {
        st.states += 1;
        let w = World::distance(net.clone());
        for algo in [
            Algo::AStar(None),
            Algo::AStar(Some(1.0)),
            Algo::AStar(Some(2.0)),
        ]
        .iter()
        {
            check_case(
                &w,
                algo,
                &Orient::Vertex {
                    o: 0,
                    d: Some(net.n - 1),
                },
                false,
                st,
            );
            check_case(
                &w,
                algo,
                &Orient::Vertex {
                    o: 0,
                    d: Some(net.n - 1),
                },
                true,
                st,
            );
        }
    });
    st.merge(st2b);
    // the same under a time objective: a slow direct edge against a fast detour makes the direct way the expensive one
    // although it is the short one (the shape of the defect repaired by 149ab43); every rotation of three speeds
    let tspecs = vec![GenSpec {
        n: 4,
        max_edges: 5,
        max_mult: 1,
        n_len: 3,
        self_loops: false,
        mode: LenMode::Metric,
    }];
    let st3 = par_enumerate(&tspecs, |_spec, net, st| {
        if net.m() == 0 {
            return;
        }
        st.states += 1;
        for rot in 0..3usize {
            // speeds, headings and turn delays in base units: with turn delays the cost of an edge depends on the edge before it
            let mut w = crate::props::c01::speed_turn_world(net);
            if let Trav::Speed { speeds, .. } = &mut w.trav {
                *speeds = (0..net.m())
                    .map(|e| [10.0, 30.0, 60.0][(e + rot) % 3])
                    .collect();
            }
            // delays of the order of the edge times (minutes, not seconds), so that the turn taken decides which way is cheaper
            if let Some(t) = &mut w.turn {
                t.unit = TimeUnit::Minutes;
            }
            for algo in [Algo::AStar(Some(3.0)), Algo::AStar(Some(10.0))].iter() {
                check_case(
                    &w,
                    algo,
                    &Orient::Vertex {
                        o: 0,
                        d: Some(net.n - 1),
                    },
                    false,
                    st,
                );
                check_case(
                    &w,
                    algo,
                    &Orient::Vertex {
                        o: 0,
                        d: Some(net.n - 1),
                    },
                    true,
                    st,
                );
            }
        }
    });
    st.merge(st3);
    let mut desc: Vec<String> = specs.iter().map(|s| s.describe()).collect();
    desc.extend(tspecs.iter().map(|s| format!("{} under a time objective with turn delays (three speed rotations), A* weight factors 3/10", s.describe())));
    desc.extend(
        rspecs
            .iter()
            .map(|s| format!("{} under A* weight factors 1.5/2/3/5/10", s.describe())),
    );
    finish(
        &info,
        st,
        "state = one labelled multigraph; transition = one real search under one speed/heading/delay/unit/initial-state configuration; every returned route (all algorithms, both orientations, both directions, the re-oriented reverse half of single-via alternatives) is walked and compared with the reference accumulation; non-trivial = route of >= 2 edges",
        true,
        json!({"graph_families": desc, "unit_tuples": 7, "initial_states": 2, "weight_rate_sets": 4, "turn_delays": "on/off", "quick_subset": "1/12 of the configuration product per net, rotating with the net index"}),
        vec![
            "tolerance 1e-8 where every add is a pure addition in base units, 3e-3 where the repository's unit tables intervene (DESIGN §2.4)".into(),
            "for edge-oriented queries the origin/destination edge may follow the zero-cost convention, and the turn out of a zero-convention origin edge may be uncharged".into(),
        ],
    )
}

pub fn replay(case: &Value) -> i32 {
    let w: World = match serde_json::from_value(case["world"].clone()) {
        Ok(w) => w,
        Err(e) => {
            println!("MACHINERY-ERROR cannot parse world: {}", e);
            return 2;
        }
    };
    let algo: Algo = serde_json::from_value(case["algo"].clone()).unwrap_or(Algo::Dijkstra);
    let orient: Orient = serde_json::from_value(case["orient"].clone()).unwrap_or(Orient::Vertex {
        o: 0,
        d: Some(w.net.n - 1),
    });
    let reverse = case["reverse"].as_bool().unwrap_or(false);
    let mut st = Stats::new();
    if let Ok(si) = w.si() {
        let out = run_search(&si, &algo, &orient, reverse, &json!({}));
        if let Outcome::Ok { routes, .. } = &out {
            for r in routes {
                for e in r {
                    println!(
                        "edge {} access {} traversal {} state {:?}",
                        e.edge, e.access, e.traversal, e.state
                    );
                }
                println!("--");
            }
        } else {
            println!("{}", out.text());
        }
    }
    check_case(&w, &algo, &orient, reverse, &mut st);
    for (k, g) in st.violations.iter() {
        println!("REPLAY-VIOLATION {} {}", k, g.detail);
    }
    if st.violations.is_empty() {
        0
    } else {
        1
    }
}
