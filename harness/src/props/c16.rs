//! C16 — map matching picks the nearest admissible element and honours the tolerance
use crate::engine::{finish, guarded, par_blocks, RunInfo, Stats, Tier};
use crate::world::app::Scratch;
use geo::Centroid;
use routee_compass::app::compass::config::builders::InputPluginBuilder;
use routee_compass::app::compass::config::frontier_model::road_class::road_class_parser::RoadClassParser;
use routee_compass::plugin::input::default::edge_rtree::edge_rtree_input_plugin::EdgeRtreeInputPlugin;
use routee_compass::plugin::input::default::vertex_rtree::plugin::RTreePlugin;
use routee_compass::plugin::input::input_plugin::InputPlugin;
use routee_compass_core::model::unit::{Distance, DistanceUnit};
use serde_json::{json, Value};

fn lattice(i: usize) -> (f32, f32) {
    ((i % 3) as f32 * 0.01, (i / 3) as f32 * 0.01)
}

/// 7 x 7 query lattice from -0.005 to 0.025 in half steps, plus far-away points
fn query_points() -> Vec<(f64, f64)> {
    let mut v = vec![];
    for a in 0..7 {
        for b in 0..7 {
            v.push((-0.005 + 0.005 * a as f64, -0.005 + 0.005 * b as f64));
        }
    }
    v.push((0.5, 0.5));
    v.push((-3.0, 0.004));
    v.push((0.0101, 0.0099));
    // beyond the range of longitudes / latitudes: no point of the network is within any tolerance of these
    v.push((181.0, 0.004));
    v.push((0.004, 91.0));
    v.push((-200.0, -95.0));
    v
}

fn meters(unit: &DistanceUnit) -> f64 {
    crate::refmodel::units::distance_m(unit)
}

/// how the unit of a tolerance is written: 0 = tolerance and unit, 1 = tolerance without a unit (then it is in metres, the
/// base distance unit), 2 = a unit without a tolerance (no tolerance at all)
fn tolerances() -> Vec<(Option<(f64, DistanceUnit)>, u8)> {
    let mut v = vec![(None, 0u8)];
    for m in [100.0, 700.0, 1300.0, 5000.0] {
        for u in [
            DistanceUnit::Meters,
            DistanceUnit::Kilometers,
            DistanceUnit::Miles,
            DistanceUnit::Feet,
        ] {
            v.push((Some((m / meters(&u), u)), 0));
        }
    }
    for m in [100.0, 700.0, 1300.0, 5000.0] {
        v.push((Some((m, DistanceUnit::Meters)), 1));
    }
    v.push((None, 2));
    v
}

fn hav(ax: f32, ay: f32, bx: f32, by: f32) -> f64 {
    crate::refmodel::units::great_circle_m(ax as f64, ay as f64, bx as f64, by as f64)
}

/// expected outcome for one point: (set of acceptable ids, must_error, on_boundary)
/// `near_ties`: away from the origin of the coordinate system the f32 coordinates carry rounding of the size of 1e-6 degrees,
/// so candidates that are equally far on paper differ in the last bits: all within 0.1 % of the least distance are accepted
fn expect(
    cands: &[(usize, f32, f32)],
    px: f64,
    py: f64,
    tol: &Option<(f64, DistanceUnit)>,
    near_ties: bool,
) -> (Vec<usize>, bool, bool) {
    let (fx, fy) = (px as f32, py as f32);
    let d2 = |c: &(usize, f32, f32)| {
        let dx = c.1 - fx;
        let dy = c.2 - fy;
        dx * dx + dy * dy
    };
    if cands.is_empty() {
        return (vec![], true, false);
    }
    let best = cands.iter().map(d2).fold(f32::INFINITY, f32::min);
    let argmin: Vec<&(usize, f32, f32)> = cands
        .iter()
        .filter(|c| d2(c) == best || (near_ties && d2(c) <= best * 1.001 + 1e-12))
        .collect();
    let ids: Vec<usize> = argmin.iter().map(|c| c.0).collect();
    match tol {
        None => (ids, false, false),
        Some((t, u)) => {
            let tm = t * meters(u);
            // all nearest candidates are at the same squared coordinate distance; their great-circle distances may differ slightly
            let ds: Vec<f64> = argmin.iter().map(|c| hav(fx, fy, c.1, c.2)).collect();
            let boundary = ds.iter().any(|d| (d - tm).abs() < 2e-3 * tm);
            let beyond = ds.iter().all(|d| *d > tm);
            let within = ds.iter().all(|d| *d < tm);
            (ids, beyond, boundary || !(beyond || within))
        }
    }
}

/// where the vertex lattice sits: at the equator (a degree of longitude is as long as one of latitude) and at 60 N / 45 S (it is
/// half / 0.7 as long: nearest in coordinates and nearest on the ground differ)
const ORIGINS: [(f32, f32); 3] = [(0.0, 0.0), (10.0, 60.0), (-70.0, -45.0)];

fn check_vertex(scratch: &Scratch, mask: u32, origin: usize, tier: Tier, st: &mut Stats) {
    st.states += 1;
    let (ox, oy) = ORIGINS[origin];
    let lattice = |i: usize| -> (f32, f32) {
        let (x, y) = lattice(i);
        (ox + x, oy + y)
    };
    let verts: Vec<usize> = (0..9).filter(|i| mask >> i & 1 == 1).collect();
    if verts.len() >= 2 {
        st.nontrivial += 1;
    }
    let file = scratch.path.join(format!("v{}_{}.csv", mask, origin));
    let mut s = String::from("vertex_id,x,y\n");
    for (id, li) in verts.iter().enumerate() {
        let (x, y) = lattice(*li);
        s.push_str(&format!("{},{},{}\n", id, x, y));
    }
    std::fs::write(&file, s).expect("write");
    let cands: Vec<(usize, f32, f32)> = verts
        .iter()
        .enumerate()
        .map(|(id, li)| (id, lattice(*li).0, lattice(*li).1))
        .collect();
    let pts: Vec<(f64, f64)> = query_points()
        .into_iter()
        .map(|(x, y)| (ox as f64 + x, oy as f64 + y))
        .collect();
    for (ti, (tol, unit_mode)) in tolerances().iter().enumerate() {
        let unit_mode = *unit_mode;
        if tier == Tier::Quick && ti != 0 && (ti + mask as usize + origin) % 4 != 0 {
            continue;
        }
        // built the way the application builds it: by the plugin builder from its configuration (tolerance and unit as
        // configuration values); the first tolerance of every set also through the constructor
        let plugin: std::sync::Arc<dyn InputPlugin> = if ti == 1 || ti == 18 {
            match RTreePlugin::new(
                &file,
                tol.as_ref().map(|t| Distance::new(t.0)),
                if unit_mode == 1 {
                    None
                } else {
                    tol.as_ref().map(|t| t.1)
                },
            ) {
                Ok(p) => std::sync::Arc::new(p),
                Err(e) => {
                    st.violation(
                        "vertex_rtree",
                        "builds",
                        mask as u64,
                        || e.to_string(),
                        || json!({"vertices": verts}),
                    );
                    continue;
                }
            }
        } else {
            let mut conf =
                json!({"type": "vertex_rtree", "vertices_input_file": file.to_str().unwrap()});
            if let Some((t, u)) = tol {
                conf["distance_tolerance"] = json!(t);
                if unit_mode != 1 {
                    conf["distance_unit"] = json!(u.to_string());
                }
            }
            if unit_mode == 2 {
                conf["distance_unit"] = json!("kilometers");
            }
            match (routee_compass::plugin::input::default::vertex_rtree::builder::VertexRTreeBuilder {}).build(&conf) {
                Ok(p) => p,
                Err(e) => {
                    st.violation("vertex_rtree.builder", "builds", mask as u64, || e.to_string(), || json!({"vertices": verts, "configuration": conf}));
                    continue;
                }
            }
        };
        let tol_name = if tol.is_some() {
            "with_tolerance"
        } else {
            "no_tolerance"
        };
        for (pi, (px, py)) in pts.iter().enumerate() {
            // origin only, and origin + destination (destination = the point rotated through the list)
            for with_dest in [false, true] {
                st.evaluations += 1;
                st.transitions += 1;
                st.traces += 1;
                let (dx, dy) = pts[(pi * 7 + 3) % pts.len()];
                let mut q = json!({"origin_x": px, "origin_y": py, "keep": {"me": [1, 2]}, "weights": {"distance": 1}});
                if with_dest {
                    q["destination_x"] = json!(dx);
                    q["destination_y"] = json!(dy);
                }
                // every third query already carries vertex ids (a request echoed by an earlier run and sent again with new
                // coordinates, or a second matcher in the chain): the matcher's answer replaces them
                if (pi + mask as usize) % 3 == 0 {
                    q["origin_vertex"] = json!((pi + 1) % 9);
                    if with_dest {
                        q["destination_vertex"] = json!((pi + 4) % 9);
                    }
                }
                let before = q.clone();
                let size = verts.len() as u64 * 1000 + pi as u64;
                let case = || json!({"kind": "vertex", "lattice_vertices": verts, "lattice_origin": origin, "tolerance": tol.as_ref().map(|t| (t.0, t.1.to_string())), "unit_written": unit_mode, "query": before});
                let r = guarded(|| plugin.process(&mut q).map_err(|e| e.to_string()));
                let (o_ids, o_err, o_bd) = expect(&cands, *px, *py, tol, origin != 0);
                let (d_ids, d_err, d_bd) = if with_dest {
                    expect(&cands, dx, dy, tol, origin != 0)
                } else {
                    (vec![], false, false)
                };
                if o_bd || d_bd {
                    st.skipped_boundary += 1;
                    continue;
                }
                let comp = format!("vertex_rtree.{}", tol_name);
                match r {
                    Err(p) => st.violation(&comp, "no_panic", size, || p.clone(), case),
                    Ok(Err(e)) => {
                        if o_err || d_err {
                            st.pass("beyond_tolerance_is_error");
                        } else {
                            st.violation(
                                &comp,
                                "within_tolerance_always_matches",
                                size,
                                || e.clone(),
                                case,
                            );
                        }
                    }
                    Ok(Ok(())) => {
                        if o_err || d_err {
                            st.violation(&comp, "beyond_tolerance_is_error", size, || format!("matched {:?}/{:?} although the nearest vertex is beyond the tolerance", q.get("origin_vertex"), q.get("destination_vertex")), case);
                            continue;
                        }
                        let o = q
                            .get("origin_vertex")
                            .and_then(|v| v.as_u64())
                            .map(|v| v as usize);
                        if o.map_or(false, |o| o_ids.contains(&o)) {
                            st.pass("origin_is_nearest_vertex");
                        } else {
                            st.violation(
                                &comp,
                                "matched_vertex_is_nearest",
                                size,
                                || format!("origin matched {:?}, nearest {:?}", o, o_ids),
                                case,
                            );
                        }
                        if with_dest {
                            let d = q
                                .get("destination_vertex")
                                .and_then(|v| v.as_u64())
                                .map(|v| v as usize);
                            if d.map_or(false, |d| d_ids.contains(&d)) {
                                st.pass("destination_is_nearest_vertex");
                            } else {
                                st.violation(
                                    &comp,
                                    "matched_vertex_is_nearest",
                                    size,
                                    || format!("destination matched {:?}, nearest {:?}", d, d_ids),
                                    case,
                                );
                            }
                        } else if q.get("destination_vertex").is_some() {
                            st.violation(
                                &comp,
                                "no_destination_no_match",
                                size,
                                || {
                                    "destination_vertex written without destination coordinates"
                                        .to_string()
                                },
                                case,
                            );
                        }
                        // all other fields unchanged
                        let mut rest = q.clone();
                        if let Some(o) = rest.as_object_mut() {
                            o.remove("origin_vertex");
                            o.remove("destination_vertex");
                        }
                        let mut before_rest = before.clone();
                        if let Some(o) = before_rest.as_object_mut() {
                            o.remove("origin_vertex");
                            o.remove("destination_vertex");
                        }
                        if rest == before_rest {
                            st.pass("other_fields_unchanged");
                        } else {
                            st.violation(
                                &comp,
                                "other_fields_unchanged",
                                size,
                                || format!("{} -> {}", before, q),
                                case,
                            );
                        }
                    }
                }
            }
        }
    }
    let _ = std::fs::remove_file(&file);
}

/// edges = segments between lattice points; class = index parity; one restricted edge
/// geometry of an edge between two lattice points: 0 straight, 1 slight edge-specific bend, 2 hairpin (runs on to three
/// times the distance and comes back: the centroid lies outside the box of the end points), 3 detour to the side
fn shape_points(e: usize, a: (f32, f32), b: (f32, f32), shape: u8) -> Vec<(f32, f32)> {
    let (dx, dy) = (b.0 - a.0, b.1 - a.1);
    match shape {
        0 => vec![a, b],
        1 => vec![
            a,
            (
                (a.0 + b.0) / 2.0 + 0.0004 * (e as f32 + 1.0),
                (a.1 + b.1) / 2.0 - 0.0003 * (e as f32 + 1.0),
            ),
            b,
        ],
        2 => vec![a, (a.0 + 3.0 * dx, a.1 + 3.0 * dy), b],
        _ => vec![
            a,
            ((a.0 + b.0) / 2.0 - 2.0 * dy, (a.1 + b.1) / 2.0 + 2.0 * dx),
            b,
        ],
    }
}

/// (edges as lattice pairs, shape per edge). more than six records make the index a tree of several nodes
fn edge_sets() -> Vec<(Vec<(usize, usize)>, Vec<u8>)> {
    let pool: Vec<(usize, usize)> = vec![
        (0, 1),
        (1, 2),
        (3, 4),
        (4, 5),
        (6, 7),
        (7, 8),
        (0, 3),
        (3, 6),
        (1, 4),
        (4, 7),
        (2, 5),
        (5, 8),
        (0, 4),
        (4, 8),
    ];
    let np = pool.len();
    let mut out: Vec<(Vec<(usize, usize)>, Vec<u8>)> = vec![];
    // the six sets of the first version (slight bends)
    for set in [
        vec![(0, 1)],
        vec![(0, 1), (1, 2)],
        vec![(0, 1), (3, 4), (6, 7)],
        vec![(0, 4), (4, 8), (2, 4), (4, 6)],
        vec![(0, 1), (1, 0), (1, 2), (2, 5), (5, 8), (0, 3)],
        vec![(0, 8), (2, 6), (1, 7), (3, 5), (4, 4 + 1)],
    ] {
        let k = set.len();
        out.push((set, vec![1; k]));
    }
    // every single pool edge in every shape
    for e in pool.iter() {
        for sh in 0..4u8 {
            out.push((vec![*e], vec![sh]));
        }
    }
    // every pair of pool edges, shapes rotating
    for i in 0..np {
        for j in i + 1..np {
            out.push((
                vec![pool[i], pool[j]],
                vec![((i + j) % 4) as u8, ((i * j + 1) % 4) as u8],
            ));
        }
    }
    // large sets (7, 9, 12, 14 records): shapes rotating
    for size in [7usize, 9, 12, 14] {
        for off in [0usize, 3, 5] {
            for s0 in 0..4usize {
                let set: Vec<(usize, usize)> = (0..size).map(|i| pool[(i + off) % np]).collect();
                let shapes: Vec<u8> = (0..size).map(|i| ((i + s0) % 4) as u8).collect();
                out.push((set, shapes));
            }
        }
    }
    // all fourteen, one bent edge among straight ones
    for h in 0..np {
        for sh in [2u8, 3] {
            out.push((
                pool.clone(),
                (0..np).map(|i| if i == h { sh } else { 0 }).collect(),
            ));
        }
    }
    out
}

fn check_edges(scratch: &Scratch, si: usize, tier: Tier, st: &mut Stats) {
    st.states += 1;
    st.nontrivial += 1;
    let (edges, shapes) = &edge_sets()[si];
    let m = edges.len();
    let dir = scratch.path.join(format!("e{}", si));
    let _ = std::fs::create_dir_all(&dir);
    let geoms: Vec<Vec<(f32, f32)>> = edges
        .iter()
        .enumerate()
        .map(|(e, (a, b))| shape_points(e, lattice(*a), lattice(*b), shapes[e]))
        .collect();
    let gfile = dir.join("geometries.txt");
    std::fs::write(
        &gfile,
        geoms
            .iter()
            .map(|g| {
                format!(
                    "LINESTRING ({})\n",
                    g.iter()
                        .map(|(x, y)| format!("{} {}", x, y))
                        .collect::<Vec<_>>()
                        .join(", ")
                )
            })
            .collect::<String>(),
    )
    .expect("write");
    let classes: Vec<u8> = (0..m).map(|e| (e % 2) as u8).collect();
    let cfile = dir.join("classes.txt");
    std::fs::write(
        &cfile,
        classes
            .iter()
            .map(|c| format!("{}\n", c))
            .collect::<String>(),
    )
    .expect("write");
    let rfile = dir.join("restrictions.csv");
    // edge 0 carries two rows (a vehicle may meet one and exceed the other), edge 1 one
    let restr_rows: Vec<(usize, &str, f64, &str)> = if m > 1 {
        vec![
            (0, "maximum_height", 4.0, "meters"),
            (0, "maximum_total_weight", 40000.0, "kg"),
            (1, "maximum_total_weight", 40000.0, "kg"),
        ]
    } else {
        vec![
            (0, "maximum_height", 4.0, "meters"),
            (0, "maximum_total_weight", 40000.0, "kg"),
        ]
    };
    std::fs::write(
        &rfile,
        format!(
            "edge_id,restriction_name,restriction_value,restriction_unit\n{}",
            restr_rows
                .iter()
                .map(|(e, k, v, u)| format!("{},{},{},{}\n", e, k, v, u))
                .collect::<String>()
        ),
    )
    .expect("write");
    // the plugin's measure: squared coordinate distance to the linestring centroid, in f32
    let centroids: Vec<(usize, f32, f32)> = geoms
        .iter()
        .enumerate()
        .map(|(e, g)| {
            let ls: geo::LineString<f32> =
                g.iter().map(|(x, y)| geo::coord! {x: *x, y: *y}).collect();
            let c = ls.centroid().expect("centroid");
            (e, c.x(), c.y())
        })
        .collect();
    let parser: RoadClassParser =
        serde_json::from_value(json!({"mapping": {"even": 0, "odd": 1}})).unwrap_or_default();
    let vp_ok = json!({"height": [13.0, "feet"], "width": [2.5, "meters"], "total_length": [60.0, "feet"], "trailer_length": [15.0, "meters"], "total_weight": [9000.0, "kg"], "number_of_axles": 4});
    let vp_tall = json!({"height": [13.5, "feet"], "width": [2.5, "meters"], "total_length": [60.0, "feet"], "trailer_length": [15.0, "meters"], "total_weight": [9000.0, "kg"], "number_of_axles": 4});
    let vp_heavy = json!({"height": [13.0, "feet"], "width": [2.5, "meters"], "total_length": [60.0, "feet"], "trailer_length": [15.0, "meters"], "total_weight": [50000.0, "kg"], "number_of_axles": 4});
    let vp_tall_heavy = json!({"height": [13.5, "feet"], "width": [2.5, "meters"], "total_length": [60.0, "feet"], "trailer_length": [15.0, "meters"], "total_weight": [50000.0, "kg"], "number_of_axles": 4});
    let filters: Vec<(&str, Option<Value>, Option<Value>)> = vec![
        ("no_filter", None, None),
        ("classes_even", Some(json!([0])), None),
        ("classes_odd_named", Some(json!(["odd"])), None),
        ("vehicle_fits", None, Some(vp_ok.clone())),
        ("vehicle_too_tall", None, Some(vp_tall.clone())),
        (
            "classes_and_vehicle",
            Some(json!([0])),
            Some(vp_tall.clone()),
        ),
        ("vehicle_too_heavy", None, Some(vp_heavy.clone())),
        (
            "vehicle_too_tall_and_heavy",
            None,
            Some(vp_tall_heavy.clone()),
        ),
    ];
    let pts = query_points();
    for (ti, (tol, unit_mode)) in tolerances().iter().enumerate() {
        let unit_mode = *unit_mode;
        if tier == Tier::Quick && ti != 0 && (ti + si) % (if si < 6 { 4 } else { 8 }) != 0 {
            continue;
        }
        let plugin: std::sync::Arc<dyn InputPlugin> = match guarded(
            || -> Result<std::sync::Arc<dyn InputPlugin>, String> {
                if ti == 1 || ti == 18 {
                    EdgeRtreeInputPlugin::new(
                        Some(cfile.to_str().unwrap().to_string()),
                        Some(rfile.to_str().unwrap().to_string()),
                        gfile.to_str().unwrap().to_string(),
                        tol.as_ref().map(|t| Distance::new(t.0)),
                        if unit_mode == 1 {
                            None
                        } else {
                            tol.as_ref().map(|t| t.1)
                        },
                        parser.clone(),
                    )
                    .map(|p| std::sync::Arc::new(p) as std::sync::Arc<dyn InputPlugin>)
                    .map_err(|e| e.to_string())
                } else {
                    // the application's way: the builder and its configuration
                    let mut conf = json!({"type": "edge_rtree", "geometry_input_file": gfile.to_str().unwrap(), "road_class_input_file": cfile.to_str().unwrap(), "vehicle_restriction_input_file": rfile.to_str().unwrap(), "road_class_parser": {"mapping": {"even": 0, "odd": 1}}});
                    if let Some((t, u)) = tol {
                        conf["distance_tolerance"] = json!(t);
                        if unit_mode != 1 {
                            conf["distance_unit"] = json!(u.to_string());
                        }
                    }
                    if unit_mode == 2 {
                        conf["distance_unit"] = json!("kilometers");
                    }
                    (routee_compass::plugin::input::default::edge_rtree::edge_rtree_input_plugin_builder::EdgeRtreeInputPluginBuilder {}).build(&conf).map_err(|e| e.to_string())
                }
            },
        ) {
            Ok(Ok(p)) => p,
            Ok(Err(e)) => {
                st.violation(
                    "edge_rtree",
                    "builds",
                    si as u64,
                    || e.to_string(),
                    || json!({"edges": edges}),
                );
                continue;
            }
            Err(p) => {
                st.violation(
                    "edge_rtree",
                    "builds_no_panic",
                    si as u64,
                    || p.clone(),
                    || json!({"edges": edges}),
                );
                continue;
            }
        };
        let tol_name = if tol.is_some() {
            "with_tolerance"
        } else {
            "no_tolerance"
        };
        for (fname, qc, qv) in filters.iter() {
            // admissible candidates under the filter
            let admissible: Vec<(usize, f32, f32)> = centroids
                .iter()
                .filter(|(e, _, _)| {
                    let class_ok = match qc {
                        None => true,
                        Some(v) => v.as_array().map_or(true, |a| {
                            a.iter().any(|x| {
                                x.as_u64() == Some(classes[*e] as u64)
                                    || x.as_str()
                                        == Some(if classes[*e] == 0 { "even" } else { "odd" })
                            })
                        }),
                    };
                    let veh_ok =
                        match qv {
                            None => true,
                            // every row of the edge must be met
                            Some(v) => restr_rows.iter().filter(|r| r.0 == *e).all(
                                |(_, kind, limit, _)| {
                                    if *kind == "maximum_height" {
                                        v["height"][0].as_f64().unwrap_or(0.0) * 0.3048 <= *limit
                                    } else {
                                        v["total_weight"][0].as_f64().unwrap_or(0.0) <= *limit
                                    }
                                },
                            ),
                        };
                    class_ok && veh_ok
                })
                .cloned()
                .collect();
            for (pi, (px, py)) in pts.iter().enumerate() {
                st.evaluations += 1;
                st.transitions += 1;
                st.traces += 1;
                let mut q = json!({"origin_x": px, "origin_y": py, "keep": "me"});
                if let Some(c) = qc {
                    q["road_classes"] = c.clone();
                }
                if let Some(v) = qv {
                    q["vehicle_parameters"] = v.clone();
                }
                let before = q.clone();
                let size = m as u64 * 1000 + pi as u64;
                let case = || json!({"kind": "edge", "edge_set": si, "edges": edges, "shapes": shapes, "tolerance": tol.as_ref().map(|t| (t.0, t.1.to_string())), "unit_written": unit_mode, "filter": fname, "query": before});
                let r = guarded(|| plugin.process(&mut q).map_err(|e| e.to_string()));
                let (ids, must_err, bd) = expect(&admissible, *px, *py, tol, false);
                // the matcher gives up at the first candidate (admissible or not) beyond the tolerance; when an inadmissible
                // candidate nearer than the nearest admissible one straddles the tolerance the statement and the early exit agree
                if bd {
                    st.skipped_boundary += 1;
                    continue;
                }
                let comp = format!("edge_rtree.{}.{}", tol_name, fname);
                match r {
                    Err(p) => st.violation(&comp, "no_panic", size, || p.clone(), case),
                    Ok(Err(e)) => {
                        if must_err || admissible.is_empty() {
                            st.pass("beyond_tolerance_is_error");
                        } else {
                            st.violation(
                                &comp,
                                "within_tolerance_always_matches",
                                size,
                                || e.clone(),
                                case,
                            );
                        }
                    }
                    Ok(Ok(())) => {
                        let o = q
                            .get("origin_edge")
                            .and_then(|v| v.as_u64())
                            .map(|v| v as usize);
                        if must_err || admissible.is_empty() {
                            st.violation(&comp, "beyond_tolerance_is_error", size, || format!("matched edge {:?} although the nearest admissible edge is beyond the tolerance", o), case);
                            continue;
                        }
                        if o.map_or(false, |o| ids.contains(&o)) {
                            st.pass("origin_is_nearest_admissible_edge");
                        } else {
                            st.violation(
                                &comp,
                                "matched_edge_is_nearest_admissible",
                                size,
                                || format!("matched {:?}, nearest admissible {:?}", o, ids),
                                case,
                            );
                        }
                        let mut rest = q.clone();
                        if let Some(o) = rest.as_object_mut() {
                            o.remove("origin_edge");
                            o.remove("destination_edge");
                        }
                        if rest == before {
                            st.pass("other_fields_unchanged");
                        } else {
                            st.violation(
                                &comp,
                                "other_fields_unchanged",
                                size,
                                || format!("{} -> {}", before, q),
                                case,
                            );
                        }
                    }
                }
            }
        }
    }
    let _ = std::fs::remove_dir_all(&dir);
}

pub fn run(tier: Tier) -> i32 {
    let info = RunInfo::new("C16", tier);
    let scratch = Scratch::new("c16");
    // vertex sets: all subsets of size 1..4 of the 3 x 3 lattice
    // (quick: sizes 1-4 and 7-9, so that the index is a tree of several nodes as well)
    let masks: Vec<u32> = (1u32..512)
        .filter(|m| tier == Tier::Thorough || m.count_ones() <= 4 || m.count_ones() >= 7)
        .collect();
    let mut st = par_blocks(masks.len() as u64, 4, |lo, hi, st| {
        for i in lo..hi {
            for origin in 0..ORIGINS.len() {
                check_vertex(&scratch, masks[i as usize], origin, tier, st);
            }
        }
    });
    let n_sets = edge_sets().len() as u64;
    let est = par_blocks(n_sets, 1, |lo, hi, st| {
        for i in lo..hi {
            check_edges(&scratch, i as usize, tier, st);
        }
    });
    st.merge(est);
    st.sample(3, || json!({"kind": "vertex", "lattice_vertices": [0, 4, 8], "tolerance": [700.0, "meters"], "query": {"origin_x": 0.005, "origin_y": 0.005, "destination_x": 0.02, "destination_y": 0.025}}));
    st.sample(3, || json!({"kind": "edge", "edges": edge_sets()[4].0, "filter": "classes_and_vehicle", "tolerance": null, "query": {"origin_x": 0.0, "origin_y": 0.0}}));
    finish(
        &info,
        st,
        "state = one vertex set (subsets of a 3x3 lattice: sizes 1-4 and 7-9 quick, all 511 thorough) or edge set (every single edge and every pair of a 14-edge pool, sets of 7-14 records, all 14 with one bent edge; four geometry shapes: straight, slight bend, hairpin, detour; class table and one restricted edge); transition = one real plugin invocation (plugin built by its builder from configuration values, one tolerance per set through the constructor) for one query point of a 7x7 lattice reaching beyond the network (+3 far/odd points, +3 beyond the range of longitudes and latitudes), with and without destination, under one tolerance (none, or 100/700/1300/5000 m expressed in m/km/mi/ft) and one road-class/vehicle filter; oracle = exhaustive scan under the plugin's own measure (squared f32 coordinate distance; to the linestring centroid for edges), tolerance by the reference great-circle distance (double precision); non-trivial = more than one candidate",
        true,
        json!({"vertex_sets": masks.len(), "edge_sets": n_sets, "query_points": query_points().len(), "tolerances": tolerances().len(), "filters": 8}),
        vec![
            "ties in the measure are accepted either way".into(),
            "cases within 2e-3 of the tolerance boundary are skipped (>= vs > is not prescribed)".into(),
        ],
    )
}

pub fn replay(case: &Value) -> i32 {
    // the index files are regenerated from the recorded vertex set / edge set; the whole set is run again (all query
    // points, tolerances and filters), the recorded query among them
    let c = if case.get("case").is_some() {
        &case["case"]
    } else {
        case
    };
    let scratch = Scratch::new("c16r");
    let mut st = Stats::new();
    match c["kind"].as_str() {
        Some("edge") => {
            let si = c["edge_set"].as_u64().unwrap_or(0) as usize;
            if si >= edge_sets().len() {
                println!("MACHINERY-ERROR edge set {} does not exist", si);
                return 2;
            }
            check_edges(&scratch, si, Tier::Thorough, &mut st);
        }
        Some("vertex") => {
            let mask = c["lattice_vertices"]
                .as_array()
                .map(|a| {
                    a.iter()
                        .filter_map(|v| v.as_u64())
                        .fold(0u32, |m, v| m | (1 << v))
                })
                .unwrap_or(0);
            if mask == 0 {
                println!("MACHINERY-ERROR no vertex set in the case");
                return 2;
            }
            let origin =
                (c["lattice_origin"].as_u64().unwrap_or(0) as usize).min(ORIGINS.len() - 1);
            check_vertex(&scratch, mask, origin, Tier::Thorough, &mut st);
        }
        _ => {
            println!("C16 replay: unknown kind of case; re-running the quick tier");
            return run(Tier::Quick);
        }
    }
    for (k, g) in st.violations.iter() {
        println!("REPLAY-VIOLATION {} ({} cases) {}", k, g.count, g.detail);
    }
    println!(
        "replay: {} violated clauses over {} plugin invocations",
        st.violations.len(),
        st.evaluations
    );
    if st.violations.is_empty() {
        0
    } else {
        1
    }
}
