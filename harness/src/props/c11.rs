//! C11 — (a) explicit-state BFS over insert histories of CompactOrderedHashMap against Vec<(K,V)>;
//!       (b) state model slot bijection for feature sets of size 0..8 over every construction route.
use crate::engine::{close, finish, guarded, RunInfo, Stats, Tier};
use ordered_float::OrderedFloat;
use routee_compass::app::compass::config::cost_model::cost_model_service::CostModelService;
use routee_compass::app::search::search_app::SearchApp;
use routee_compass_core::algorithm::search::search_algorithm::SearchAlgorithm;
use routee_compass_core::model::access::default::no_access_model::NoAccessModel;
use routee_compass_core::model::cost::cost_aggregation::CostAggregation;
use routee_compass_core::model::frontier::default::no_restriction::NoRestriction;
use routee_compass_core::model::network::{Edge, Vertex};
use routee_compass_core::model::state::custom_feature_format::CustomFeatureFormat;
use routee_compass_core::model::state::state_feature::StateFeature;
use routee_compass_core::model::state::state_model::StateModel;
use routee_compass_core::model::termination::termination_model::TerminationModel;
use routee_compass_core::model::traversal::state::state_variable::StateVar;
use routee_compass_core::model::traversal::traversal_model::TraversalModel;
use routee_compass_core::model::traversal::traversal_model_error::TraversalModelError;
use routee_compass_core::model::traversal::traversal_model_service::TraversalModelService;
use routee_compass_core::model::unit::as_f64::AsF64;
use routee_compass_core::model::unit::*;
use routee_compass_core::util::compact_ordered_hash_map::CompactOrderedHashMap;
use serde_json::{json, Value};
use std::collections::{HashMap, HashSet, VecDeque};
use std::sync::Arc;

type Map = CompactOrderedHashMap<u8, u32>;
type Ref = Vec<(u8, u32)>;

fn ref_insert(r: &mut Ref, k: u8, v: u32) -> Option<u32> {
    for e in r.iter_mut() {
        if e.0 == k {
            let old = e.1;
            e.1 = v;
            return Some(old);
        }
    }
    r.push((k, v));
    None
}

/// compares the whole observable API of `m` with the reference; returns (clause, detail) of the first mismatch per clause
fn compare(m: &Map, r: &Ref, nkeys: u8) -> Vec<(&'static str, String)> {
    let mut bad = vec![];
    let n = r.len();
    if m.len() != n {
        bad.push(("len", format!("len {} want {}", m.len(), n)));
    }
    if m.is_empty() != (n == 0) {
        bad.push((
            "is_empty",
            format!("is_empty {} want {}", m.is_empty(), n == 0),
        ));
    }
    for k in 0..nkeys {
        let want = r.iter().position(|e| e.0 == k);
        let wv = want.map(|i| r[i].1);
        if m.get(&k).copied() != wv {
            bad.push(("get", format!("get({}) = {:?} want {:?}", k, m.get(&k), wv)));
        }
        if m.contains_key(&k) != want.is_some() {
            bad.push((
                "contains_key",
                format!("contains_key({}) = {}", k, m.contains_key(&k)),
            ));
        }
        if m.get_index(&k) != want {
            bad.push((
                "get_index",
                format!("get_index({}) = {:?} want {:?}", k, m.get_index(&k), want),
            ));
        }
    }
    for i in 0..n + 2 {
        let want = r.get(i).map(|e| (e.0, e.1));
        let got = m.get_pair(i).map(|(k, v)| (*k, *v));
        if got != want {
            bad.push((
                "get_pair",
                format!("get_pair({}) = {:?} want {:?}", i, got, want),
            ));
        }
    }
    let keys: Vec<u8> = m.keys().copied().collect();
    let wkeys: Vec<u8> = r.iter().map(|e| e.0).collect();
    if keys != wkeys {
        bad.push(("keys", format!("keys {:?} want {:?}", keys, wkeys)));
    }
    let it: Vec<(u8, u32)> = m.iter().map(|(k, v)| (*k, *v)).collect();
    if &it != r {
        bad.push(("iter", format!("iter {:?} want {:?}", it, r)));
    }
    let iit: Vec<(usize, u8, u32)> = m.indexed_iter().map(|(i, (k, v))| (i, *k, *v)).collect();
    let wiit: Vec<(usize, u8, u32)> = r.iter().enumerate().map(|(i, e)| (i, e.0, e.1)).collect();
    if iit != wiit {
        bad.push((
            "indexed_iter",
            format!("indexed_iter {:?} want {:?}", iit, wiit),
        ));
    }
    let tv: Vec<String> = m
        .to_vec()
        .iter()
        .map(|(k, e)| format!("{}:{:?}", k, e))
        .collect();
    let wtv: Vec<String> = r
        .iter()
        .enumerate()
        .map(|(i, e)| format!("{}:IndexedEntry {{ v: {}, index: {} }}", e.0, e.1, i))
        .collect();
    if tv != wtv {
        bad.push(("to_vec", format!("to_vec {:?} want {:?}", tv, wtv)));
    }
    let ii: Vec<String> = m
        .clone()
        .into_iter()
        .map(|(k, e)| format!("{}:{:?}", k, e))
        .collect();
    if ii != wtv {
        bad.push(("into_iter", format!("into_iter {:?} want {:?}", ii, wtv)));
    }
    bad
}

fn report(
    st: &mut Stats,
    component: &str,
    bad: Vec<(&'static str, String)>,
    size: u64,
    case: &dyn Fn() -> Value,
) {
    let mut seen = HashSet::new();
    for (clause, detail) in bad {
        if seen.insert(clause) {
            st.violation(component, clause, size, || detail.clone(), case);
        }
    }
}

fn container_bfs(st: &mut Stats, nkeys: u8) {
    // state key = ordered key list; BFS from the empty map; the live object and the reference travel together
    let mut seen: HashSet<Vec<u8>> = HashSet::new();
    let mut queue: VecDeque<(Map, Ref, Vec<u8>)> = VecDeque::new();
    let mut fresh: u32 = 1;
    let empty: Map = CompactOrderedHashMap::empty();
    seen.insert(vec![]);
    let bad = compare(&empty, &vec![], nkeys);
    report(st, "compact_map.empty", bad, 0, &|| json!({"history": []}));
    queue.push_back((empty, vec![], vec![]));
    st.states += 1;
    while let Some((m, r, hist)) = queue.pop_front() {
        for k in 0..nkeys {
            st.transitions += 1;
            st.evaluations += 1;
            st.traces += 1;
            let mut m2 = m.clone();
            let mut r2 = r.clone();
            let v = fresh;
            fresh += 1;
            let mut h2 = hist.clone();
            h2.push(k);
            let size = h2.len() as u64 * 100 + k as u64;
            let hcase = h2.clone();
            let case = move || json!({"kind": "insert_history", "keys_inserted_in_order": hcase});
            let want_ret = ref_insert(&mut r2, k, v);
            let got_ret = match guarded(|| m2.insert(k, v)) {
                Ok(x) => x,
                Err(p) => {
                    st.violation("compact_map.insert", "no_panic", size, || p.clone(), &case);
                    continue;
                }
            };
            let overwrite = want_ret.is_some();
            // the failure site is named by the number of entries the map holds after the step
            let component = if overwrite {
                format!(
                    "compact_map.overwrite.n{}",
                    if r2.len() > 5 {
                        "6plus".to_string()
                    } else {
                        r2.len().to_string()
                    }
                )
            } else {
                format!(
                    "compact_map.insert.n{}",
                    if r2.len() > 5 {
                        "6plus".to_string()
                    } else {
                        r2.len().to_string()
                    }
                )
            };
            if got_ret != want_ret {
                st.violation(
                    &component,
                    "insert_return",
                    size,
                    || format!("insert({}) returned {:?} want {:?}", k, got_ret, want_ret),
                    &case,
                );
            } else {
                st.pass("insert_return");
            }
            let bad = match guarded(|| compare(&m2, &r2, nkeys)) {
                Ok(b) => b,
                Err(p) => vec![("api_no_panic", p)],
            };
            if bad.is_empty() {
                st.pass("api_equals_reference");
            }
            let clean = bad.is_empty();
            report(st, &component, bad, size, &case);
            let key: Vec<u8> = r2.iter().map(|e| e.0).collect();
            if overwrite {
                // self loop in the reference: executed and checked, not a new state
                continue;
            }
            if seen.insert(key) {
                st.states += 1;
                if r2.len() >= 5 {
                    st.nontrivial += 1;
                }
                let _ = clean;
                queue.push_back((m2, r2, h2));
            }
        }
    }
}

fn lists(nkeys: u8, max_len: usize, distinct: bool) -> Vec<Vec<u8>> {
    let mut out = vec![vec![]];
    let mut layer = vec![vec![]];
    for _ in 0..max_len {
        let mut next = vec![];
        for l in layer.iter() {
            for k in 0..nkeys {
                if distinct && l.contains(&k) {
                    continue;
                }
                let mut l2: Vec<u8> = l.clone();
                l2.push(k);
                next.push(l2);
            }
        }
        out.extend(next.iter().cloned());
        layer = next;
    }
    out
}

fn container_ctor(st: &mut Stats, nkeys: u8, tier: Tier) {
    // new(list) / collect(list) for distinct-key lists, then up to 2 further inserts
    let max_len = tier.pick(6usize, 7usize);
    for l in lists(nkeys.min(7), max_len, true) {
        let entries: Vec<(u8, u32)> = l
            .iter()
            .enumerate()
            .map(|(i, k)| (*k, 1000 + i as u32))
            .collect();
        let size = l.len() as u64;
        for (ctor, comp) in [
            (0, "compact_map.new"),
            (1, "compact_map.collect"),
            (2, "compact_map.from_vec"),
        ] {
            st.evaluations += 1;
            st.transitions += 1;
            st.traces += 1;
            let lc = l.clone();
            let case = move || json!({"kind": "ctor", "ctor": comp, "keys": lc});
            let built = guarded(|| -> Map {
                match ctor {
                    0 => CompactOrderedHashMap::new(entries.clone()),
                    1 => entries.clone().into_iter().collect(),
                    _ => CompactOrderedHashMap::from(entries.clone()),
                }
            });
            let m = match built {
                Ok(m) => m,
                Err(p) => {
                    st.violation(comp, "no_panic", size, || p.clone(), &case);
                    continue;
                }
            };
            let component = format!(
                "{}.n{}",
                comp,
                if l.len() > 5 {
                    "6plus".to_string()
                } else {
                    l.len().to_string()
                }
            );
            let bad = compare(&m, &entries, nkeys);
            if bad.is_empty() {
                st.pass("ctor_equals_reference");
            }
            report(st, &component, bad, size, &case);
            // continue with every 1- and 2-step insert history from here (start from a non-initial state)
            for k1 in 0..nkeys {
                let mut m1 = m.clone();
                let mut r1 = entries.clone();
                let ret = m1.insert(k1, 77);
                let want = ref_insert(&mut r1, k1, 77);
                st.transitions += 1;
                let lc = l.clone();
                let case1 = move || json!({"kind": "ctor_then_insert", "ctor": comp, "keys": lc, "then": [k1]});
                let component = format!(
                    "{}_then_insert.n{}",
                    comp,
                    if r1.len() > 5 {
                        "6plus".to_string()
                    } else {
                        r1.len().to_string()
                    }
                );
                let mut bad = compare(&m1, &r1, nkeys);
                if ret != want {
                    bad.push(("insert_return", format!("{:?} want {:?}", ret, want)));
                }
                if bad.is_empty() {
                    st.pass("ctor_then_insert");
                }
                report(st, &component, bad, size + 1, &case1);
                if l.len() >= 3 {
                    for k2 in 0..nkeys {
                        let mut m2 = m1.clone();
                        let mut r2 = r1.clone();
                        let ret = m2.insert(k2, 88);
                        let want = ref_insert(&mut r2, k2, 88);
                        st.transitions += 1;
                        let lc = l.clone();
                        let case2 = move || json!({"kind": "ctor_then_insert", "ctor": comp, "keys": lc, "then": [k1, k2]});
                        let component = format!(
                            "{}_then_insert.n{}",
                            comp,
                            if r2.len() > 5 {
                                "6plus".to_string()
                            } else {
                                r2.len().to_string()
                            }
                        );
                        let mut bad = compare(&m2, &r2, nkeys);
                        if ret != want {
                            bad.push(("insert_return", format!("{:?} want {:?}", ret, want)));
                        }
                        if bad.is_empty() {
                            st.pass("ctor_then_insert");
                        }
                        report(st, &component, bad, size + 2, &case2);
                    }
                }
            }
        }
    }
    // lists with duplicate keys: an insertion-ordered map keeps the first position and the last value
    for l in lists(3, 6, false) {
        let mut d = l.clone();
        d.sort();
        d.dedup();
        if d.len() == l.len() {
            continue;
        }
        let entries: Vec<(u8, u32)> = l
            .iter()
            .enumerate()
            .map(|(i, k)| (*k, 1000 + i as u32))
            .collect();
        let mut r: Ref = vec![];
        for (k, v) in entries.iter() {
            ref_insert(&mut r, *k, *v);
        }
        for (ctor, comp) in [(0, "compact_map.new_dup"), (1, "compact_map.collect_dup")] {
            st.evaluations += 1;
            st.transitions += 1;
            st.traces += 1;
            let lc = l.clone();
            let case = move || json!({"kind": "ctor_dup", "ctor": comp, "keys": lc});
            let built = guarded(|| -> Map {
                match ctor {
                    0 => CompactOrderedHashMap::new(entries.clone()),
                    _ => entries.clone().into_iter().collect(),
                }
            });
            match built {
                Ok(m) => {
                    let bad = compare(&m, &r, 3);
                    if bad.is_empty() {
                        st.pass("dup_ctor_equals_reference");
                    }
                    report(st, comp, bad, l.len() as u64, &case);
                }
                Err(p) => st.violation(comp, "no_panic", l.len() as u64, || p.clone(), &case),
            }
        }
    }
}

// ---------------------------------------------------------------------------------------------
// (b) state model

#[derive(Clone, Debug)]
enum Feat {
    Dist(DistanceUnit, f64),
    Time(TimeUnit, f64),
    Energy(EnergyUnit, f64),
    F64(f64),
    I64(i64),
    U64(u64),
    Bool(bool),
}

impl Feat {
    fn feature(&self) -> StateFeature {
        match self {
            Feat::Dist(u, i) => StateFeature::Distance {
                distance_unit: *u,
                initial: Distance::new(*i),
            },
            Feat::Time(u, i) => StateFeature::Time {
                time_unit: *u,
                initial: Time::new(*i),
            },
            Feat::Energy(u, i) => StateFeature::Energy {
                energy_unit: *u,
                initial: Energy::new(*i),
            },
            Feat::F64(i) => StateFeature::Custom {
                r#type: "f".into(),
                unit: "x".into(),
                format: CustomFeatureFormat::FloatingPoint {
                    initial: OrderedFloat(*i),
                },
            },
            Feat::I64(i) => StateFeature::Custom {
                r#type: "i".into(),
                unit: "x".into(),
                format: CustomFeatureFormat::SignedInteger { initial: *i },
            },
            Feat::U64(i) => StateFeature::Custom {
                r#type: "u".into(),
                unit: "x".into(),
                format: CustomFeatureFormat::UnsignedInteger { initial: *i },
            },
            Feat::Bool(i) => StateFeature::Custom {
                r#type: "b".into(),
                unit: "x".into(),
                format: CustomFeatureFormat::Boolean { initial: *i },
            },
        }
    }
    fn initial(&self) -> f64 {
        match self {
            Feat::Dist(_, i) | Feat::Time(_, i) | Feat::Energy(_, i) | Feat::F64(i) => *i,
            Feat::I64(i) => *i as f64,
            Feat::U64(i) => *i as f64,
            Feat::Bool(b) => {
                if *b {
                    1.0
                } else {
                    0.0
                }
            }
        }
    }
    fn json(&self) -> Value {
        serde_json::to_value(self.feature()).unwrap_or(Value::Null)
    }
}

/// the feature alphabet: 5 distance units, 4 time, 3 energy, 4 custom formats (16 kinds), varied initial values
fn alphabet() -> Vec<Feat> {
    let mut v = vec![];
    for (i, u) in crate::refmodel::units::DISTANCE_UNITS.iter().enumerate() {
        v.push(Feat::Dist(*u, i as f64 * 1.5));
    }
    for (i, u) in crate::refmodel::units::TIME_UNITS.iter().enumerate() {
        v.push(Feat::Time(*u, 10.0 + i as f64));
    }
    for (i, u) in crate::refmodel::units::ENERGY_UNITS.iter().enumerate() {
        v.push(Feat::Energy(*u, 20.0 + i as f64));
    }
    v.push(Feat::F64(55.5));
    v.push(Feat::I64(-3));
    v.push(Feat::U64(7));
    v.push(Feat::Bool(true));
    v
}

/// checks one built state model against the declared features (names f0.. in `names`, declared order when `ordered`)
fn check_model(
    st: &mut Stats,
    component: &str,
    sm: &StateModel,
    names: &[String],
    feats: &[Feat],
    ordered: bool,
    case: &dyn Fn() -> Value,
) {
    let n = feats.len();
    let size = n as u64;
    let comp = format!(
        "{}.n{}",
        component,
        if n > 5 {
            "6plus".to_string()
        } else {
            n.to_string()
        }
    );
    let component = comp.as_str();
    if sm.len() != n {
        st.violation(
            component,
            "len",
            size,
            || format!("len {} want {}", sm.len(), n),
            case,
        );
    }
    // slots: indexed_iter yields a bijection names <-> 0..n-1
    let slots: Vec<(usize, String)> = sm
        .indexed_iter()
        .map(|(i, (k, _))| (i, k.clone()))
        .collect();
    let mut ok = slots.len() == n;
    let mut seen_names = HashSet::new();
    for (pos, (i, k)) in slots.iter().enumerate() {
        if *i != pos || !names.contains(k) || !seen_names.insert(k.clone()) {
            ok = false;
        }
        if ordered && names.get(pos) != Some(k) {
            ok = false;
        }
    }
    if ok {
        st.pass("slots_are_0_to_n_minus_1");
    } else {
        st.violation(
            component,
            "slots_are_0_to_n_minus_1",
            size,
            || format!("indexed_iter gives {:?} for declared {:?}", slots, names),
            case,
        );
    }
    // initial state
    let init = match guarded(|| sm.initial_state()) {
        Ok(Ok(s)) => s,
        Ok(Err(e)) => {
            st.violation(component, "initial_state_ok", size, || e.to_string(), case);
            return;
        }
        Err(p) => {
            st.violation(component, "no_panic", size, || p.clone(), case);
            return;
        }
    };
    if init.len() != n {
        st.violation(
            component,
            "initial_state_has_n_entries",
            size,
            || {
                format!(
                    "initial_state has {} entries for {} features",
                    init.len(),
                    n
                )
            },
            case,
        );
        return;
    }
    st.pass("initial_state_has_n_entries");
    // each feature: its slot holds the declared initial value; get/set/add touch only that slot and round trip
    let slot_of: HashMap<String, usize> = slots.iter().map(|(i, k)| (k.clone(), *i)).collect();
    for (name, f) in names.iter().zip(feats.iter()) {
        let slot = match slot_of.get(name) {
            Some(s) => *s,
            None => continue,
        };
        if init[slot].0 != f.initial() {
            st.violation(
                component,
                "initial_value_in_own_slot",
                size,
                || {
                    format!(
                        "feature {} slot {} holds {} want {}",
                        name,
                        slot,
                        init[slot].0,
                        f.initial()
                    )
                },
                case,
            );
            continue;
        }
        st.pass("initial_value_in_own_slot");
        let mut s = init.clone();
        let r: Result<Result<(), String>, String> = guarded(|| -> Result<(), String> {
            match f {
                Feat::Dist(fu, _) => {
                    for u in crate::refmodel::units::DISTANCE_UNITS.iter() {
                        sm.set_distance(&mut s, name, &Distance::new(12.0), u)
                            .map_err(|e| e.to_string())?;
                        let back = sm
                            .get_distance(&s, name, u)
                            .map_err(|e| e.to_string())?
                            .as_f64();
                        if !close(back, 12.0, 2e-3) {
                            return Err(format!("set/get distance in {} gives {}", u, back));
                        }
                        let want_feature = crate::refmodel::units::distance(12.0, u, fu);
                        if !close(s[slot].0, want_feature, 2e-3) {
                            return Err(format!(
                                "slot holds {} want {} {}",
                                s[slot].0, want_feature, fu
                            ));
                        }
                        sm.add_distance(&mut s, name, &Distance::new(3.0), u)
                            .map_err(|e| e.to_string())?;
                        let back = sm
                            .get_distance(&s, name, u)
                            .map_err(|e| e.to_string())?
                            .as_f64();
                        if !close(back, 15.0, 2e-3) {
                            return Err(format!("add distance in {} gives {}", u, back));
                        }
                    }
                }
                Feat::Time(fu, _) => {
                    for u in crate::refmodel::units::TIME_UNITS.iter() {
                        sm.set_time(&mut s, name, &Time::new(12.0), u)
                            .map_err(|e| e.to_string())?;
                        let back = sm
                            .get_time(&s, name, u)
                            .map_err(|e| e.to_string())?
                            .as_f64();
                        if !close(back, 12.0, 2e-3) {
                            return Err(format!("set/get time in {} gives {}", u, back));
                        }
                        let want_feature = crate::refmodel::units::time(12.0, u, fu);
                        if !close(s[slot].0, want_feature, 2e-3) {
                            return Err(format!(
                                "slot holds {} want {} {}",
                                s[slot].0, want_feature, fu
                            ));
                        }
                        sm.add_time(&mut s, name, &Time::new(3.0), u)
                            .map_err(|e| e.to_string())?;
                        let back = sm
                            .get_time(&s, name, u)
                            .map_err(|e| e.to_string())?
                            .as_f64();
                        if !close(back, 15.0, 2e-3) {
                            return Err(format!("add time in {} gives {}", u, back));
                        }
                    }
                }
                Feat::Energy(_, _) => {
                    for u in crate::refmodel::units::ENERGY_UNITS.iter() {
                        sm.set_energy(&mut s, name, &Energy::new(12.0), u)
                            .map_err(|e| e.to_string())?;
                        let back = sm
                            .get_energy(&s, name, u)
                            .map_err(|e| e.to_string())?
                            .as_f64();
                        if !close(back, 12.0, 2e-3) {
                            return Err(format!("set/get energy in {} gives {}", u, back));
                        }
                        sm.add_energy(&mut s, name, &Energy::new(3.0), u)
                            .map_err(|e| e.to_string())?;
                        let back = sm
                            .get_energy(&s, name, u)
                            .map_err(|e| e.to_string())?
                            .as_f64();
                        if !close(back, 15.0, 2e-3) {
                            return Err(format!("add energy in {} gives {}", u, back));
                        }
                    }
                }
                Feat::F64(_) => {
                    sm.set_custom_f64(&mut s, name, &-2.5)
                        .map_err(|e| e.to_string())?;
                    let b = sm.get_custom_f64(&s, name).map_err(|e| e.to_string())?;
                    if b != -2.5 {
                        return Err(format!("custom f64 round trip gives {}", b));
                    }
                }
                Feat::I64(_) => {
                    sm.set_custom_i64(&mut s, name, &-9)
                        .map_err(|e| e.to_string())?;
                    let b = sm.get_custom_i64(&s, name).map_err(|e| e.to_string())?;
                    if b != -9 {
                        return Err(format!("custom i64 round trip gives {}", b));
                    }
                }
                Feat::U64(_) => {
                    sm.set_custom_u64(&mut s, name, &9)
                        .map_err(|e| e.to_string())?;
                    let b = sm.get_custom_u64(&s, name).map_err(|e| e.to_string())?;
                    if b != 9 {
                        return Err(format!("custom u64 round trip gives {}", b));
                    }
                }
                Feat::Bool(_) => {
                    sm.set_custom_bool(&mut s, name, &false)
                        .map_err(|e| e.to_string())?;
                    let b = sm.get_custom_bool(&s, name).map_err(|e| e.to_string())?;
                    if b {
                        return Err("custom bool round trip gives true".to_string());
                    }
                }
            }
            Ok(())
        });
        match r {
            Ok(Ok(())) => st.pass("get_set_add_round_trip"),
            Ok(Err(e)) => st.violation(
                component,
                "get_set_add_round_trip",
                size,
                || format!("feature {}: {}", name, e),
                case,
            ),
            Err(p) => st.violation(component, "no_panic", size, || p.clone(), case),
        }
        // only the own slot changed
        let others_untouched = (0..n).all(|i| i == slot || s[i].0 == init[i].0);
        if others_untouched {
            st.pass("update_touches_only_own_slot");
        } else {
            st.violation(
                component,
                "update_touches_only_own_slot",
                size,
                || {
                    format!(
                        "updating {} (slot {}) changed {:?} -> {:?}",
                        name, slot, init, s
                    )
                },
                case,
            );
        }
    }
}

/// a traversal model declaring a chosen feature list (for the SearchApp route)
struct DeclaringModel {
    feats: Vec<(String, StateFeature)>,
}
impl TraversalModel for DeclaringModel {
    fn state_features(&self) -> Vec<(String, StateFeature)> {
        self.feats.clone()
    }
    fn traverse_edge(
        &self,
        _: (&Vertex, &Edge, &Vertex),
        _: &mut Vec<StateVar>,
        _: &StateModel,
    ) -> Result<(), TraversalModelError> {
        Ok(())
    }
    fn estimate_traversal(
        &self,
        _: (&Vertex, &Vertex),
        _: &mut Vec<StateVar>,
        _: &StateModel,
    ) -> Result<(), TraversalModelError> {
        Ok(())
    }
}
/// an access model that lists features too (one that adds turn penalties to "time" lists it next to the traversal model)
struct DeclaringAccess {
    feats: Vec<(String, StateFeature)>,
}
impl routee_compass_core::model::access::access_model::AccessModel for DeclaringAccess {
    fn state_features(&self) -> Vec<(String, StateFeature)> {
        self.feats.clone()
    }
    fn access_edge(
        &self,
        _: (&Vertex, &Edge, &Vertex, &Edge, &Vertex),
        _: &mut Vec<StateVar>,
        _: &StateModel,
    ) -> Result<(), routee_compass_core::model::access::access_model_error::AccessModelError> {
        Ok(())
    }
}
impl routee_compass_core::model::access::access_model_service::AccessModelService
    for DeclaringAccess
{
    fn build(
        &self,
        _: &Value,
    ) -> Result<
        Arc<dyn routee_compass_core::model::access::access_model::AccessModel>,
        routee_compass_core::model::access::access_model_error::AccessModelError,
    > {
        Ok(Arc::new(DeclaringAccess {
            feats: self.feats.clone(),
        }))
    }
}
struct DeclaringService {
    feats: Vec<(String, StateFeature)>,
}
impl TraversalModelService for DeclaringService {
    fn build(&self, _: &Value) -> Result<Arc<dyn TraversalModel>, TraversalModelError> {
        Ok(Arc::new(DeclaringModel {
            feats: self.feats.clone(),
        }))
    }
}

fn state_models(st: &mut Stats, tier: Tier) {
    let alpha = alphabet();
    let max_n = tier.pick(8usize, 9usize);
    // feature sets: for each size n, every cyclic window of the alphabet with strides 1,3,5,7 (covers every kind in every slot)
    let strides: Vec<usize> = tier.pick(vec![1, 5], vec![1, 3, 5, 7, 9, 11]);
    for n in 0..=max_n {
        for stride in strides.iter() {
            for start in 0..alpha.len() {
                st.states += 1;
                if n >= 5 {
                    st.nontrivial += 1;
                }
                let feats: Vec<Feat> = (0..n)
                    .map(|i| alpha[(start + i * stride) % alpha.len()].clone())
                    .collect();
                let names: Vec<String> = (0..n).map(|i| format!("f{}", i)).collect();
                let pairs: Vec<(String, StateFeature)> = names
                    .iter()
                    .cloned()
                    .zip(feats.iter().map(|f| f.feature()))
                    .collect();
                let desc: Vec<Value> = feats.iter().map(|f| f.json()).collect();
                // route 1: new
                {
                    st.evaluations += 1;
                    st.transitions += 1;
                    st.traces += 1;
                    let d = desc.clone();
                    let case = move || json!({"route": "StateModel::new", "features": d});
                    match guarded(|| StateModel::new(pairs.clone())) {
                        Ok(sm) => {
                            check_model(st, "state_model.new", &sm, &names, &feats, true, &case)
                        }
                        Err(p) => st.violation(
                            "state_model.new",
                            "no_panic",
                            n as u64,
                            || p.clone(),
                            &case,
                        ),
                    }
                }
                // route 2: empty().extend(all) and split extends (k then rest), with an overwrite of an equal-typed feature
                for split in [0usize, n / 2, n.saturating_sub(1)] {
                    st.evaluations += 1;
                    st.transitions += 1;
                    st.traces += 1;
                    let d = desc.clone();
                    let case = move || json!({"route": "StateModel::extend", "split": split, "features": d});
                    let r = guarded(|| -> Result<StateModel, String> {
                        let first = StateModel::empty()
                            .extend(pairs[..split].to_vec())
                            .map_err(|e| e.to_string())?;
                        let mut rest = pairs[split..].to_vec();
                        // re-declare the first feature again (same type): must overwrite in place
                        if split > 0 {
                            rest.push(pairs[0].clone());
                        }
                        first.extend(rest).map_err(|e| e.to_string())
                    });
                    match r {
                        Ok(Ok(sm)) => {
                            check_model(st, "state_model.extend", &sm, &names, &feats, true, &case)
                        }
                        Ok(Err(e)) => st.violation(
                            "state_model.extend",
                            "extend_ok",
                            n as u64,
                            || e.clone(),
                            &case,
                        ),
                        Err(p) => st.violation(
                            "state_model.extend",
                            "no_panic",
                            n as u64,
                            || p.clone(),
                            &case,
                        ),
                    }
                }
                // route 3: TryFrom<&Value> (JSON object, key order preserved)
                {
                    st.evaluations += 1;
                    st.transitions += 1;
                    st.traces += 1;
                    let mut obj = serde_json::Map::new();
                    for (name, f) in names.iter().zip(feats.iter()) {
                        obj.insert(name.clone(), f.json());
                    }
                    let v = Value::Object(obj);
                    let vc = v.clone();
                    let case = move || json!({"route": "StateModel::try_from(json)", "json": vc});
                    match guarded(|| StateModel::try_from(&v).map_err(|e| e.to_string())) {
                        Ok(Ok(sm)) => check_model(
                            st,
                            "state_model.try_from_json",
                            &sm,
                            &names,
                            &feats,
                            true,
                            &case,
                        ),
                        Ok(Err(e)) => st.violation(
                            "state_model.try_from_json",
                            "build_ok",
                            n as u64,
                            || e.clone(),
                            &case,
                        ),
                        Err(p) => st.violation(
                            "state_model.try_from_json",
                            "no_panic",
                            n as u64,
                            || p.clone(),
                            &case,
                        ),
                    }
                }
                // route 4: SearchApp::build_search_instance: k configured + (n-k) model features + a query override of one model feature
                if *stride == 1 || tier == Tier::Thorough {
                    // `listed_twice`: the access model lists the overridden feature as well (the same declaration as the traversal
                    // model's): one slot, and the override still decides its unit and initial value
                    for (k, other_unit, listed_twice) in [
                        (0usize, false, false),
                        (n / 2, false, false),
                        (0, true, false),
                        (n / 2, true, false),
                        (0, false, true),
                        (n / 2, true, true),
                    ] {
                        if n == 0 {
                            continue;
                        }
                        if listed_twice && n - 1 < k {
                            continue;
                        }
                        // the override may also name another unit of the same kind (the next one in the unit list)
                        if other_unit
                            && !matches!(
                                &feats[n - 1],
                                Feat::Dist(..) | Feat::Time(..) | Feat::Energy(..)
                            )
                        {
                            continue;
                        }
                        st.evaluations += 1;
                        st.transitions += 1;
                        st.traces += 1;
                        let configured = pairs[..k].to_vec();
                        let model_feats = pairs[k..].to_vec();
                        // override: the last model feature gets a new initial value through the query (same kind)
                        let mut feats2 = feats.clone();
                        let last = n - 1;
                        let mut query = json!({});
                        if last >= k {
                            fn next<T: PartialEq + Copy>(all: &[T], u: &T, other: bool) -> T {
                                let i = all.iter().position(|x| x == u).unwrap_or(0);
                                all[(i + other as usize) % all.len()]
                            }
                            let overridden = match &feats[last] {
                                Feat::Dist(u, _) => Feat::Dist(
                                    next(&crate::refmodel::units::DISTANCE_UNITS, u, other_unit),
                                    99.0,
                                ),
                                Feat::Time(u, _) => Feat::Time(
                                    next(&crate::refmodel::units::TIME_UNITS, u, other_unit),
                                    99.0,
                                ),
                                Feat::Energy(u, _) => Feat::Energy(
                                    next(&crate::refmodel::units::ENERGY_UNITS, u, other_unit),
                                    99.0,
                                ),
                                Feat::F64(_) => Feat::F64(99.0),
                                Feat::I64(_) => Feat::I64(99),
                                Feat::U64(_) => Feat::U64(99),
                                Feat::Bool(b) => Feat::Bool(!*b),
                            };
                            query =
                                json!({"state_features": {names[last].clone(): overridden.json()}});
                            feats2[last] = overridden;
                        }
                        let d = desc.clone();
                        let q = query.clone();
                        let case = move || json!({"route": "SearchApp::build_search_instance", "configured": k, "features": d, "query": q, "access_model_lists_the_overridden_feature_too": listed_twice});
                        let access_feats: Vec<(String, StateFeature)> = if listed_twice {
                            vec![pairs[n - 1].clone()]
                        } else {
                            vec![]
                        };
                        let weights: HashMap<String, f64> =
                            names.iter().map(|n| (n.clone(), 1.0)).collect();
                        let r = guarded(|| -> Result<Arc<StateModel>, String> {
                            let app = SearchApp {
                                search_algorithm: SearchAlgorithm::Dijkstra,
                                directed_graph: Arc::new(
                                    crate::world::net::Net {
                                        n: 1,
                                        edges: vec![],
                                        xy: None,
                                    }
                                    .graph(),
                                ),
                                state_model: Arc::new(StateModel::new(configured.clone())),
                                traversal_model_service: Arc::new(DeclaringService {
                                    feats: model_feats.clone(),
                                }),
                                access_model_service: if access_feats.is_empty() {
                                    Arc::new(NoAccessModel {})
                                } else {
                                    Arc::new(DeclaringAccess {
                                        feats: access_feats.clone(),
                                    })
                                },
                                cost_model_service: Arc::new(CostModelService {
                                    vehicle_rates: Arc::new(HashMap::new()),
                                    network_rates: Arc::new(HashMap::new()),
                                    weights: Arc::new(weights.clone()),
                                    cost_aggregation: CostAggregation::Sum,
                                    ignore_unknown_weights: true,
                                }),
                                frontier_model_service: Arc::new(NoRestriction {}),
                                termination_model: Arc::new(TerminationModel::IterationsLimit {
                                    limit: 10,
                                }),
                            };
                            let si = app
                                .build_search_instance(&query)
                                .map_err(|e| e.to_string())?;
                            Ok(si.state_model.clone())
                        });
                        match r {
                            Ok(Ok(sm)) => check_model(
                                st,
                                "state_model.search_instance",
                                &sm,
                                &names,
                                &feats2,
                                false,
                                &case,
                            ),
                            Ok(Err(e)) => st.violation(
                                &format!(
                                    "state_model.search_instance.n{}",
                                    if n > 5 {
                                        "6plus".to_string()
                                    } else {
                                        n.to_string()
                                    }
                                ),
                                "build_ok",
                                n as u64,
                                || e.clone(),
                                &case,
                            ),
                            Err(p) => st.violation(
                                "state_model.search_instance",
                                "no_panic",
                                n as u64,
                                || p.clone(),
                                &case,
                            ),
                        }
                    }
                }
                if start == 0 && *stride == 1 && (n == 2 || n == 7) {
                    let d = desc.clone();
                    st.sample(6, move || json!({"state_model_features": d}));
                }
            }
        }
    }
}

pub fn run(tier: Tier) -> i32 {
    let info = RunInfo::new("C11", tier);
    let mut st = Stats::new();
    let nkeys = tier.pick(7u8, 8u8);
    container_bfs(&mut st, nkeys);
    st.sample(
        2,
        || json!({"kind": "insert_history", "keys_inserted_in_order": [3, 1, 4, 1, 5, 0, 2, 6]}),
    );
    container_ctor(&mut st, nkeys, tier);
    state_models(&mut st, tier);
    finish(
        &info,
        st,
        "(a) explicit-state BFS: state = ordered key list of the reference Vec<(k,v)>, transition = insert(k, fresh value) applied to a live CompactOrderedHashMap clone, full API compared in every state; start states also from new/collect/from for every distinct-key list, followed by all 1-2 step insert histories; (b) state = one feature list (size 0..N over 16 feature kinds) x construction route; non-trivial = >= 5 entries (past the small-size specialisations)",
        true,
        json!({"keys": nkeys, "ctor_list_len": tier.pick(6, 7), "state_model_max_features": tier.pick(8, 9)}),
        vec![
            "states are deduplicated on the ordered key list: the container is generic in V so control flow cannot depend on values; every transition's result is still compared on concrete values".into(),
            "IndexedEntry fields are private; they are observed through their Debug rendering".into(),
        ],
    )
}

pub fn replay(case: &Value) -> i32 {
    println!("C11 replay of {}", case);
    let mut st = Stats::new();
    match case["kind"].as_str() {
        Some("insert_history") => {
            let keys: Vec<u8> =
                serde_json::from_value(case["keys_inserted_in_order"].clone()).unwrap_or_default();
            let mut m: Map = CompactOrderedHashMap::empty();
            let mut r: Ref = vec![];
            for (i, k) in keys.iter().enumerate() {
                let got = m.insert(*k, i as u32 + 1);
                let want = ref_insert(&mut r, *k, i as u32 + 1);
                println!("insert({}) -> {:?} (reference {:?})", k, got, want);
            }
            for (c, d) in compare(&m, &r, 8) {
                println!("REPLAY-VIOLATION {} {}", c, d);
                st.violation("replay", c, 0, || d.clone(), || json!({}));
            }
        }
        _ => {
            println!("constructor / state model cases are re-enumerated by `./check C11 quick` in under a second; running it");
            return run(Tier::Quick);
        }
    }
    if st.violations.is_empty() {
        println!("replay: no violation");
        0
    } else {
        1
    }
}
