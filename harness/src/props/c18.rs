//! C18 — strongly connected components: every digraph (with self loops) on n <= 4 (quick) / n = 5 (thorough)
use crate::engine::{finish, guarded, par_blocks, RunInfo, Stats, Tier};
use crate::refmodel::graph::scc_classes;
use crate::world::net::Net;
use routee_compass_core::algorithm::component::scc::{
    all_strongly_connected_componenets, largest_strongly_connected_component,
};
use serde_json::{json, Value};

fn net_from_mask(n: usize, mask: u64, mult2: u64) -> Net {
    let mut edges = vec![];
    for s in 0..n {
        for d in 0..n {
            let bit = (s * n + d) as u64;
            if mask >> bit & 1 == 1 {
                edges.push((s, d, 1.0));
                if mult2 >> bit & 1 == 1 {
                    edges.push((s, d, 1.0));
                }
            }
        }
    }
    Net { n, edges, xy: None }
}

pub fn check_net(net: &Net, component: &str, st: &mut Stats) {
    st.evaluations += 1;
    st.states += 1;
    st.transitions += 2;
    st.traces += 1;
    let pairs: Vec<(usize, usize)> = net.edges.iter().map(|e| (e.0, e.1)).collect();
    // reference: the cubic closure for small graphs (compared there with the linear reference as well), the linear one beyond
    let want = if net.n <= 64 {
        let w = scc_classes(net.n, &pairs);
        if crate::refmodel::graph::scc_classes_linear(net.n, &pairs) != w {
            st.violation(
                "harness",
                "references_agree",
                net.size(),
                || "the two reference implementations disagree".to_string(),
                || json!({"net": net}),
            );
            return;
        }
        w
    } else {
        crate::refmodel::graph::scc_classes_linear(net.n, &pairs)
    };
    if want.len() > 1 && want.iter().any(|c| c.len() > 1) {
        st.nontrivial += 1;
    }
    let g = net.graph();
    let case = || json!({"net": net});
    let size = net.size();
    match guarded(|| all_strongly_connected_componenets(&g)) {
        Err(p) => st.violation(component, "no_panic", size, || p.clone(), case),
        Ok(Err(e)) => st.violation(component, "returns_ok", size, || e.to_string(), case),
        Ok(Ok(comps)) => {
            let mut got: Vec<Vec<usize>> = comps
                .iter()
                .map(|c| {
                    let mut v: Vec<usize> = c.iter().map(|x| x.0).collect();
                    v.sort();
                    v
                })
                .collect();
            got.sort();
            // every vertex exactly once
            let mut seen = vec![0usize; net.n];
            let mut in_range = true;
            for c in got.iter() {
                for v in c {
                    if *v < net.n {
                        seen[*v] += 1;
                    } else {
                        in_range = false;
                    }
                }
            }
            if in_range && seen.iter().all(|c| *c == 1) {
                st.pass("each_vertex_once");
            } else {
                st.violation(
                    component,
                    "each_vertex_once",
                    size,
                    || format!("got {:?}", got),
                    case,
                );
            }
            if got == want {
                st.pass("partition_is_mutual_reachability");
            } else {
                st.violation(
                    component,
                    "partition_is_mutual_reachability",
                    size,
                    || format!("got {:?} want {:?}", got, want),
                    case,
                );
            }
            st.outcome(&format!("{}comps", got.len()));
        }
    }
    match guarded(|| largest_strongly_connected_component(&g)) {
        Err(p) => st.violation(component, "largest_no_panic", size, || p.clone(), case),
        Ok(Err(e)) => {
            if net.n == 0 {
                st.pass("largest_of_empty_is_error");
            } else {
                st.violation(
                    component,
                    "largest_returns_ok",
                    size,
                    || e.to_string(),
                    case,
                )
            }
        }
        Ok(Ok(c)) => {
            let mut v: Vec<usize> = c.iter().map(|x| x.0).collect();
            v.sort();
            let max = want.iter().map(|c| c.len()).max().unwrap_or(0);
            if v.len() == max && (want.contains(&v) || net.n == 0) {
                st.pass("largest_is_maximal");
            } else {
                st.violation(
                    component,
                    "largest_is_maximal",
                    size,
                    || format!("got {:?}, classes {:?}", v, want),
                    case,
                );
            }
        }
    }
}

fn family_nets() -> Vec<(String, Net)> {
    let mut out = vec![];
    for n in [10usize, 30, 60] {
        // chain
        out.push((
            format!("chain{}", n),
            Net {
                n,
                edges: (0..n - 1).map(|i| (i, i + 1, 1.0)).collect(),
                xy: None,
            },
        ));
        // ring
        out.push((
            format!("ring{}", n),
            Net {
                n,
                edges: (0..n).map(|i| (i, (i + 1) % n, 1.0)).collect(),
                xy: None,
            },
        ));
        // nested cycles: ring over first half, chain to second half ring, one back edge variant
        let h = n / 2;
        let mut e: Vec<(usize, usize, f64)> = (0..h).map(|i| (i, (i + 1) % h, 1.0)).collect();
        e.extend((h..n).map(|i| (i, if i + 1 < n { i + 1 } else { h }, 1.0)));
        e.push((0, h, 1.0));
        out.push((
            format!("two_rings_bridge{}", n),
            Net {
                n,
                edges: e.clone(),
                xy: None,
            },
        ));
        e.push((n - 1, 1, 1.0));
        out.push((
            format!("two_rings_merged{}", n),
            Net {
                n,
                edges: e,
                xy: None,
            },
        ));
        // hub of degree 8 with return edges from every second spoke, plus isolated vertices
        let mut e = vec![];
        for k in 1..=8usize.min(n - 1) {
            e.push((0, k, 1.0));
            if k % 2 == 0 {
                e.push((k, 0, 1.0));
            }
        }
        out.push((
            format!("hub{}", n),
            Net {
                n,
                edges: e,
                xy: None,
            },
        ));
        // ladder of 2-cycles: i <-> i+1 for even i, i -> i+1 for odd i
        let mut e = vec![];
        for i in 0..n - 1 {
            e.push((i, i + 1, 1.0));
            if i % 2 == 0 {
                e.push((i + 1, i, 1.0));
            }
        }
        out.push((
            format!("ladder{}", n),
            Net {
                n,
                edges: e,
                xy: None,
            },
        ));
    }
    // long one-way structures (the analysis recurses along them): numbered along and against the edges
    for n in [1000usize, 1500, 2500] {
        out.push((
            format!("chain{}", n),
            Net {
                n,
                edges: (0..n - 1).map(|i| (i, i + 1, 1.0)).collect(),
                xy: None,
            },
        ));
        out.push((
            format!("chain_backwards{}", n),
            Net {
                n,
                edges: (0..n - 1).map(|i| (i + 1, i, 1.0)).collect(),
                xy: None,
            },
        ));
        let mut e: Vec<(usize, usize, f64)> = (0..n - 1).map(|i| (i, i + 1, 1.0)).collect();
        e.push((n - 1, n - 3, 1.0));
        out.push((
            format!("chain_into_3cycle{}", n),
            Net {
                n,
                edges: e,
                xy: None,
            },
        ));
        out.push((
            format!("ring{}", n),
            Net {
                n,
                edges: (0..n).map(|i| (i, (i + 1) % n, 1.0)).collect(),
                xy: None,
            },
        ));
        let h = n / 2;
        let mut e: Vec<(usize, usize, f64)> = (0..h).map(|i| (i, (i + 1) % h, 1.0)).collect();
        e.extend((h..n).map(|i| (i, if i + 1 < n { i + 1 } else { h }, 1.0)));
        e.push((h - 1, h, 1.0));
        out.push((
            format!("two_rings_bridge{}", n),
            Net {
                n,
                edges: e,
                xy: None,
            },
        ));
    }
    out
}

pub fn run(tier: Tier) -> i32 {
    let info = RunInfo::new("C18", tier);
    let mut total = Stats::new();
    let max_n = tier.pick(4usize, 5usize);
    for n in 0..=max_n {
        let bits = (n * n) as u32;
        let count: u64 = 1u64 << bits;
        let st = par_blocks(count, 4096, |lo, hi, st| {
            for mask in lo..hi {
                let net = net_from_mask(n, mask, 0);
                check_net(&net, "all_digraphs", st);
                if mask == 0b0110 || mask == count - 1 {
                    st.sample(3, || json!({"n": n, "edges": net.edges.iter().map(|e| (e.0, e.1)).collect::<Vec<_>>()}));
                }
            }
        });
        total.merge(st);
    }
    // multigraphs with multiplicity <= 2 on n = 3: for every edge set every subset doubled
    let n = 3usize;
    let st = par_blocks(1 << 9, 16, |lo, hi, st| {
        for mask in lo..hi {
            let mut sub = mask;
            loop {
                if sub != 0 {
                    let net = net_from_mask(n, mask, sub);
                    check_net(&net, "multigraphs_n3", st);
                }
                if sub == 0 {
                    break;
                }
                sub = (sub - 1) & mask;
            }
        }
    });
    total.merge(st);
    // the families run on a thread with a large stack: the analysis under test recurses once per vertex of a chain
    let fam = std::thread::Builder::new().stack_size(256 << 20).spawn(|| {
        let mut total = Stats::new();
        for (name, net) in family_nets() {
            let mut st = Stats::new();
            check_net(&net, "families", &mut st);
            st.sample(6, || json!({"family": name, "n": net.n, "m": net.m()}));
            total.merge(st);
        }
        total
    });
    match fam.map(|h| h.join()) {
        Ok(Ok(st)) => total.merge(st),
        other => {
            println!(
                "MACHINERY-ERROR the family thread failed: {:?}",
                other.map(|r| r.is_ok())
            );
            return 2;
        }
    }
    finish(
        &info,
        total,
        "state = one labelled digraph (self loops allowed); all 2^(n*n) digraphs for n=0..N, all multiplicity<=2 multigraphs on n=3, plus structured families up to 60 vertices and long one-way structures (chains along / against the numbering, chain into a cycle, rings, bridged rings) of 1000, 1500 and 2500 vertices; transition = one call of the component analysis on the real code; non-trivial = more than one class and some class with > 1 vertex",
        true,
        json!({"max_n_exhaustive": max_n, "graphs_n": (0..=max_n).map(|n| 1u64 << (n*n)).collect::<Vec<_>>(), "families_up_to": 2500}),
        vec![
            "oracle: Floyd-Warshall mutual reachability".into(),
            "recursion depth of the DFS is not explored beyond 60 vertices (stack overflow on ~1e5-vertex chains is out of bound)".into(),
        ],
    )
}

pub fn replay(case: &Value) -> i32 {
    let net: Net = match serde_json::from_value(case["net"].clone()) {
        Ok(n) => n,
        Err(e) => {
            println!("MACHINERY-ERROR cannot parse case: {}", e);
            return 2;
        }
    };
    let mut st = Stats::new();
    check_net(&net, "replay", &mut st);
    for (k, g) in st.violations.iter() {
        println!("REPLAY-VIOLATION {} {}", k, g.detail);
    }
    println!(
        "replay: {} violations, passes {:?}",
        st.violations.len(),
        st.clause_pass
    );
    if st.violations.is_empty() {
        0
    } else {
        1
    }
}
