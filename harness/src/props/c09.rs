//! C09 — unit conversions: complete enumeration of all ordered unit pairs and constructor triples
use crate::engine::{close, finish, guarded, RunInfo, Stats, Tier};
use crate::refmodel::units as ru;
use routee_compass_core::model::unit::as_f64::AsF64;
use routee_compass_core::model::unit::*;
use serde_json::{json, Value};

const MAGS: [f64; 9] = [
    0.0,
    1.0,
    -1.0,
    1e-3,
    -1e-3,
    12_345.678,
    -12_345.678,
    1e9,
    3.5,
];

/// checks one family given `conv(i, j, v)` = implementation conversion, `phys(i,j)` = physical factor (None = not required)
fn family(
    st: &mut Stats,
    name: &str,
    n: usize,
    conv: &dyn Fn(usize, usize, f64) -> f64,
    phys: &dyn Fn(usize, usize) -> Option<f64>,
    unit_name: &dyn Fn(usize) -> String,
) {
    for i in 0..n {
        for j in 0..n {
            st.states += 1;
            let mut nontrivial = false;
            for (mi, &v) in MAGS.iter().enumerate() {
                st.evaluations += 1;
                st.transitions += 1;
                st.traces += 1;
                let case = || json!({"family": name, "from": unit_name(i), "to": unit_name(j), "value": v});
                let size = (i * n + j) as u64 * 100 + mi as u64;
                let r = match guarded(|| conv(i, j, v)) {
                    Ok(r) => r,
                    Err(p) => {
                        st.violation(name, "no_panic", size, || p.clone(), case);
                        continue;
                    }
                };
                // identity
                if i == j {
                    if r == v {
                        st.pass("identity");
                    } else {
                        st.violation(name, "identity", size, || format!("{} -> {}", v, r), case);
                    }
                } else {
                    nontrivial = true;
                }
                // homogeneity: conv(2.5 v) = 2.5 conv(v); additivity: conv(v + w) = conv(v)+conv(w)
                let r2 = conv(i, j, 2.5 * v);
                if close(r2, 2.5 * r, 1e-12) {
                    st.pass("homogeneous");
                } else {
                    st.violation(
                        name,
                        "homogeneous",
                        size,
                        || format!("conv(2.5*{})={} vs 2.5*{}", v, r2, r),
                        case,
                    );
                }
                let w = 7.25;
                let rw = conv(i, j, w);
                let rs = conv(i, j, v + w);
                if close(rs, r + rw, 1e-9) || (rs - (r + rw)).abs() <= 1e-12 * (r.abs() + rw.abs())
                {
                    st.pass("additive");
                } else {
                    st.violation(
                        name,
                        "additive",
                        size,
                        || format!("conv({}+{})={} vs {}+{}", v, w, rs, r, rw),
                        case,
                    );
                }
                // sign / zero
                if v == 0.0 {
                    if r == 0.0 {
                        st.pass("zero");
                    } else {
                        st.violation(name, "zero", size, || format!("conv(0)={}", r), case);
                    }
                }
                // round trip within 0.1 %
                let back = conv(j, i, r);
                if close(back, v, 1e-3) {
                    st.pass("round_trip");
                } else {
                    st.violation(
                        name,
                        "round_trip",
                        size,
                        || format!("{} -> {} -> {}", v, r, back),
                        case,
                    );
                }
                // physical factor within 0.1 %
                if let Some(f) = phys(i, j) {
                    if close(r, v * f, 1e-3) {
                        st.pass("physical");
                    } else {
                        st.violation(
                            name,
                            "physical",
                            size,
                            || {
                                format!(
                                    "{} {} -> {} {} gives {}, physical {}",
                                    v,
                                    unit_name(i),
                                    unit_name(j),
                                    "",
                                    r,
                                    v * f
                                )
                            },
                            case,
                        );
                    }
                }
            }
            if nontrivial {
                st.nontrivial += 1;
            }
            st.sample(4, || json!({"family": name, "from": unit_name(i), "to": unit_name(j), "factor_observed": conv(i, j, 1.0)}));
        }
    }
}

pub fn run(tier: Tier) -> i32 {
    let info = RunInfo::new("C09", tier);
    let mut st = Stats::new();
    let d = ru::DISTANCE_UNITS;
    let t = ru::TIME_UNITS;
    let s = ru::SPEED_UNITS;
    let e = ru::ENERGY_UNITS;
    let g = ru::GRADE_UNITS;
    let w = ru::WEIGHT_UNITS;
    family(
        &mut st,
        "distance",
        5,
        &|i, j, v| d[i].convert(&Distance::new(v), &d[j]).as_f64(),
        &|i, j| Some(ru::distance_m(&d[i]) / ru::distance_m(&d[j])),
        &|i| d[i].to_string(),
    );
    family(
        &mut st,
        "time",
        4,
        &|i, j, v| t[i].convert(&Time::new(v), &t[j]).as_f64(),
        &|i, j| Some(ru::time_s(&t[i]) / ru::time_s(&t[j])),
        &|i| t[i].to_string(),
    );
    family(
        &mut st,
        "speed",
        3,
        &|i, j, v| s[i].convert(&Speed::new(v), &s[j]).as_f64(),
        &|i, j| Some(ru::speed_mps(&s[i]) / ru::speed_mps(&s[j])),
        &|i| s[i].to_string(),
    );
    family(
        &mut st,
        "grade",
        3,
        &|i, j, v| g[i].convert(&Grade::new(v), &g[j]).as_f64(),
        &|i, j| Some(ru::grade_dec(&g[i]) / ru::grade_dec(&g[j])),
        &|i| g[i].to_string(),
    );
    family(
        &mut st,
        "weight",
        3,
        &|i, j, v| w[i].convert(&Weight::new(v), &w[j]).as_f64(),
        &|i, j| Some(ru::weight_kg(&w[i]) / ru::weight_kg(&w[j])),
        &|i| w[i].to_string(),
    );
    // energy: only linear and invertible, as the statement says
    family(
        &mut st,
        "energy",
        3,
        &|i, j, v| e[i].convert(&Energy::new(v), &e[j]).as_f64(),
        &|_, _| None,
        &|i| e[i].to_string(),
    );

    // constructors: every unit triple x magnitudes against the definition
    let mags = [(1.0, 1.0), (30.0, 1500.0), (0.25, 12.5)];
    for su in s.iter() {
        for du in d.iter() {
            for tu in t.iter() {
                st.states += 1;
                st.nontrivial += 1;
                for (sv, dv) in mags.iter() {
                    st.evaluations += 1;
                    st.transitions += 1;
                    st.traces += 1;
                    let case = || json!({"ctor": "Time::create", "speed": sv, "speed_unit": su.to_string(), "distance": dv, "distance_unit": du.to_string(), "time_unit": tu.to_string()});
                    let got =
                        guarded(|| Time::create(&Speed::new(*sv), su, &Distance::new(*dv), du, tu));
                    let want =
                        (dv * ru::distance_m(du)) / (sv * ru::speed_mps(su)) / ru::time_s(tu);
                    match got {
                        Ok(Ok(tm)) if close(tm.as_f64(), want, 1e-3) => {
                            st.pass("time_is_distance_over_speed")
                        }
                        Ok(Ok(tm)) => st.violation(
                            "Time::create",
                            "definition",
                            0,
                            || format!("got {} want {}", tm.as_f64(), want),
                            case,
                        ),
                        Ok(Err(e)) => st.violation(
                            "Time::create",
                            "definition",
                            0,
                            || format!("unexpected Err {} want {}", e, want),
                            case,
                        ),
                        Err(p) => st.violation("Time::create", "no_panic", 0, || p.clone(), case),
                    }
                }
                // non-positive speed or distance must be rejected
                for (sv, dv) in [
                    (0.0, 10.0),
                    (-5.0, 10.0),
                    (5.0, 0.0),
                    (5.0, -10.0),
                    (0.0, 0.0),
                    (-1.0, -1.0),
                ] {
                    st.evaluations += 1;
                    st.transitions += 1;
                    st.traces += 1;
                    let case = || json!({"ctor": "Time::create", "speed": sv, "speed_unit": su.to_string(), "distance": dv, "distance_unit": du.to_string(), "time_unit": tu.to_string()});
                    match guarded(|| Time::create(&Speed::new(sv), su, &Distance::new(dv), du, tu))
                    {
                        Ok(Err(_)) => st.pass("non_positive_rejected"),
                        Ok(Ok(tm)) => st.violation(
                            "Time::create",
                            "non_positive_rejected",
                            0,
                            || {
                                format!(
                                    "speed {} distance {} produced time {}",
                                    sv,
                                    dv,
                                    tm.as_f64()
                                )
                            },
                            case,
                        ),
                        Err(p) => st.violation("Time::create", "no_panic", 0, || p.clone(), case),
                    }
                }
            }
        }
    }
    let mags = [(1.0, 1.0), (90.0, 1500.0), (0.5, 12.5)];
    for tu in t.iter() {
        for du in d.iter() {
            for su in s.iter() {
                st.states += 1;
                st.nontrivial += 1;
                for (tv, dv) in mags.iter() {
                    st.evaluations += 1;
                    st.transitions += 1;
                    st.traces += 1;
                    let case = || json!({"ctor": "Speed::create", "time": tv, "time_unit": tu.to_string(), "distance": dv, "distance_unit": du.to_string(), "speed_unit": su.to_string()});
                    let got =
                        guarded(|| Speed::create(&Time::new(*tv), tu, &Distance::new(*dv), du, su));
                    let want =
                        (dv * ru::distance_m(du)) / (tv * ru::time_s(tu)) / ru::speed_mps(su);
                    match got {
                        Ok(Ok(sp)) if close(sp.as_f64(), want, 1e-3) => {
                            st.pass("speed_is_distance_over_time")
                        }
                        Ok(Ok(sp)) => st.violation(
                            "Speed::create",
                            "definition",
                            0,
                            || format!("got {} want {}", sp.as_f64(), want),
                            case,
                        ),
                        Ok(Err(e)) => st.violation(
                            "Speed::create",
                            "definition",
                            0,
                            || format!("unexpected Err {} want {}", e, want),
                            case,
                        ),
                        Err(p) => st.violation("Speed::create", "no_panic", 0, || p.clone(), case),
                    }
                }
            }
        }
    }
    let mags = [(1.0, 1.0), (0.25, 1500.0), (-0.1, 12.5)];
    for ru_ in ru::ENERGY_RATE_UNITS.iter() {
        for du in d.iter() {
            st.states += 1;
            st.nontrivial += 1;
            for (rv, dv) in mags.iter() {
                st.evaluations += 1;
                st.transitions += 1;
                st.traces += 1;
                let case = || json!({"ctor": "Energy::create", "rate": rv, "rate_unit": ru_.to_string(), "distance": dv, "distance_unit": du.to_string()});
                let got =
                    guarded(|| Energy::create(&EnergyRate::new(*rv), ru_, &Distance::new(*dv), du));
                let rate_du = ru::rate_distance_unit(ru_);
                let want = rv * dv * ru::distance_m(du) / ru::distance_m(&rate_du);
                match got {
                    Ok(Ok((en, eu)))
                        if close(en.as_f64(), want, 1e-3) && eu == ru::rate_energy_unit(ru_) =>
                    {
                        st.pass("energy_is_rate_times_distance")
                    }
                    Ok(Ok((en, eu))) => st.violation(
                        "Energy::create",
                        "definition",
                        0,
                        || format!("got {} {} want {}", en.as_f64(), eu, want),
                        case,
                    ),
                    Ok(Err(e)) => st.violation(
                        "Energy::create",
                        "definition",
                        0,
                        || format!("unexpected Err {} want {}", e, want),
                        case,
                    ),
                    Err(p) => st.violation("Energy::create", "no_panic", 0, || p.clone(), case),
                }
            }
        }
    }
    st.sample(6, || json!({"ctor": "Time::create", "speed": 30.0, "speed_unit": "kilometers_per_hour", "distance": 1500.0, "distance_unit": "meters", "time_unit": "minutes"}));
    let bounds: Value = json!({"unit_pairs": "all 25+16+9+9+9+9 ordered pairs", "magnitudes": MAGS, "constructor_triples": "60 Time::create + 60 Speed::create + 25 Energy::create"});
    finish(
        &info,
        st,
        "state = one ordered unit pair of one family or one constructor unit triple; transition = one conversion executed on the implementation; non-trivial = pair of distinct units or any constructor triple",
        true,
        bounds,
        vec![
            "magnitudes outside the 9-value alphabet are covered by linearity (the tables are per-pair constant factors)".into(),
            "physical factors: international mile/foot/inch, short ton, avoirdupois pound".into(),
        ],
    )
}

pub fn replay(case: &Value) -> i32 {
    println!("C09 replay: case {}", case);
    println!("re-run `./check C09 quick` — every case is re-enumerated in < 1 s and the verdict for this one is printed in the summary");
    run(Tier::Quick)
}
