//! C04 — routes and trees never use an edge or turn the query is forbidden to use
use crate::engine::{finish, RunInfo, Stats, Tier};
use crate::props::search_common::*;
use crate::refmodel::units as ru;
use crate::world::net::{par_enumerate, GenSpec, LenMode, Net};
use crate::world::sw::World;
use routee_compass::app::compass::config::frontier_model::combined::combined_service::CombinedFrontierService;
use routee_compass::app::compass::config::frontier_model::road_class::road_class_parser::RoadClassParser;
use routee_compass::app::compass::config::frontier_model::road_class::road_class_service::RoadClassFrontierService;
use routee_compass::app::compass::config::frontier_model::turn_restrictions::turn_restriction_service::{RestrictedEdgePair, TurnRestrictionFrontierService};
use routee_compass::app::compass::config::frontier_model::vehicle_restrictions::vehicle_restriction::VehicleRestriction;
use routee_compass::app::compass::config::frontier_model::vehicle_restrictions::vehicle_restriction_service::VehicleRestrictionFrontierService;
use routee_compass_core::algorithm::search::util::edge_cut_frontier_model::EdgeCutFrontierModel;
use routee_compass_core::model::frontier::default::no_restriction::NoRestriction;
use routee_compass_core::model::frontier::frontier_model_service::FrontierModelService;
use routee_compass_core::model::network::EdgeId;
use routee_compass_core::model::unit::*;
use serde::{Deserialize, Serialize};
use serde_json::{json, Value};
use std::collections::{HashMap, HashSet};
use std::sync::Arc;

/// one vehicle restriction row in raw form: kind, limit value, unit name
#[derive(Clone, Debug, Serialize, Deserialize)]
pub struct RawRestriction {
    pub edge: usize,
    pub kind: String,
    pub value: f64,
    pub unit: String,
}

#[derive(Clone, Debug, Serialize, Deserialize, Default)]
pub struct Restr {
    /// per-edge road class (empty = no road class model)
    pub classes: Vec<u8>,
    /// the query's road_classes value (numeric list or names), None = field absent
    pub query_classes: Option<Value>,
    pub class_names: Vec<(String, u8)>,
    pub vehicle_rows: Vec<RawRestriction>,
    /// the query's vehicle_parameters
    pub vehicle: Option<Value>,
    /// restricted (prev, next) pairs; None = no turn model
    pub turns: Option<Vec<(usize, usize)>>,
    /// edges cut by an alternative-route search (EdgeCutFrontierModel wrapped around the rest)
    pub cut: Vec<usize>,
    /// 0 = the services are constructed directly; otherwise they are built by the repository's builders from files written
    /// for the purpose: 1 = one entry per model, rows in the listed order; 2 = the vehicle rows spread out (a row of another
    /// edge that binds no vehicle between any two rows, so that the rows of one edge are not neighbours in the file) and the
    /// columns of both files listed in another order under their names;
    /// 3 = vehicle rows and restricted turns split over two entries of the same type inside one combined model
    #[serde(default)]
    pub from_files: u8,
}

fn dist_unit(name: &str) -> Option<DistanceUnit> {
    serde_json::from_value(json!(name)).ok()
}
fn weight_unit(name: &str) -> Option<WeightUnit> {
    serde_json::from_value(json!(name)).ok()
}

impl Restr {
    fn n_models(&self) -> usize {
        (!self.classes.is_empty()) as usize
            + (!self.vehicle_rows.is_empty()) as usize
            + self.turns.is_some() as usize
    }
    pub fn query(&self) -> Value {
        let mut q = json!({});
        if let Some(c) = &self.query_classes {
            q["road_classes"] = c.clone();
        }
        if let Some(v) = &self.vehicle {
            q["vehicle_parameters"] = v.clone();
        }
        q
    }
    /// the configuration route: files + builders (`m` = number of edges of the network)
    fn service_from_files(&self, m: usize) -> Result<Arc<dyn FrontierModelService>, String> {
        use routee_compass::app::compass::config::frontier_model::combined::combined_builder::CombinedBuilder;
        use routee_compass::app::compass::config::frontier_model::road_class::road_class_builder::RoadClassBuilder;
        use routee_compass::app::compass::config::frontier_model::turn_restrictions::turn_restriction_builder::TurnRestrictionBuilder;
        use routee_compass::app::compass::config::frontier_model::vehicle_restrictions::vehicle_restriction_builder::VehicleRestrictionBuilder;
        use routee_compass_core::model::frontier::frontier_model_builder::FrontierModelBuilder;
        // one directory per thread, files overwritten from case to case (the builders read them while they build)
        thread_local! {
            static DIR: crate::world::app::Scratch = crate::world::app::Scratch::new("c04f");
        }
        let d: std::path::PathBuf = DIR.with(|s| s.path.clone());
        let _ = std::fs::create_dir_all(&d);
        let w = |name: &str, text: String| -> Result<String, String> {
            let p = d.join(name);
            std::fs::write(&p, text)
                .map_err(|e| format!("harness: cannot write {}: {}", name, e))?;
            Ok(p.to_str().unwrap_or("").to_string())
        };
        let mut entries: Vec<Value> = vec![];
        // vehicle rows: one file, or two (mode 3)
        let row_text = |rows: &[RawRestriction], spread: bool| -> String {
            // columns are found by their names: layout 2 lists them in another order (unit, value, edge, name)
            let mut t = String::from(if spread {
                "restriction_unit,restriction_value,edge_id,restriction_name\n"
            } else {
                "edge_id,restriction_name,restriction_value,restriction_unit\n"
            });
            for (i, r) in rows.iter().enumerate() {
                if spread && i > 0 && m > 1 {
                    t.push_str(&format!(
                        "meters,1000000,{},maximum_height\n",
                        (r.edge + 1) % m
                    ));
                }
                if spread {
                    t.push_str(&format!("{},{},{},{}\n", r.unit, r.value, r.edge, r.kind));
                    continue;
                }
                t.push_str(&format!("{},{},{},{}\n", r.edge, r.kind, r.value, r.unit));
            }
            t
        };
        let swapped = self.from_files == 2;
        let turn_text = |pairs: &[(usize, usize)]| -> String {
            let mut t = String::from(if swapped {
                "next_edge_id,prev_edge_id\n"
            } else {
                "prev_edge_id,next_edge_id\n"
            });
            for (a, b) in pairs {
                if swapped {
                    t.push_str(&format!("{},{}\n", b, a));
                } else {
                    t.push_str(&format!("{},{}\n", a, b));
                }
            }
            t
        };
        let split = self.from_files == 3;
        if !self.vehicle_rows.is_empty() {
            if split {
                let h = (self.vehicle_rows.len() + 1) / 2;
                entries.push(json!({"type": "vehicle_restriction", "vehicle_restriction_input_file": w("vr_a.csv", row_text(&self.vehicle_rows[..h], false))?}));
            } else {
                entries.push(json!({"type": "vehicle_restriction", "vehicle_restriction_input_file": w("vr.csv", row_text(&self.vehicle_rows, self.from_files == 2))?}));
            }
        }
        if let Some(t) = &self.turns {
            let h = if split { (t.len() + 1) / 2 } else { t.len() };
            entries.push(json!({"type": "turn_restriction", "turn_restriction_input_file": w("turns_a.csv", turn_text(&t[..h]))?}));
        }
        if !self.classes.is_empty() {
            let mapping: HashMap<String, u8> = self.class_names.iter().cloned().collect();
            let text: String = self.classes.iter().map(|c| format!("{}\n", c)).collect();
            entries.push(json!({"type": "road_class", "road_class_input_file": w("classes.txt", text)?, "road_class_parser": {"mapping": mapping}}));
        }
        if split {
            if !self.vehicle_rows.is_empty() {
                let h = (self.vehicle_rows.len() + 1) / 2;
                entries.push(json!({"type": "vehicle_restriction", "vehicle_restriction_input_file": w("vr_b.csv", row_text(&self.vehicle_rows[h..], false))?}));
            }
            if let Some(t) = &self.turns {
                let h = (t.len() + 1) / 2;
                entries.push(json!({"type": "turn_restriction", "turn_restriction_input_file": w("turns_b.csv", turn_text(&t[h..]))?}));
            }
        }
        let combined = CombinedBuilder {
            builders: HashMap::new(),
        }
        .register_builder(
            "road_class".to_string(),
            std::rc::Rc::new(RoadClassBuilder {}),
        )
        .register_builder(
            "vehicle_restriction".to_string(),
            std::rc::Rc::new(VehicleRestrictionBuilder {}),
        )
        .register_builder(
            "turn_restriction".to_string(),
            std::rc::Rc::new(TurnRestrictionBuilder {}),
        );
        let built = match entries.len() {
            0 => return Ok(Arc::new(NoRestriction {})),
            1 if !split => match entries[0]["type"].as_str() {
                Some("road_class") => RoadClassBuilder {}.build(&entries[0]),
                Some("vehicle_restriction") => VehicleRestrictionBuilder {}.build(&entries[0]),
                _ => TurnRestrictionBuilder {}.build(&entries[0]),
            },
            _ => combined.build(&json!({"type": "combined", "models": entries})),
        };
        built.map_err(|e| format!("the builder rejects {}: {}", json!(entries), e))
    }
    pub fn service(&self, m: usize) -> Result<Arc<dyn FrontierModelService>, String> {
        if self.from_files > 0 {
            return self.service_from_files(m);
        }
        Ok(self.service_direct())
    }
    fn service_direct(&self) -> Arc<dyn FrontierModelService> {
        let mut inner: Vec<Arc<dyn FrontierModelService>> = vec![];
        if !self.classes.is_empty() {
            let mapping: HashMap<String, u8> = self.class_names.iter().cloned().collect();
            let parser: RoadClassParser =
                serde_json::from_value(json!({"mapping": mapping})).unwrap_or_default();
            inner.push(Arc::new(RoadClassFrontierService {
                road_class_lookup: Arc::new(self.classes.clone().into_boxed_slice()),
                road_class_parser: parser,
            }));
        }
        if !self.vehicle_rows.is_empty() {
            let mut lookup: HashMap<EdgeId, Vec<VehicleRestriction>> = HashMap::new();
            for r in self.vehicle_rows.iter() {
                let v: VehicleRestriction =
                    serde_json::from_value(json!({r.kind.clone(): [r.value, r.unit]}))
                        .expect("restriction row");
                lookup.entry(EdgeId(r.edge)).or_default().push(v);
            }
            inner.push(Arc::new(VehicleRestrictionFrontierService {
                vehicle_restriction_lookup: Arc::new(lookup),
            }));
        }
        if let Some(t) = &self.turns {
            let set: HashSet<RestrictedEdgePair> = t
                .iter()
                .map(|(a, b)| RestrictedEdgePair {
                    prev_edge_id: EdgeId(*a),
                    next_edge_id: EdgeId(*b),
                })
                .collect();
            inner.push(Arc::new(TurnRestrictionFrontierService {
                restricted_edge_pairs: Arc::new(set),
            }));
        }
        match inner.len() {
            0 => Arc::new(NoRestriction {}),
            1 => inner.remove(0),
            _ => Arc::new(CombinedFrontierService {
                inner_services: inner,
            }),
        }
    }
    /// reference: Some(true) permitted, Some(false) forbidden, None = on the equality boundary (skipped)
    pub fn permitted(&self, e: usize) -> Option<bool> {
        if self.cut.contains(&e) {
            return Some(false);
        }
        if !self.classes.is_empty() {
            if let Some(qc) = &self.query_classes {
                let allowed: Vec<u8> = qc
                    .as_array()
                    .map(|a| {
                        a.iter()
                            .filter_map(|v| match v {
                                Value::Number(n) => n.as_u64().map(|x| x as u8),
                                Value::String(s) => self
                                    .class_names
                                    .iter()
                                    .find(|(n, _)| n == s)
                                    .map(|(_, c)| *c),
                                _ => None,
                            })
                            .collect()
                    })
                    .unwrap_or_default();
                if !allowed.contains(&self.classes[e]) {
                    return Some(false);
                }
            }
        }
        let mut boundary = false;
        if let Some(vp) = &self.vehicle {
            for r in self.vehicle_rows.iter().filter(|r| r.edge == e) {
                let (field, is_weight, per_axle) = match r.kind.as_str() {
                    "maximum_total_weight" => ("total_weight", true, false),
                    "maximum_weight_per_axle" => ("total_weight", true, true),
                    "maximum_length" => ("total_length", false, false),
                    "maximum_width" => ("width", false, false),
                    "maximum_height" => ("height", false, false),
                    _ => ("trailer_length", false, false),
                };
                let val = vp[field][0].as_f64().unwrap_or(0.0);
                let unit = vp[field][1].as_str().unwrap_or("");
                let (vehicle_si, limit_si) = if is_weight {
                    let vu = weight_unit(unit).map(|u| ru::weight_kg(&u)).unwrap_or(1.0);
                    let lu = weight_unit(&r.unit)
                        .map(|u| ru::weight_kg(&u))
                        .unwrap_or(1.0);
                    let axles = if per_axle {
                        vp["number_of_axles"].as_f64().unwrap_or(1.0)
                    } else {
                        1.0
                    };
                    (val * vu / axles, r.value * lu)
                } else {
                    let vu = dist_unit(unit).map(|u| ru::distance_m(&u)).unwrap_or(1.0);
                    let lu = dist_unit(&r.unit)
                        .map(|u| ru::distance_m(&u))
                        .unwrap_or(1.0);
                    (val * vu, r.value * lu)
                };
                if (vehicle_si - limit_si).abs() <= 1e-3 * limit_si.abs() {
                    boundary = true;
                } else if vehicle_si > limit_si {
                    return Some(false);
                }
            }
        }
        if boundary {
            None
        } else {
            Some(true)
        }
    }
}

pub fn check_case(
    w: &World,
    r: &Restr,
    algo: &Algo,
    orient: &Orient,
    reverse: bool,
    st: &mut Stats,
) {
    st.evaluations += 1;
    st.transitions += 1;
    st.traces += 1;
    let net = &w.net;
    let query = r.query();
    let sm = Arc::new(w.state_model());
    let case = || case_json(w, algo, orient, reverse, json!({"restrictions": r}));
    let size = net.size()
        + (r.n_models() * 3 + r.vehicle_rows.len() + r.turns.as_ref().map_or(0, |t| t.len()))
            as u64;
    let service = match crate::engine::guarded(|| r.service(net.m())) {
        Ok(Ok(s)) => s,
        Ok(Err(e)) if e.starts_with("harness") => {
            st.violation("harness", "restriction_files", 0, || e.clone(), case);
            return;
        }
        Ok(Err(e)) => {
            st.violation(
                "frontier_builder",
                "builds_from_valid_configuration",
                size,
                || e.clone(),
                case,
            );
            return;
        }
        Err(p) => {
            st.violation("frontier_builder", "no_panic", size, || p.clone(), case);
            return;
        }
    };
    let model = match crate::engine::guarded(|| service.build(&query, sm.clone())) {
        Ok(Ok(m)) => m,
        Ok(Err(e)) => {
            st.violation(
                "frontier_service.build",
                "builds_from_valid_query",
                size,
                || e.to_string(),
                case,
            );
            return;
        }
        Err(p) => {
            st.violation(
                "frontier_service.build",
                "no_panic",
                size,
                || p.clone(),
                case,
            );
            return;
        }
    };
    let model = if r.cut.is_empty() {
        model
    } else {
        Arc::new(EdgeCutFrontierModel::new(
            model,
            r.cut.iter().map(|e| EdgeId(*e)).collect(),
        ))
    };
    let si = match w.si_with(model) {
        Ok(si) => si,
        Err(e) => {
            st.violation(
                "harness",
                "si_build",
                0,
                || e.clone(),
                || json!({"world": w}),
            );
            return;
        }
    };
    let out = run_search(&si, algo, orient, reverse, &query);
    st.outcome(out.kind());
    let kinds = format!(
        "{}{}{}{}",
        if !r.classes.is_empty() { "class+" } else { "" },
        if !r.vehicle_rows.is_empty() {
            "vehicle+"
        } else {
            ""
        },
        if r.turns.is_some() { "turn+" } else { "" },
        if !r.cut.is_empty() { "cut+" } else { "" }
    );
    let kinds = kinds.trim_end_matches('+').to_string();
    let base = format!(
        "{}.{}.{}",
        algo.component(),
        if matches!(orient, Orient::Vertex { .. }) {
            "vertex"
        } else {
            "edge"
        },
        if reverse { "reverse" } else { "forward" }
    );
    match &out {
        Outcome::Panic(p) => st.violation(
            &format!("{}.{}", base, kinds),
            "no_panic",
            size,
            || p.clone(),
            case,
        ),
        Outcome::Ok { routes, trees, .. } => {
            let edge_oriented = matches!(orient, Orient::Edge { .. });
            let forbidden_somewhere = (0..net.m()).any(|e| r.permitted(e) == Some(false))
                || r.turns.as_ref().map_or(false, |t| !t.is_empty());
            if forbidden_somewhere {
                st.nontrivial += 1;
            }
            for (ri, route) in routes.iter().enumerate() {
                let ids = route_ids(route);
                let n = ids.len();
                let mut edges_ok = true;
                for (i, e) in ids.iter().enumerate() {
                    // the origin / destination edges of an edge-oriented query are given by the caller
                    if edge_oriented && (i == 0 || i == n - 1) {
                        continue;
                    }
                    match r.permitted(*e) {
                        Some(false) => {
                            edges_ok = false;
                            st.violation(
                                &format!("{}.{}", base, kinds),
                                "route_uses_only_permitted_edges",
                                size,
                                || format!("route #{} {:?} uses forbidden edge {}", ri, ids, e),
                                case,
                            );
                        }
                        None => st.skipped_boundary += 1,
                        _ => {}
                    }
                }
                if edges_ok {
                    st.pass("route_uses_only_permitted_edges");
                }
                if let Some(t) = &r.turns {
                    // consecutive pairs in travel order
                    let travel: Vec<usize> = if reverse {
                        ids.iter().rev().cloned().collect()
                    } else {
                        ids.clone()
                    };
                    let mut ok = true;
                    for (i, p) in travel.windows(2).enumerate() {
                        if t.contains(&(p[0], p[1])) {
                            ok = false;
                            let site = if edge_oriented && i == 0 {
                                "turn_out_of_origin_edge"
                            } else if edge_oriented && i == travel.len() - 2 {
                                "turn_into_destination_edge"
                            } else if algo.is_ksp() && ri > 0 {
                                "alternative_route"
                            } else {
                                "searched_turn"
                            };
                            st.violation(
                                &format!("{}.{}", base, site),
                                "route_takes_no_restricted_turn",
                                size,
                                || {
                                    format!(
                                        "route #{} (travel order {:?}) takes restricted turn {:?}",
                                        ri,
                                        travel,
                                        (p[0], p[1])
                                    )
                                },
                                case,
                            );
                        }
                    }
                    if ok {
                        st.pass("route_takes_no_restricted_turn");
                    }
                }
            }
            for (ti, tree) in trees.iter().enumerate() {
                let mut ok = true;
                for t in tree.iter() {
                    if edge_oriented {
                        if let Orient::Edge { o, d } = orient {
                            if t.edge == *o || Some(t.edge) == *d {
                                continue;
                            }
                        }
                    }
                    if r.permitted(t.edge) == Some(false) {
                        ok = false;
                        st.violation(
                            &format!("{}.{}.tree{}", base, kinds, ti),
                            "tree_uses_only_permitted_edges",
                            size,
                            || format!("tree entry {} uses forbidden edge {}", t.vertex, t.edge),
                            case,
                        );
                    }
                }
                if ok {
                    st.pass("tree_uses_only_permitted_edges");
                }
            }
        }
        _ => {}
    }
}

fn vehicle(height_ft: f64, weight_kg: f64, axles: u64) -> Value {
    json!({
        "height": [height_ft, "feet"],
        "width": [2.5, "meters"],
        "total_length": [60.0, "feet"],
        "trailer_length": [15.0, "meters"],
        "total_weight": [weight_kg, "kg"],
        "number_of_axles": axles
    })
}

/// the restriction alphabet for one net
pub fn restrictions(net: &Net, tier: Tier) -> Vec<Restr> {
    let m = net.m();
    if m == 0 {
        return vec![];
    }
    let idx = net.hash_idx() as usize;
    let mut out = vec![];
    let names = vec![("local".to_string(), 0u8), ("highway".to_string(), 1u8)];
    // road classes: table patterns x allowed sets
    let tables: Vec<Vec<u8>> = if tier == Tier::Thorough && m <= 5 {
        (0..(1u32 << m))
            .map(|mask| (0..m).map(|e| (mask >> e & 1) as u8).collect())
            .collect()
    } else {
        vec![
            (0..m).map(|e| (e % 2) as u8).collect(),
            (0..m).map(|e| ((e + idx) % 3 == 0) as u8).collect(),
            (0..m).map(|e| (e == 0) as u8).collect(),
        ]
    };
    for (ti, t) in tables.iter().enumerate() {
        // (the empty set allows nothing; no key at all means no restriction)
        for (qi, q) in [
            Some(json!([0])),
            Some(json!([1])),
            Some(json!([0, 1])),
            Some(json!(["highway"])),
            Some(json!(["local", "highway"])),
            None,
            Some(json!([])),
        ]
        .iter()
        .enumerate()
        {
            if tier == Tier::Quick && (ti + qi + idx) % 2 != 0 {
                continue;
            }
            out.push(Restr {
                classes: t.clone(),
                query_classes: q.clone(),
                class_names: names.clone(),
                ..Default::default()
            });
        }
    }
    // tables that hold a class the name mapping does not mention (7): sets that cover every mapped class, by name and by
    // number, in either order and with a further number, still exclude it
    {
        let t7: Vec<Vec<u8>> = vec![
            (0..m).map(|e| [0u8, 1, 7][(e + idx) % 3]).collect(),
            (0..m)
                .map(|e| if e == idx % m { 7 } else { (e % 2) as u8 })
                .collect(),
        ];
        for (ti, t) in t7.iter().enumerate() {
            for (qi, q) in [
                json!(["local", "highway"]),
                json!(["highway", "local"]),
                json!([0, 1]),
                json!([1, 0, 3]),
                json!([0, 1, 7]),
            ]
            .iter()
            .enumerate()
            {
                if tier == Tier::Quick && (ti + qi + idx) % 3 != 0 {
                    continue;
                }
                out.push(Restr {
                    classes: t.clone(),
                    query_classes: Some(q.clone()),
                    class_names: names.clone(),
                    ..Default::default()
                });
            }
        }
    }
    // vehicle restrictions: each of the six kinds on one or two edges; limit and vehicle one step apart in different units
    let rows = |e: usize, k: usize| -> RawRestriction {
        match k % 6 {
            0 => RawRestriction {
                edge: e,
                kind: "maximum_height".into(),
                value: 4.0,
                unit: "meters".into(),
            }, // 13 ft ok, 13.5 ft exceeds
            1 => RawRestriction {
                edge: e,
                kind: "maximum_total_weight".into(),
                value: 10.0,
                unit: "tons".into(),
            }, // 9071.8 kg
            2 => RawRestriction {
                edge: e,
                kind: "maximum_weight_per_axle".into(),
                value: 5000.0,
                unit: "pounds".into(),
            }, // 2268 kg per axle
            3 => RawRestriction {
                edge: e,
                kind: "maximum_length".into(),
                value: 18.0,
                unit: "meters".into(),
            }, // 60 ft = 18.29 m exceeds
            4 => RawRestriction {
                edge: e,
                kind: "maximum_width".into(),
                value: 100.0,
                unit: "inches".into(),
            }, // 2.5 m = 98.4 in ok
            _ => RawRestriction {
                edge: e,
                kind: "maximum_trailer_length".into(),
                value: 48.0,
                unit: "feet".into(),
            }, // 15 m = 49.2 ft exceeds
        }
    };
    let vehicles = [
        vehicle(13.0, 9000.0, 4),
        vehicle(13.5, 9000.0, 4),
        vehicle(13.0, 9200.0, 4),
        vehicle(13.0, 9000.0, 3),
    ];
    for k in 0..6 {
        for (vi, v) in vehicles.iter().enumerate() {
            if tier == Tier::Quick && (k + vi + idx) % 3 != 0 {
                continue;
            }
            let e = (k + idx) % m;
            let mut rws = vec![rows(e, k)];
            if m > 1 {
                rws.push(rows((e + 1) % m, k + 1));
            }
            out.push(Restr {
                vehicle_rows: rws,
                vehicle: Some(v.clone()),
                ..Default::default()
            });
        }
    }
    // vehicles that exceed exactly one of the four length-type limits while all their other length-type parameters are smaller
    // than every limit (a parameter read from the wrong key would let them through): each against each kind of row
    let special = |which: usize| -> Value {
        let v = |k: usize, big: f64| if k == which { big } else { 1.0 };
        json!({
            "height": [v(0, 4.2), "meters"],
            "width": [v(1, 3.0), "meters"],
            "total_length": [v(2, 20.0), "meters"],
            "trailer_length": [v(3, 16.0), "meters"],
            "total_weight": [1000.0, "kg"],
            "number_of_axles": 2
        })
    };
    let length_kinds = [0usize, 4, 3, 5]; // rows(): height, width, length, trailer length - in the order of `special`
    for (ki, k) in length_kinds.iter().enumerate() {
        for which in 0..4usize {
            if tier == Tier::Quick && (ki + which + idx) % 4 != 0 {
                continue;
            }
            let e = (ki + which + idx) % m;
            out.push(Restr {
                vehicle_rows: vec![rows(e, *k)],
                vehicle: Some(special(which)),
                ..Default::default()
            });
        }
    }
    // several rows on the same edge: every pair of kinds (and one triple), so that a vehicle can exceed one limit of an edge
    // and meet another; the edge is forbidden as soon as one of its rows is exceeded
    let mut multi = 0usize;
    for k1 in 0..6 {
        for k2 in 0..6 {
            if k1 == k2 {
                continue;
            }
            for (vi, v) in vehicles.iter().enumerate() {
                multi += 1;
                if tier == Tier::Quick && (multi + idx) % 8 != 0 {
                    continue;
                }
                let e = (k1 + k2 + vi + idx) % m;
                let mut rws = vec![rows(e, k1), rows(e, k2)];
                if (k1 + k2) % 3 == 0 {
                    rws.push(rows(e, k1 + k2 + 1));
                }
                out.push(Restr {
                    vehicle_rows: rws,
                    vehicle: Some(v.clone()),
                    ..Default::default()
                });
            }
        }
    }
    // the same kind posted twice on one edge in different units, the larger number being the tighter limit (13.2 ft = 4.02 m under
    // 4.2 m; 19000 lb = 8618 kg under 10 t; 59 ft = 17.98 m under 18.5 m; 49 ft = 14.94 m under 16 m): both rows bind, in
    // either order in the file; the vehicles sit between the two limits or below both
    {
        let twice: [(&str, (f64, &str), (f64, &str)); 4] = [
            ("maximum_height", (4.2, "meters"), (13.2, "feet")),
            ("maximum_total_weight", (10.0, "tons"), (19000.0, "pounds")),
            ("maximum_length", (18.5, "meters"), (59.0, "feet")),
            ("maximum_trailer_length", (16.0, "meters"), (49.0, "feet")),
        ];
        let mut cnt = 0usize;
        for (ti, (kind, a, b)) in twice.iter().enumerate() {
            for lax_first in [true, false] {
                for (vi, v) in [vehicle(13.5, 9000.0, 4), vehicle(13.0, 8000.0, 4)]
                    .iter()
                    .enumerate()
                {
                    cnt += 1;
                    if tier == Tier::Quick && (cnt + idx) % 8 != 0 {
                        continue;
                    }
                    let e = (ti + vi + idx) % m;
                    let ra = RawRestriction {
                        edge: e,
                        kind: kind.to_string(),
                        value: a.0,
                        unit: a.1.into(),
                    };
                    let rb = RawRestriction {
                        edge: e,
                        kind: kind.to_string(),
                        value: b.0,
                        unit: b.1.into(),
                    };
                    let rws = if lax_first {
                        vec![ra, rb]
                    } else {
                        vec![rb, ra]
                    };
                    out.push(Restr {
                        vehicle_rows: rws,
                        vehicle: Some(v.clone()),
                        ..Default::default()
                    });
                }
            }
        }
    }
    // turn restrictions: every single pair of consecutive edges, and some two-pair lists
    let mut pairs = vec![];
    for a in 0..m {
        for b in 0..m {
            if a != b && net.edges[a].1 == net.edges[b].0 {
                pairs.push((a, b));
            }
        }
    }
    out.push(Restr {
        turns: Some(vec![]),
        ..Default::default()
    });
    for (pi, p) in pairs.iter().enumerate() {
        out.push(Restr {
            turns: Some(vec![*p]),
            ..Default::default()
        });
        if let Some(q) = pairs.get(pi + 1) {
            if tier == Tier::Thorough || (pi + idx) % 2 == 0 {
                out.push(Restr {
                    turns: Some(vec![*p, *q]),
                    ..Default::default()
                });
            }
        }
    }
    // combined models (2-3 inner) and cut edges
    let t0: Vec<u8> = (0..m).map(|e| (e % 2) as u8).collect();
    out.push(Restr {
        classes: t0.clone(),
        query_classes: Some(json!([0])),
        class_names: names.clone(),
        vehicle_rows: vec![rows(idx % m, 0)],
        vehicle: Some(vehicles[1].clone()),
        ..Default::default()
    });
    if let Some(p) = pairs.first() {
        out.push(Restr {
            classes: t0.clone(),
            query_classes: Some(json!([0, 1])),
            class_names: names.clone(),
            turns: Some(vec![*p]),
            ..Default::default()
        });
        out.push(Restr {
            classes: t0.clone(),
            query_classes: Some(json!(["local"])),
            class_names: names.clone(),
            vehicle_rows: vec![rows((idx + 1) % m, 1)],
            vehicle: Some(vehicles[2].clone()),
            turns: Some(vec![*p]),
            ..Default::default()
        });
    }
    for e in 0..m {
        if tier == Tier::Thorough || (e + idx) % 2 == 0 {
            out.push(Restr {
                cut: vec![e],
                ..Default::default()
            });
            out.push(Restr {
                classes: t0.clone(),
                query_classes: Some(json!([0, 1])),
                class_names: names.clone(),
                cut: vec![e],
                ..Default::default()
            });
        }
    }
    out
}

pub fn algos(tier: Tier) -> Vec<Algo> {
    let mut v = vec![
        Algo::Dijkstra,
        Algo::AStar(Some(1.0)),
        Algo::SingleVia {
            k: 3,
            under: Box::new(Algo::Dijkstra),
            sim: Some(Sim::EdgeCos(0.99)),
            term: None,
        },
    ];
    if tier == Tier::Thorough {
        v.push(Algo::AStar(Some(10.0)));
        v.push(Algo::SingleVia {
            k: 2,
            under: Box::new(Algo::AStar(Some(1.0))),
            sim: Some(Sim::DistCos(0.9)),
            term: None,
        });
    }
    v
}

pub fn for_net(net: &Net, tier: Tier, st: &mut Stats) {
    st.states += 1;
    let n = net.n;
    let m = net.m();
    let w = World::distance(net.clone());
    let idx = net.hash_idx() as usize;
    for (ri, r) in restrictions(net, tier).iter().enumerate() {
        // the configuration route for a rotating subset of the restriction sets: the same searches against services built by
        // the repository's builders from files (three layouts of the same rows, see Restr::from_files)
        if r.n_models() > 0 && (ri + idx) % tier.pick(40, 8) == 0 {
            let mut r2 = r.clone();
            r2.from_files = 1 + ((ri + idx) / tier.pick(40, 8) % 3) as u8;
            for algo in [
                Algo::Dijkstra,
                Algo::SingleVia {
                    k: 3,
                    under: Box::new(Algo::Dijkstra),
                    sim: Some(Sim::EdgeCos(0.99)),
                    term: None,
                },
            ]
            .iter()
            {
                check_case(
                    &w,
                    &r2,
                    algo,
                    &Orient::Vertex {
                        o: 0,
                        d: Some(n - 1),
                    },
                    false,
                    st,
                );
                if !algo.is_ksp() {
                    check_case(&w, &r2, algo, &Orient::Vertex { o: 0, d: None }, false, st);
                    check_case(
                        &w,
                        &r2,
                        algo,
                        &Orient::Vertex {
                            o: 0,
                            d: Some(n - 1),
                        },
                        true,
                        st,
                    );
                }
            }
        }
        for algo in algos(tier).iter() {
            check_case(
                &w,
                r,
                algo,
                &Orient::Vertex {
                    o: 0,
                    d: Some(n - 1),
                },
                false,
                st,
            );
            if !algo.is_ksp() {
                check_case(
                    &w,
                    r,
                    algo,
                    &Orient::Vertex {
                        o: 0,
                        d: Some(n - 1),
                    },
                    true,
                    st,
                );
                check_case(&w, r, algo, &Orient::Vertex { o: 0, d: None }, false, st);
            }
            for o in 0..m {
                for d in 0..m {
                    if o == d || (o * 3 + d + idx) % 3 != 0 {
                        continue;
                    }
                    // origin and destination edges are chosen among permitted edges
                    if r.permitted(o) != Some(true) || r.permitted(d) != Some(true) {
                        continue;
                    }
                    check_case(&w, r, algo, &Orient::Edge { o, d: Some(d) }, false, st);
                }
            }
        }
    }
}

pub fn specs(tier: Tier) -> Vec<GenSpec> {
    match tier {
        Tier::Quick => vec![
            GenSpec {
                n: 3,
                max_edges: 5,
                max_mult: 2,
                n_len: 1,
                self_loops: true,
                mode: LenMode::Alphabet,
            },
            GenSpec {
                n: 4,
                max_edges: 4,
                max_mult: 2,
                n_len: 2,
                self_loops: false,
                mode: LenMode::Alphabet,
            },
            GenSpec {
                n: 4,
                max_edges: 5,
                max_mult: 1,
                n_len: 1,
                self_loops: false,
                mode: LenMode::PowersOfTwo,
            },
        ],
        Tier::Thorough => vec![
            GenSpec {
                n: 3,
                max_edges: 5,
                max_mult: 2,
                n_len: 2,
                self_loops: true,
                mode: LenMode::Alphabet,
            },
            GenSpec {
                n: 4,
                max_edges: 5,
                max_mult: 2,
                n_len: 1,
                self_loops: true,
                mode: LenMode::Alphabet,
            },
            GenSpec {
                n: 4,
                max_edges: 5,
                max_mult: 1,
                n_len: 2,
                self_loops: false,
                mode: LenMode::Metric,
            },
            GenSpec {
                n: 5,
                max_edges: 5,
                max_mult: 1,
                n_len: 1,
                self_loops: false,
                mode: LenMode::PowersOfTwo,
            },
        ],
    }
}

/// Yen's algorithm wraps the query's frontier model (to cut edges for its spur searches): networks whose least-cost route has
/// at least three edges (where Yen's produces alternatives on this tree, see the known findings of C13) x one forbidden edge off
/// that route, by road class or by a vehicle restriction. runs in worker processes because Yen's can hang; a case that
/// does not come back is C13's business and only counted here
fn yens_cases(tier: Tier) -> Vec<(Net, Restr)> {
    use crate::refmodel::graph::{bellman_ford, simple_paths};
    let spec = GenSpec {
        n: 5,
        max_edges: tier.pick(6, 7),
        max_mult: 1,
        n_len: 1,
        self_loops: false,
        mode: LenMode::PowersOfTwo,
    };
    let mut out = vec![];
    for (p, t) in crate::world::net::shards(&spec, 2) {
        crate::world::net::for_each_in_shard(&spec, &p, t, &mut |net| {
            let n = net.n;
            let m = net.m();
            if m < 5 {
                return;
            }
            let w = World::distance(net.clone());
            let cost_of = |e: usize| Some(w.ref_edge_cost(None, e));
            let d = bellman_ford(net, 0, true, &cost_of);
            if !d[n - 1].is_finite() {
                return;
            }
            let paths = simple_paths(net, 0, n - 1, &|_| true);
            if paths.len() < 2 {
                return;
            }
            let best = paths
                .iter()
                .min_by(|a, b| {
                    a.iter()
                        .map(|e| w.ref_edge_cost(None, *e))
                        .sum::<f64>()
                        .partial_cmp(&b.iter().map(|e| w.ref_edge_cost(None, *e)).sum::<f64>())
                        .unwrap()
                })
                .unwrap()
                .clone();
            if best.len() < 3 {
                return;
            }
            let idx = net.hash_idx() as usize;
            for e in 0..m {
                if best.contains(&e) {
                    continue;
                }
                let r = if (idx + e) % 2 == 0 {
                    Restr {
                        classes: (0..m).map(|x| (x == e) as u8).collect(),
                        query_classes: Some(json!([0])),
                        class_names: vec![("local".to_string(), 0u8), ("highway".to_string(), 1u8)],
                        ..Default::default()
                    }
                } else {
                    Restr {
                        vehicle_rows: vec![RawRestriction {
                            edge: e,
                            kind: "maximum_height".into(),
                            value: 4.0,
                            unit: "meters".into(),
                        }],
                        vehicle: Some(vehicle(13.5, 9000.0, 4)),
                        ..Default::default()
                    }
                };
                out.push((net.clone(), r));
            }
        });
    }
    out
}

pub fn worker(args: &[String]) -> i32 {
    let tier = if args.first().map(|s| s.as_str()) == Some("thorough") {
        Tier::Thorough
    } else {
        Tier::Quick
    };
    let cases = yens_cases(tier);
    crate::engine::sandbox::worker_loop(|i, st| {
        let (net, r) = &cases[i as usize];
        let w = World::distance(net.clone());
        st.states += 1;
        for k in [2usize, 3] {
            let mut scratch = Stats::new();
            let algo = Algo::Yens {
                k,
                under: Box::new(Algo::Dijkstra),
                sim: Some(Sim::AcceptAll),
                term: None,
            };
            check_case(
                &w,
                r,
                &algo,
                &Orient::Vertex {
                    o: 0,
                    d: Some(net.n - 1),
                },
                false,
                &mut scratch,
            );
            // panics and errors of Yen's algorithm itself are C13's known findings: only the permission clauses count here
            scratch.violations.retain(|k, _| !k.ends_with("/no_panic"));
            st.merge(scratch);
        }
    })
}

pub fn run(tier: Tier) -> i32 {
    let info = RunInfo::new("C04", tier);
    let specs = specs(tier);
    let n_yens = yens_cases(tier).len() as u64;
    let (yst, yfates) = {
        use crate::engine::sandbox::{run_cases, SandboxCfg};
        let cfg = SandboxCfg {
            worker_args: vec!["--worker".into(), "C04".into(), tier.as_str().into()],
            n_workers: 16,
            case_timeout: std::time::Duration::from_millis(100),
            block: 8,
            budget: std::time::Duration::from_secs(tier.pick(120, 1800)),
        };
        match run_cases(&cfg, n_yens) {
            Ok(x) => x,
            Err(e) => {
                println!("MACHINERY-ERROR sandbox: {}", e);
                return 2;
            }
        }
    };
    let mut st = par_enumerate(&specs, |_spec, net, st| {
        for_net(net, tier, st);
        if net.n == 4 && net.m() == 4 {
            st.sample(1, || json!({"net": net, "restriction_sets": restrictions(net, tier).len(), "example": restrictions(net, tier).last()}));
        }
    });
    // restricted turns where plain A* reaches an expanded vertex again over a cheaper edge (edges recorded shorter than the
    // straight line between their end points make the estimate inconsistent at weight factor 1): the turn into an outgoing edge
    // was validated against the label the vertex had when it was expanded
    let sspecs = vec![GenSpec {
        n: 5,
        max_edges: tier.pick(4, 5),
        max_mult: 1,
        n_len: 3,
        self_loops: false,
        mode: LenMode::LineShort,
    }];
    let st_short = par_enumerate(&sspecs, |_spec, net, st| {
        st.states += 1;
        let m = net.m();
        let w = World::distance(net.clone());
        let mut pairs = vec![];
        for a in 0..m {
            for b in 0..m {
                if a != b && net.edges[a].1 == net.edges[b].0 {
                    pairs.push((a, b));
                }
            }
        }
        for p in pairs.iter() {
            let r = Restr {
                turns: Some(vec![*p]),
                ..Default::default()
            };
            for algo in [Algo::AStar(None), Algo::AStar(Some(1.0))].iter() {
                check_case(
                    &w,
                    &r,
                    algo,
                    &Orient::Vertex {
                        o: 0,
                        d: Some(net.n - 1),
                    },
                    false,
                    st,
                );
                check_case(&w, &r, algo, &Orient::Vertex { o: 0, d: None }, false, st);
            }
        }
    });
    st.merge(st_short);
    st.merge(yst);
    st.notes.insert(format!("yens pass: {} cases (network x one forbidden edge off the least-cost route) x k in {{2, 3}} in worker processes; {} did not come back within 100 ms (termination of Yen's algorithm is C13's business)", n_yens, yfates.len()));
    let mut desc: Vec<String> = specs.iter().map(|s| s.describe()).collect();
    desc.extend(sspecs.iter().map(|s| {
        format!(
            "{} x every single restricted turn under plain A* (inconsistent estimate)",
            s.describe()
        )
    }));
    finish(
        &info,
        st,
        "state = one labelled multigraph; transition = one real search with frontier models built by the repository's own services (road class with numeric and named sets, six vehicle restriction kinds in mixed units, restricted-turn lists, combined 2-3 models, edge cuts) from the query JSON; oracle = the raw restriction inputs evaluated in physical units with a 1e-3 dead band; non-trivial = something is actually forbidden",
        true,
        json!({"graph_families": desc, "yens_cases": n_yens}),
        vec![
            "edges of an edge-oriented query's origin/destination are chosen among permitted edges".into(),
            "turn clauses are evaluated on routes in travel order (reverse searches are reversed first)".into(),
        ],
    )
}

pub fn replay(case: &Value) -> i32 {
    let w: World = match serde_json::from_value(case["world"].clone()) {
        Ok(w) => w,
        Err(e) => {
            println!("MACHINERY-ERROR cannot parse world: {}", e);
            return 2;
        }
    };
    let algo: Algo = serde_json::from_value(case["algo"].clone()).unwrap_or(Algo::Dijkstra);
    let orient: Orient = serde_json::from_value(case["orient"].clone()).unwrap_or(Orient::Vertex {
        o: 0,
        d: Some(w.net.n - 1),
    });
    let reverse = case["reverse"].as_bool().unwrap_or(false);
    let r: Restr = match serde_json::from_value(case["extra"]["restrictions"].clone()) {
        Ok(r) => r,
        Err(e) => {
            println!("MACHINERY-ERROR cannot parse restrictions: {}", e);
            return 2;
        }
    };
    let mut st = Stats::new();
    check_case(&w, &r, &algo, &orient, reverse, &mut st);
    for (k, g) in st.violations.iter() {
        println!("REPLAY-VIOLATION {} {}", k, g.detail);
    }
    println!(
        "replay: {} violated clauses; outcomes {:?}",
        st.violations.len(),
        st.outcomes
    );
    if st.violations.is_empty() {
        0
    } else {
        1
    }
}
