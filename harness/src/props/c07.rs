//! C07 — edge costs are finite and strictly positive; estimates are non-negative; sum aggregation follows the formula
use crate::engine::{close, finish, guarded, par_blocks, RunInfo, Stats, Tier};
use crate::world::net::Net;
use crate::world::sw::Rate;
use routee_compass_core::algorithm::search::edge_traversal::EdgeTraversal;
use routee_compass_core::algorithm::search::search_instance::SearchInstance;
use routee_compass_core::model::access::access_model::AccessModel;
use routee_compass_core::model::access::access_model_error::AccessModelError;
use routee_compass_core::model::cost::cost_aggregation::CostAggregation;
use routee_compass_core::model::cost::cost_model::CostModel;
use routee_compass_core::model::cost::network::network_cost_rate::NetworkCostRate;
use routee_compass_core::model::frontier::default::no_restriction::NoRestriction;
use routee_compass_core::model::network::{Edge, EdgeId, Vertex};
use routee_compass_core::model::state::state_feature::StateFeature;
use routee_compass_core::model::state::state_model::StateModel;
use routee_compass_core::model::termination::termination_model::TerminationModel;
use routee_compass_core::model::traversal::state::state_variable::StateVar;
use routee_compass_core::model::traversal::traversal_model::TraversalModel;
use routee_compass_core::model::traversal::traversal_model_error::TraversalModelError;
use routee_compass_core::model::unit::as_f64::AsF64;
use routee_compass_core::model::unit::*;
use serde::{Deserialize, Serialize};
use serde_json::{json, Value};
use std::collections::HashMap;
use std::sync::Arc;

const VALS: [f64; 5] = [-2.0, -1.0, 0.0, 1.0, 2.0];
const WEIGHTS: [f64; 5] = [-1.0, 0.0, 0.5, 1.0, 2.0];
const FLOOR: f64 = 1e-10;

fn rates() -> Vec<Rate> {
    vec![
        Rate::Zero,
        Rate::Raw,
        Rate::Factor(2.0),
        Rate::Factor(-2.0),
        Rate::Offset(1.0),
        Rate::Offset(-1.0),
        Rate::Combined(vec![Rate::Factor(2.0), Rate::Offset(1.0)]),
        Rate::Combined(vec![
            Rate::Combined(vec![Rate::Offset(-1.0), Rate::Factor(0.5)]),
            Rate::Raw,
        ]),
    ]
}

/// every rate term of bounded shape: the six atoms, and Combined lists of length 0..max_len whose elements are atoms or
/// Combined lists (length 1..2) over three further atoms — nested blocks in every position, after every kind of mapping
fn rate_terms(max_len: usize) -> Vec<Rate> {
    let atoms = vec![
        Rate::Zero,
        Rate::Raw,
        Rate::Factor(2.0),
        Rate::Factor(-2.0),
        Rate::Offset(1.0),
        Rate::Offset(-1.0),
    ];
    let inner_atoms = [Rate::Factor(0.5), Rate::Offset(3.0), Rate::Zero];
    let mut elements = atoms.clone();
    for a in inner_atoms.iter() {
        elements.push(Rate::Combined(vec![a.clone()]));
        for b in inner_atoms.iter() {
            elements.push(Rate::Combined(vec![a.clone(), b.clone()]));
        }
    }
    let mut out = atoms;
    let mut lists: Vec<Vec<Rate>> = vec![vec![]];
    out.push(Rate::Combined(vec![]));
    for _ in 0..max_len {
        let mut next = vec![];
        for l in lists.iter() {
            for e in elements.iter() {
                let mut l2 = l.clone();
                l2.push(e.clone());
                out.push(Rate::Combined(l2.clone()));
                next.push(l2);
            }
        }
        lists = next;
    }
    out
}

#[derive(Clone, Debug, Serialize, Deserialize, PartialEq)]
enum NetRate {
    Zero,
    Edge(f64),
    Pair(f64),
    Both(f64, f64),
    /// a combined rate whose members are two tables for the same edge (a toll and a credit): the members add up, whatever
    /// their signs; `true` = the first member wrapped in a further combined rate
    EdgeTwice(f64, f64, bool),
}
impl NetRate {
    /// surcharges for edge 1 and the pair (0, 1)
    fn real(&self) -> NetworkCostRate {
        let e = |c: f64| NetworkCostRate::EdgeLookup {
            lookup: [(EdgeId(1), Cost::new(c))].into_iter().collect(),
        };
        let p = |c: f64| NetworkCostRate::EdgeEdgeLookup {
            lookup: [((EdgeId(0), EdgeId(1)), Cost::new(c))]
                .into_iter()
                .collect(),
        };
        match self {
            NetRate::Zero => NetworkCostRate::Zero,
            NetRate::Edge(c) => e(*c),
            NetRate::Pair(c) => p(*c),
            NetRate::Both(a, b) => NetworkCostRate::Combined(vec![e(*a), p(*b)]),
            NetRate::EdgeTwice(a, b, nested) => NetworkCostRate::Combined(vec![
                if *nested {
                    NetworkCostRate::Combined(vec![e(*a)])
                } else {
                    e(*a)
                },
                e(*b),
            ]),
        }
    }
    fn edge(&self) -> f64 {
        match self {
            NetRate::Edge(c) | NetRate::Both(c, _) => *c,
            NetRate::EdgeTwice(a, b, _) => *a + *b,
            _ => 0.0,
        }
    }
    fn pair(&self) -> f64 {
        match self {
            NetRate::Pair(c) | NetRate::Both(_, c) => *c,
            _ => 0.0,
        }
    }
    fn name(&self) -> &'static str {
        match self {
            NetRate::Zero => "no_network_rate",
            NetRate::Edge(_) => "edge_lookup",
            NetRate::Pair(_) => "edge_pair_lookup",
            NetRate::Both(..) => "combined_lookup",
            NetRate::EdgeTwice(..) => "combined_edge_lookups",
        }
    }
}

#[derive(Clone, Debug, Serialize, Deserialize)]
struct Cfg {
    weights: Vec<f64>,
    rates: Vec<Rate>,
    net: NetRate,
    mul: bool,
}

impl Cfg {
    fn k(&self) -> usize {
        self.weights.len()
    }
    fn state_model(&self) -> StateModel {
        StateModel::new(
            (0..self.k())
                .map(|i| {
                    (
                        format!("f{}", i),
                        StateFeature::Distance {
                            distance_unit: DistanceUnit::Meters,
                            initial: Distance::new(0.0),
                        },
                    )
                })
                .collect(),
        )
    }
    fn cost_model(&self, sm: Arc<StateModel>) -> Result<CostModel, String> {
        let weights: HashMap<String, f64> = self
            .weights
            .iter()
            .enumerate()
            .map(|(i, w)| (format!("f{}", i), *w))
            .collect();
        let rates: HashMap<String, _> = self
            .rates
            .iter()
            .enumerate()
            .map(|(i, r)| (format!("f{}", i), r.real()))
            .collect();
        let mut net = HashMap::new();
        if self.net != NetRate::Zero {
            net.insert("f0".to_string(), self.net.real());
        }
        CostModel::new(
            Arc::new(weights),
            Arc::new(rates),
            Arc::new(net),
            if self.mul {
                CostAggregation::Mul
            } else {
                CostAggregation::Sum
            },
            sm,
        )
        .map_err(|e| e.to_string())
    }
    /// reference: sum over features of weight x rated change
    fn ref_vehicle(&self, delta: &[f64]) -> f64 {
        if self.mul {
            (0..self.k())
                .map(|i| self.rates[i].apply(delta[i]) * self.weights[i])
                .product()
        } else {
            (0..self.k())
                .map(|i| self.rates[i].apply(delta[i]) * self.weights[i])
                .sum()
        }
    }
}

fn floor(x: f64) -> f64 {
    if x > 0.0 {
        x
    } else {
        FLOOR
    }
}

struct DeltaTraversal {
    delta: Vec<f64>,
}
impl TraversalModel for DeltaTraversal {
    fn state_features(&self) -> Vec<(String, StateFeature)> {
        vec![]
    }
    fn traverse_edge(
        &self,
        _: (&Vertex, &Edge, &Vertex),
        s: &mut Vec<StateVar>,
        _: &StateModel,
    ) -> Result<(), TraversalModelError> {
        for (x, d) in s.iter_mut().zip(self.delta.iter()) {
            x.0 += d;
        }
        Ok(())
    }
    fn estimate_traversal(
        &self,
        _: (&Vertex, &Vertex),
        s: &mut Vec<StateVar>,
        _: &StateModel,
    ) -> Result<(), TraversalModelError> {
        for (x, d) in s.iter_mut().zip(self.delta.iter()) {
            x.0 += d;
        }
        Ok(())
    }
}
struct DeltaAccess {
    delta: Vec<f64>,
}
impl AccessModel for DeltaAccess {
    fn state_features(&self) -> Vec<(String, StateFeature)> {
        vec![]
    }
    fn access_edge(
        &self,
        _: (&Vertex, &Edge, &Vertex, &Edge, &Vertex),
        s: &mut Vec<StateVar>,
        _: &StateModel,
    ) -> Result<(), AccessModelError> {
        for (x, d) in s.iter_mut().zip(self.delta.iter()) {
            x.0 += d;
        }
        Ok(())
    }
}

fn finite_pos(x: f64) -> bool {
    x.is_finite() && x > 0.0
}

fn check_cfg(cfg: &Cfg, pairs: &[(Vec<f64>, Vec<f64>)], st: &mut Stats) {
    st.states += 1;
    let sm = Arc::new(cfg.state_model());
    let cm = match cfg.cost_model(sm.clone()) {
        Ok(c) => c,
        Err(_) => {
            st.outcome("zero_weight_sum_rejected");
            return;
        }
    };
    if cfg.weights.iter().any(|w| *w < 0.0)
        || cfg
            .rates
            .iter()
            .any(|r| !matches!(r, Rate::Raw | Rate::Zero))
    {
        st.nontrivial += 1;
    }
    let net = Net {
        n: 3,
        edges: vec![(0, 1, 1.0), (1, 2, 1.0)],
        xy: None,
    };
    let graph = Arc::new(net.graph());
    let e0 = *graph.get_edge(&EdgeId(0)).unwrap();
    let e1 = *graph.get_edge(&EdgeId(1)).unwrap();
    let k = cfg.k();
    let agg = if cfg.mul { "mul" } else { "sum" };
    let size = (k * 1000) as u64
        + cfg
            .rates
            .iter()
            .map(|r| if *r == Rate::Raw { 0 } else { 10 })
            .sum::<u64>()
        + if cfg.net == NetRate::Zero { 0 } else { 5 };
    // weights far below the floor: sums are compared relative to their own size (the usual comparison allows 1e-12 of
    // absolute slack, ten times the sums in question), and pairs whose terms cancel to within rounding are left out
    let tiny = cfg.weights.iter().any(|w| *w != 0.0 && w.abs() < 1e-6);
    let close = |a: f64, b: f64, rel: f64| {
        if tiny {
            a == b || (a - b).abs() <= 1e-9 * a.abs().max(b.abs())
        } else {
            close(a, b, rel)
        }
    };
    for (prev, next) in pairs.iter() {
        if tiny {
            let delta: Vec<f64> = prev.iter().zip(next.iter()).map(|(a, b)| b - a).collect();
            let terms: f64 = (0..cfg.k())
                .map(|i| (cfg.rates[i].apply(delta[i]) * cfg.weights[i]).abs())
                .sum::<f64>()
                + (cfg.net.edge() * cfg.weights[0]).abs()
                + (cfg.net.pair() * cfg.weights[0]).abs();
            let v = cfg.ref_vehicle(&delta);
            let near = |x: f64| x != 0.0 && x.abs() < 1e-6 * terms;
            if near(v)
                || near(v + cfg.net.edge() * cfg.weights[0])
                || near(v + cfg.net.pair() * cfg.weights[0])
            {
                continue;
            }
        }
        st.evaluations += 1;
        st.transitions += 3;
        st.traces += 1;
        let p: Vec<StateVar> = prev.iter().map(|x| StateVar(*x)).collect();
        let n: Vec<StateVar> = next.iter().map(|x| StateVar(*x)).collect();
        let delta: Vec<f64> = prev.iter().zip(next.iter()).map(|(a, b)| b - a).collect();
        let case = || json!({"cfg": cfg, "prev_state": prev, "next_state": next});
        // (1) the cost model's three entry points
        let veh = cfg.ref_vehicle(&delta);
        let w0 = cfg.weights[0];
        let net_t = cfg.net.edge() * w0;
        let net_a = cfg.net.pair() * w0;
        let comb = |a: f64, b: f64| if cfg.mul { a } else { a + b };
        let _ = comb;
        match guarded(|| cm.traversal_cost(&e1, &p, &n)) {
            Ok(Ok(c)) => {
                let c = c.as_f64();
                if finite_pos(c) {
                    st.pass("traversal_cost_finite_positive");
                } else {
                    st.violation(
                        &format!("cost_model.traversal_cost.{}", agg),
                        "finite_and_strictly_positive",
                        size,
                        || format!("{}", c),
                        case,
                    );
                }
                if !cfg.mul {
                    let want = floor(veh + net_t);
                    if close(c, want, 1e-9) {
                        st.pass("traversal_cost_matches_formula");
                    } else {
                        st.violation(
                            &format!("cost_model.traversal_cost.{}", cfg.net.name()),
                            "sum_formula",
                            size,
                            || format!("got {} want {}", c, want),
                            case,
                        );
                    }
                }
            }
            Ok(Err(e)) => st.violation(
                "cost_model.traversal_cost",
                "returns_ok",
                size,
                || e.to_string(),
                case,
            ),
            Err(pn) => st.violation(
                "cost_model.traversal_cost",
                "no_panic",
                size,
                || pn.clone(),
                case,
            ),
        }
        match guarded(|| cm.access_cost(&e0, &e1, &p, &n)) {
            Ok(Ok(c)) => {
                let c = c.as_f64();
                if finite_pos(c) {
                    st.pass("access_cost_finite_positive");
                } else {
                    st.violation(
                        &format!("cost_model.access_cost.{}", agg),
                        "finite_and_strictly_positive",
                        size,
                        || format!("{}", c),
                        case,
                    );
                }
                if !cfg.mul {
                    let want = floor(veh + net_a);
                    if close(c, want, 1e-9) {
                        st.pass("access_cost_matches_formula");
                    } else {
                        st.violation(
                            &format!("cost_model.access_cost.{}", cfg.net.name()),
                            "sum_formula",
                            size,
                            || format!("got {} want {}", c, want),
                            case,
                        );
                    }
                }
            }
            Ok(Err(e)) => st.violation(
                "cost_model.access_cost",
                "returns_ok",
                size,
                || e.to_string(),
                case,
            ),
            Err(pn) => st.violation(
                "cost_model.access_cost",
                "no_panic",
                size,
                || pn.clone(),
                case,
            ),
        }
        match guarded(|| cm.cost_estimate(&p, &n)) {
            Ok(Ok(c)) => {
                let c = c.as_f64();
                if c.is_finite() && c >= 0.0 {
                    st.pass("estimate_finite_non_negative");
                } else {
                    st.violation(
                        &format!("cost_model.cost_estimate.{}", agg),
                        "finite_and_non_negative",
                        size,
                        || format!("{}", c),
                        case,
                    );
                }
                if !cfg.mul {
                    let want = veh.max(0.0);
                    if close(c, want, 1e-9) {
                        st.pass("estimate_matches_formula");
                    } else {
                        st.violation(
                            "cost_model.cost_estimate",
                            "sum_formula",
                            size,
                            || format!("got {} want {}", c, want),
                            case,
                        );
                    }
                }
            }
            Ok(Err(e)) => st.violation(
                "cost_model.cost_estimate",
                "returns_ok",
                size,
                || e.to_string(),
                case,
            ),
            Err(pn) => st.violation(
                "cost_model.cost_estimate",
                "no_panic",
                size,
                || pn.clone(),
                case,
            ),
        }
    }
}

/// whole edge traversals: synthetic access/traversal models apply chosen deltas; the charged total is checked
fn check_edge_traversal(cfg: &Cfg, deltas: &[(Vec<f64>, Vec<f64>)], st: &mut Stats) {
    let sm = Arc::new(cfg.state_model());
    let cm = match cfg.cost_model(sm.clone()) {
        Ok(c) => Arc::new(c),
        Err(_) => return,
    };
    let net = Net {
        n: 3,
        edges: vec![(0, 1, 1.0), (1, 2, 1.0)],
        xy: None,
    };
    let graph = Arc::new(net.graph());
    let k = cfg.k();
    let size = (k * 1000) as u64
        + if cfg.net == NetRate::Zero { 0 } else { 5 }
        + cfg
            .rates
            .iter()
            .map(|r| if *r == Rate::Raw { 0 } else { 10 })
            .sum::<u64>();
    for (acc, trav) in deltas.iter() {
        for with_prev in [true, false] {
            for reverse in [false, true] {
                st.evaluations += 1;
                st.transitions += 1;
                st.traces += 1;
                let si = SearchInstance {
                    directed_graph: graph.clone(),
                    state_model: sm.clone(),
                    traversal_model: Arc::new(DeltaTraversal {
                        delta: trav.clone(),
                    }),
                    access_model: Arc::new(DeltaAccess { delta: acc.clone() }),
                    cost_model: cm.clone(),
                    frontier_model: Arc::new(NoRestriction {}),
                    termination_model: Arc::new(TerminationModel::IterationsLimit { limit: 10 }),
                };
                let prev: Vec<StateVar> = (0..k).map(|i| StateVar(0.5 * i as f64)).collect();
                let case = || json!({"cfg": cfg, "access_delta": acc, "traversal_delta": trav, "with_previous_edge": with_prev, "reverse": reverse});
                // forward: traverse e1 after e0; reverse: traverse e0 before e1
                let r = guarded(|| {
                    if reverse {
                        EdgeTraversal::reverse_traversal(
                            EdgeId(0),
                            if with_prev { Some(EdgeId(1)) } else { None },
                            &prev,
                            &si,
                        )
                    } else {
                        EdgeTraversal::forward_traversal(
                            EdgeId(1),
                            if with_prev { Some(EdgeId(0)) } else { None },
                            &prev,
                            &si,
                        )
                    }
                });
                let dir = if reverse {
                    "reverse_traversal"
                } else {
                    "forward_traversal"
                };
                match r {
                    Err(p) => st.violation(
                        &format!("edge_traversal.{}", dir),
                        "no_panic",
                        size,
                        || p.clone(),
                        case,
                    ),
                    Ok(Err(e)) => st.violation(
                        &format!("edge_traversal.{}", dir),
                        "returns_ok",
                        size,
                        || e.to_string(),
                        case,
                    ),
                    Ok(Ok(et)) => {
                        let total = et.total_cost().as_f64();
                        if finite_pos(total) {
                            st.pass("charged_cost_finite_positive");
                        } else {
                            st.violation(
                                &format!(
                                    "edge_traversal.{}.{}",
                                    dir,
                                    if cfg.mul { "mul" } else { "sum" }
                                ),
                                "charged_cost_finite_and_strictly_positive",
                                size,
                                || {
                                    format!(
                                        "access {} + traversal {} = {}",
                                        et.access_cost.as_f64(),
                                        et.traversal_cost.as_f64(),
                                        total
                                    )
                                },
                                case,
                            );
                        }
                        if !cfg.mul {
                            let total_delta: Vec<f64> = (0..k)
                                .map(|i| trav[i] + if with_prev { acc[i] } else { 0.0 })
                                .collect();
                            let w0 = cfg.weights[0];
                            // the traversed edge is e1 (forward) / e0 (reverse); the per-edge surcharge is configured on e1, the per-turn one on (e0, e1)
                            let edge_sur = if reverse { 0.0 } else { cfg.net.edge() * w0 };
                            let turn_sur = if with_prev { cfg.net.pair() * w0 } else { 0.0 };
                            let want = floor(cfg.ref_vehicle(&total_delta) + edge_sur + turn_sur);
                            let comp = format!(
                                "edge_traversal.{}.{}{}",
                                dir,
                                cfg.net.name(),
                                if with_prev && cfg.net.pair() != 0.0 {
                                    ".turn_with_surcharge"
                                } else {
                                    ""
                                }
                            );
                            if close(total, want, 1e-9) {
                                st.pass("charged_cost_matches_formula");
                            } else {
                                st.violation(
                                    &comp,
                                    "charged_cost_is_weighted_change_plus_surcharges",
                                    size,
                                    || {
                                        format!(
                                            "access {} + traversal {} = {} but formula gives {}",
                                            et.access_cost.as_f64(),
                                            et.traversal_cost.as_f64(),
                                            total,
                                            want
                                        )
                                    },
                                    case,
                                );
                            }
                        }
                    }
                }
            }
        }
    }
}

fn all_vecs(vals: &[f64], k: usize) -> Vec<Vec<f64>> {
    let mut out = vec![vec![]];
    for _ in 0..k {
        let mut next = vec![];
        for v in out.iter() {
            for x in vals {
                let mut v2: Vec<f64> = v.clone();
                v2.push(*x);
                next.push(v2);
            }
        }
        out = next;
    }
    out
}

fn configs(k: usize, tier: Tier) -> Vec<Cfg> {
    // one feature: every rate term of bounded shape; two and three features: the eight hand-picked mappings
    let rs = if k == 1 {
        rate_terms(tier.pick(2, 3))
    } else {
        rates()
    };
    let nets = [
        NetRate::Zero,
        NetRate::Edge(3.0),
        NetRate::Pair(100.0),
        NetRate::Both(3.0, 100.0),
        NetRate::Edge(-0.5),
        NetRate::EdgeTwice(3.0, -2.0, false),
        NetRate::EdgeTwice(-2.0, 3.0, true),
    ];
    let mut out = vec![];
    let weight_vecs = all_vecs(&WEIGHTS, k);
    let rate_idx = all_vecs(&(0..rs.len()).map(|i| i as f64).collect::<Vec<_>>(), k);
    for (wi, w) in weight_vecs.iter().enumerate() {
        for (ri, r) in rate_idx.iter().enumerate() {
            // k = 3: covering subset of the rate product in quick
            if k == 3 && (tier == Tier::Quick || true) && (wi * 7 + ri) % tier.pick(97, 11) != 0 {
                continue;
            }
            for (ni, net) in nets.iter().enumerate() {
                for mul in [false, true] {
                    if k >= 2 && tier == Tier::Quick && (wi + ri + ni + mul as usize) % 3 != 0 {
                        continue;
                    }
                    out.push(Cfg {
                        weights: w.clone(),
                        rates: r.iter().map(|i| rs[*i as usize].clone()).collect(),
                        net: net.clone(),
                        mul,
                    });
                }
            }
        }
    }
    out
}

/// the application's route to a cost model: CostModelService::build with weights and vehicle rates from the configuration or
/// from the query (a query's vehicle_rates replace the configured map as a whole, so a feature can be weighted and surcharged
/// without having a vehicle rate). The model it builds must charge what a model built directly from the same effective
/// weights, rates and network rates charges, on every state pair
fn service_route(st: &mut Stats) {
    use routee_compass::app::compass::config::cost_model::cost_model_service::CostModelService;
    let net = Net {
        n: 3,
        edges: vec![(0, 1, 1.0), (1, 2, 1.0)],
        xy: None,
    };
    let graph = Arc::new(net.graph());
    let e0 = *graph.get_edge(&EdgeId(0)).unwrap();
    let e1 = *graph.get_edge(&EdgeId(1)).unwrap();
    let vals = [-1.0, 0.0, 2.0];
    for k in 1..=2usize {
        let sm = Arc::new(StateModel::new(
            (0..k)
                .map(|i| {
                    (
                        format!("f{}", i),
                        StateFeature::Distance {
                            distance_unit: DistanceUnit::Meters,
                            initial: Distance::new(0.0),
                        },
                    )
                })
                .collect(),
        ));
        let states = all_vecs(&vals, k);
        let weight_sets: Vec<Vec<f64>> = if k == 1 {
            vec![vec![1.0], vec![2.0]]
        } else {
            vec![vec![1.0, 1.0], vec![2.0, 0.5], vec![1.0, 0.0]]
        };
        // which features have a vehicle rate: all, none, all but f0, only f0
        let rate_sets: Vec<Vec<bool>> = if k == 1 {
            vec![vec![true], vec![false]]
        } else {
            vec![
                vec![true, true],
                vec![false, false],
                vec![false, true],
                vec![true, false],
            ]
        };
        for nr in [
            NetRate::Zero,
            NetRate::Edge(3.0),
            NetRate::Pair(8.0),
            NetRate::Both(3.0, 8.0),
            NetRate::EdgeTwice(3.0, -2.0, false),
        ] {
            for w in weight_sets.iter() {
                for has in rate_sets.iter() {
                    for from_query in [false, true] {
                        st.states += 1;
                        st.nontrivial += 1;
                        let weights: HashMap<String, f64> = w
                            .iter()
                            .enumerate()
                            .map(|(i, x)| (format!("f{}", i), *x))
                            .collect();
                        let rates: HashMap<String, routee_compass_core::model::cost::vehicle::vehicle_cost_rate::VehicleCostRate> = has.iter().enumerate().filter(|(_, h)| **h).map(|(i, _)| (format!("f{}", i), Rate::Factor(0.5).real())).collect();
                        let mut nets = HashMap::new();
                        if nr != NetRate::Zero {
                            nets.insert("f0".to_string(), nr.real());
                        }
                        // configured: everything rated raw and weighted 1; the query may bring the weights and rates under test
                        let all_raw: HashMap<String, _> = (0..k)
                            .map(|i| (format!("f{}", i), Rate::Raw.real()))
                            .collect();
                        let all_one: HashMap<String, f64> =
                            (0..k).map(|i| (format!("f{}", i), 1.0)).collect();
                        let service = CostModelService {
                            vehicle_rates: Arc::new(if from_query {
                                all_raw
                            } else {
                                rates.clone()
                            }),
                            network_rates: Arc::new(nets.clone()),
                            weights: Arc::new(if from_query { all_one } else { weights.clone() }),
                            cost_aggregation: CostAggregation::Sum,
                            ignore_unknown_weights: true,
                        };
                        let query = if from_query {
                            json!({"weights": weights, "vehicle_rates": has.iter().enumerate().filter(|(_, h)| **h).map(|(i, _)| (format!("f{}", i), json!({"type": "factor", "factor": 0.5}))).collect::<serde_json::Map<String, Value>>()})
                        } else {
                            json!({})
                        };
                        let case = || json!({"service_route": true, "features": k, "weights": w, "features_with_a_vehicle_rate": has, "network_rate": nr, "weights_and_rates_from_query": from_query});
                        let comp = format!("cost_model_service.{}", nr.name());
                        let built = guarded(|| {
                            service.build(&query, sm.clone()).map_err(|e| e.to_string())
                        });
                        let direct = guarded(|| {
                            CostModel::new(
                                Arc::new(weights.clone()),
                                Arc::new(rates.clone()),
                                Arc::new(nets.clone()),
                                CostAggregation::Sum,
                                sm.clone(),
                            )
                            .map_err(|e| e.to_string())
                        });
                        let (a, b) = match (built, direct) {
                            (Err(p), _) | (_, Err(p)) => {
                                st.violation(&comp, "no_panic", k as u64, || p.clone(), case);
                                continue;
                            }
                            (Ok(a), Ok(b)) => (a, b),
                        };
                        let (a, b) = match (a, b) {
                            (Ok(a), Ok(b)) => (a, b),
                            (Err(_), Err(_)) => {
                                st.outcome("service_and_direct_both_refuse");
                                continue;
                            }
                            (x, y) => {
                                st.violation(
                                    &comp,
                                    "service_builds_the_configured_model",
                                    k as u64,
                                    || format!("service: {:?} ; direct: {:?}", x.err(), y.err()),
                                    case,
                                );
                                continue;
                            }
                        };
                        let mut bad: Option<String> = None;
                        'pairs: for p in states.iter() {
                            for n in states.iter() {
                                st.evaluations += 1;
                                st.transitions += 2;
                                st.traces += 1;
                                let ps: Vec<StateVar> = p.iter().map(|x| StateVar(*x)).collect();
                                let ns: Vec<StateVar> = n.iter().map(|x| StateVar(*x)).collect();
                                let ta = a
                                    .traversal_cost(&e1, &ps, &ns)
                                    .map(|c| c.as_f64())
                                    .map_err(|e| e.to_string());
                                let tb = b
                                    .traversal_cost(&e1, &ps, &ns)
                                    .map(|c| c.as_f64())
                                    .map_err(|e| e.to_string());
                                let aa = a
                                    .access_cost(&e0, &e1, &ps, &ns)
                                    .map(|c| c.as_f64())
                                    .map_err(|e| e.to_string());
                                let ab = b
                                    .access_cost(&e0, &e1, &ps, &ns)
                                    .map(|c| c.as_f64())
                                    .map_err(|e| e.to_string());
                                let same =
                                    |x: &Result<f64, String>, y: &Result<f64, String>| match (x, y)
                                    {
                                        (Ok(x), Ok(y)) => close(*x, *y, 1e-12),
                                        (Err(_), Err(_)) => true,
                                        _ => false,
                                    };
                                if !same(&ta, &tb) || !same(&aa, &ab) {
                                    bad = Some(format!("state {:?} -> {:?}: the service's model charges traversal {:?} access {:?}, the model built from the same weights and rates charges {:?} / {:?}", p, n, ta, aa, tb, ab));
                                    break 'pairs;
                                }
                            }
                        }
                        match bad {
                            Some(d) => st.violation(
                                &comp,
                                "service_builds_the_configured_model",
                                k as u64,
                                || d,
                                case,
                            ),
                            None => st.pass("service_builds_the_configured_model"),
                        }
                    }
                }
            }
        }
    }
}

pub fn run(tier: Tier) -> i32 {
    let info = RunInfo::new("C07", tier);
    let mut total = Stats::new();
    for k in 1..=3usize {
        let cfgs = configs(k, tier);
        // state pairs: k=1,2 the full lattice; k=3 every delta from two previous states
        let pairs: Vec<(Vec<f64>, Vec<f64>)> = if k <= 2 {
            let v = all_vecs(&VALS, k);
            v.iter()
                .flat_map(|p| v.iter().map(move |n| (p.clone(), n.clone())))
                .collect()
        } else {
            let v = all_vecs(&VALS, k);
            let p0 = vec![0.0; k];
            let p1 = vec![1.0, -2.0, 2.0];
            v.iter()
                .flat_map(|n| vec![(p0.clone(), n.clone()), (p1.clone(), n.clone())])
                .collect()
        };
        let deltas: Vec<(Vec<f64>, Vec<f64>)> = {
            let v = all_vecs(&[-1.0, 0.0, 2.0], k);
            v.iter()
                .flat_map(|a| v.iter().map(move |t| (a.clone(), t.clone())))
                .collect()
        };
        let n = cfgs.len() as u64;
        let st = par_blocks(n, 16, |lo, hi, st| {
            for i in lo..hi {
                let cfg = &cfgs[i as usize];
                check_cfg(cfg, &pairs, st);
                check_edge_traversal(cfg, &deltas, st);
                // the same configuration with its weights scaled far below the floor: a positive sum of 1e-12 is charged as
                // 1e-12, only sums that are not positive get the floor
                if !cfg.mul {
                    for scale in [1e-12, 3e-14] {
                        let small = Cfg {
                            weights: cfg.weights.iter().map(|w| w * scale).collect(),
                            ..cfg.clone()
                        };
                        check_cfg(&small, &pairs, st);
                    }
                }
                if i == 7 {
                    st.sample(2, || json!({"cfg": cfg, "state_pairs": pairs.len(), "delta_pairs": deltas.len()}));
                }
                // linearity in the weights and zero-weight features (sum aggregation, above the floor)
                if !cfg.mul {
                    let sm = Arc::new(cfg.state_model());
                    let scaled = Cfg {
                        weights: cfg.weights.iter().map(|w| w * 3.0).collect(),
                        ..cfg.clone()
                    };
                    if let (Ok(a), Ok(b)) =
                        (cfg.cost_model(sm.clone()), scaled.cost_model(sm.clone()))
                    {
                        let g = Net {
                            n: 3,
                            edges: vec![(0, 1, 1.0), (1, 2, 1.0)],
                            xy: None,
                        }
                        .graph();
                        let e1 = *g.get_edge(&EdgeId(1)).unwrap();
                        for (p, nx) in pairs.iter().step_by(7) {
                            let ps: Vec<StateVar> = p.iter().map(|x| StateVar(*x)).collect();
                            let ns: Vec<StateVar> = nx.iter().map(|x| StateVar(*x)).collect();
                            if let (Ok(ca), Ok(cb)) = (
                                a.traversal_cost(&e1, &ps, &ns),
                                b.traversal_cost(&e1, &ps, &ns),
                            ) {
                                let (ca, cb) = (ca.as_f64(), cb.as_f64());
                                if ca > FLOOR * 10.0 {
                                    st.transitions += 1;
                                    if close(cb, 3.0 * ca, 1e-9) {
                                        st.pass("linear_in_weights");
                                    } else {
                                        st.violation("cost_model.traversal_cost", "linear_in_weights", 0, || format!("cost(w)={} cost(3w)={}", ca, cb), || json!({"cfg": cfg, "prev_state": p, "next_state": nx}));
                                    }
                                }
                            }
                            // a zero-weight feature does not move the cost
                            if let Some(z) = cfg.weights.iter().position(|w| *w == 0.0) {
                                let mut ns2 = ns.clone();
                                ns2[z].0 += 17.0;
                                if let (Ok(c1), Ok(c2)) = (
                                    a.traversal_cost(&e1, &ps, &ns),
                                    a.traversal_cost(&e1, &ps, &ns2),
                                ) {
                                    st.transitions += 1;
                                    if c1.as_f64() == c2.as_f64() {
                                        st.pass("zero_weight_feature_ignored");
                                    } else {
                                        st.violation("cost_model.traversal_cost", "zero_weight_feature_ignored", 0, || format!("{} vs {}", c1.as_f64(), c2.as_f64()), || json!({"cfg": cfg, "prev_state": p, "next_state": nx, "zero_weight_feature": z}));
                                    }
                                }
                            }
                        }
                    }
                }
            }
        });
        total.merge(st);
    }
    service_route(&mut total);
    finish(
        &info,
        total,
        "state = one cost configuration (1-3 features, weight vector over {-1,0,0.5,1,2} with non-zero sum (sum aggregation: also scaled by 1e-12 and 3e-14, far below the floor), rate per feature from 8 mappings incl. nested combined (one feature: every rate term of bounded shape - atoms and Combined lists up to length 2/3 whose elements are atoms or nested Combined lists), network rate from {none, edge lookup, edge-pair lookup, combined, negative edge lookup, combined toll and credit for one edge in either order (plain and nested)}, sum/mul); also the application's CostModelService::build (weights and vehicle rates from configuration or query, features with and without a vehicle rate) against a model built directly from the same effective values; transition = one call of traversal_cost / access_cost / cost_estimate on a (prev,next) state pair from {-2..2}^k, or one forward/reverse EdgeTraversal with synthetic access/traversal models applying chosen deltas; non-trivial = negative weight or non-raw rate",
        true,
        json!({"features": "1..3", "state_values": VALS, "weights": WEIGHTS, "rate_mappings": 8, "network_rates": 5}),
        vec!["reference = closed-form sum over features of weight x rated change + surcharges, floored at 1e-10 (Cost::MIN_COST)".into()],
    )
}

pub fn replay(case: &Value) -> i32 {
    let case = if case.get("case").is_some() && case.get("cfg").is_none() {
        &case["case"]
    } else {
        case
    };
    if case.get("service_route").is_some() {
        // the whole service-route section is run again (a few hundred builds)
        let mut st = Stats::new();
        service_route(&mut st);
        for (k, g) in st.violations.iter() {
            println!("REPLAY-VIOLATION {} ({} cases) {}", k, g.count, g.detail);
        }
        return if st.violations.is_empty() { 0 } else { 1 };
    }
    let cfg: Cfg = match serde_json::from_value(case["cfg"].clone()) {
        Ok(c) => c,
        Err(e) => {
            println!("MACHINERY-ERROR cannot parse cfg: {}", e);
            return 2;
        }
    };
    let mut st = Stats::new();
    if case.get("access_delta").is_some() {
        let a: Vec<f64> = serde_json::from_value(case["access_delta"].clone()).unwrap_or_default();
        let t: Vec<f64> =
            serde_json::from_value(case["traversal_delta"].clone()).unwrap_or_default();
        check_edge_traversal(&cfg, &[(a, t)], &mut st);
    } else {
        let p: Vec<f64> = serde_json::from_value(case["prev_state"].clone()).unwrap_or_default();
        let n: Vec<f64> = serde_json::from_value(case["next_state"].clone()).unwrap_or_default();
        check_cfg(&cfg, &[(p, n)], &mut st);
    }
    for (k, g) in st.violations.iter() {
        println!("REPLAY-VIOLATION {} {}", k, g.detail);
    }
    println!(
        "replay: {} violated clauses, passes {:?}",
        st.violations.len(),
        st.clause_pass
    );
    if st.violations.is_empty() {
        0
    } else {
        1
    }
}
