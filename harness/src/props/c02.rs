//! C02 — the returned route has least total cost under the query's own objective
use crate::engine::{close, finish, guarded, RunInfo, Stats, Tier};
use crate::props::search_common::*;
use crate::refmodel::graph::bellman_ford;
use crate::world::net::{par_enumerate, GenSpec, LenMode, Net};
use crate::world::sw::{Rate, Term, Trav, World};
use routee_compass::app::compass::search_orientation::SearchOrientation;
use routee_compass_core::model::frontier::default::no_restriction::NoRestriction;
use routee_compass_core::model::unit::*;
use serde_json::{json, Value};
use std::collections::HashMap;
use std::sync::Arc;

/// the configuration alphabet for one net; `k` selects a covering subset in the quick tier
pub fn worlds(net: &Net, tier: Tier, idx: u64) -> Vec<World> {
    let m = net.m();
    let mut out = vec![];
    let dist_units: Vec<(DistanceUnit, DistanceUnit)> = vec![
        (DistanceUnit::Meters, DistanceUnit::Meters),
        (DistanceUnit::Kilometers, DistanceUnit::Miles),
        (DistanceUnit::Miles, DistanceUnit::Meters),
    ];
    let speed_units: Vec<(SpeedUnit, DistanceUnit, TimeUnit, DistanceUnit, TimeUnit)> = vec![
        (
            SpeedUnit::KilometersPerHour,
            DistanceUnit::Meters,
            TimeUnit::Seconds,
            DistanceUnit::Meters,
            TimeUnit::Seconds,
        ),
        (
            SpeedUnit::MetersPerSecond,
            DistanceUnit::Meters,
            TimeUnit::Seconds,
            DistanceUnit::Meters,
            TimeUnit::Seconds,
        ),
        (
            SpeedUnit::MilesPerHour,
            DistanceUnit::Miles,
            TimeUnit::Hours,
            DistanceUnit::Miles,
            TimeUnit::Hours,
        ),
        (
            SpeedUnit::KilometersPerHour,
            DistanceUnit::Kilometers,
            TimeUnit::Minutes,
            DistanceUnit::Feet,
            TimeUnit::Milliseconds,
        ),
        (
            SpeedUnit::MilesPerHour,
            DistanceUnit::Feet,
            TimeUnit::Milliseconds,
            DistanceUnit::Kilometers,
            TimeUnit::Minutes,
        ),
        (
            SpeedUnit::MetersPerSecond,
            DistanceUnit::Inches,
            TimeUnit::Hours,
            DistanceUnit::Meters,
            TimeUnit::Seconds,
        ),
    ];
    // (an offset is a charge per edge: the least-cost route is no longer the shortest one when it has more edges)
    let rates = [
        Rate::Raw,
        Rate::Factor(0.5),
        Rate::Combined(vec![Rate::Factor(2.0), Rate::Factor(0.25)]),
        Rate::Combined(vec![Rate::Factor(0.5), Rate::Offset(1.5)]),
    ];
    // (the last table set posts edge 0 twice: two tables of a combined rate price it, and both count)
    let sur: Vec<Vec<(usize, f64)>> = if m > 0 {
        vec![
            vec![],
            vec![(0, 3.5)],
            vec![(m - 1, 0.75)],
            vec![(0, 2.0), (m - 1, 0.75), (0, 1.5)],
        ]
    } else {
        vec![vec![]]
    };
    let full = tier == Tier::Thorough;
    // distance worlds
    for (ui, (mu, fu)) in dist_units.iter().enumerate() {
        for (wi, wd) in [1.0, 0.3].iter().enumerate() {
            for (ri, r) in rates.iter().enumerate() {
                for (si, s) in sur.iter().enumerate() {
                    if !full
                        && ((ui + wi + ri + si + idx as usize) % 6 != 0
                            || (si == 3 && idx % 2 == 1))
                    {
                        continue;
                    }
                    let mut w = World::distance(net.clone());
                    w.trav = Trav::Distance { model_unit: *mu };
                    w.feat_dist_unit = *fu;
                    w.w_dist = *wd;
                    w.r_dist = r.clone();
                    w.surcharge = s.clone();
                    out.push(w);
                }
            }
        }
    }
    // speed worlds
    if m > 0 {
        let speeds: Vec<f64> = (0..m)
            .map(|e| [10.0, 30.0, 60.0][(e + idx as usize) % 3])
            .collect();
        for (ui, (su, du, tu, fdu, ftu)) in speed_units.iter().enumerate() {
            for (wi, (wd, wt)) in [(1.0, 0.0), (0.0, 1.0), (1.0, 1.0), (0.3, 2.0)]
                .iter()
                .enumerate()
            {
                for (ri, r) in rates.iter().enumerate() {
                    for (si, s) in sur.iter().enumerate() {
                        if !full
                            && ((ui * 5 + wi * 3 + ri + si + idx as usize) % 24 != 0
                                || (si == 3 && idx % 2 == 1))
                        {
                            continue;
                        }
                        let mut w = World::distance(net.clone());
                        w.trav = Trav::Speed {
                            speed_unit: *su,
                            dist_unit: *du,
                            time_unit: *tu,
                            speeds: speeds.clone(),
                        };
                        w.feat_dist_unit = *fdu;
                        w.feat_time_unit = *ftu;
                        w.w_dist = *wd;
                        w.w_time = *wt;
                        w.r_dist = r.clone();
                        w.r_time = rates[(ri + 1) % rates.len()].clone();
                        w.surcharge = s.clone();
                        out.push(w);
                    }
                }
            }
        }
    }
    out
}

pub fn check_case(
    w: &World,
    algo: &Algo,
    orient: &Orient,
    reverse: bool,
    st: &mut Stats,
) -> Option<f64> {
    st.evaluations += 1;
    st.transitions += 1;
    st.traces += 1;
    let net = &w.net;
    let si = match w.si() {
        Ok(si) => si,
        Err(e) => {
            st.violation(
                "harness",
                "si_build",
                0,
                || e.clone(),
                || json!({"world": w}),
            );
            return None;
        }
    };
    let out = run_search(&si, algo, orient, reverse, &json!({}));
    st.outcome(out.kind());
    let size = net.size();
    let case = || case_json(w, algo, orient, reverse, Value::Null);
    let (start, target) = match orient {
        Orient::Vertex { o, d } => (*o, d.unwrap_or(*o)),
        Orient::Edge { o, d } => (net.edges[*o].1, d.map(|d| net.edges[d].0).unwrap_or(0)),
    };
    let unit_mode = if w.tol() < 1e-6 {
        "base_units"
    } else {
        "mixed_units"
    };
    let comp = format!(
        "{}.{}.{}.{}",
        algo.component(),
        if matches!(orient, Orient::Vertex { .. }) {
            "vertex"
        } else {
            "edge"
        },
        if reverse { "reverse" } else { "forward" },
        unit_mode
    );
    let cost_of = |e: usize| Some(w.ref_edge_cost(None, e));
    let bf = bellman_ford(net, start, !reverse, &cost_of);
    match &out {
        Outcome::Panic(p) => {
            st.violation(&comp, "no_panic", size, || p.clone(), case);
            None
        }
        Outcome::Ok { routes, .. } if !routes.is_empty() && !routes[0].is_empty() => {
            let r = &routes[0];
            // in edge orientation the given origin/destination edges are not part of the minimisation
            let inner: Vec<&RouteEdge> = match orient {
                Orient::Edge { .. } => {
                    if net.edges[r[0].edge].1 == net.edges[r[r.len() - 1].edge].0 && r.len() == 2 {
                        vec![]
                    } else {
                        r[1..r.len() - 1].iter().collect()
                    }
                }
                _ => r.iter().collect(),
            };
            let got: f64 = inner.iter().map(|e| e.access + e.traversal).sum();
            let want = if start == target { 0.0 } else { bf[target] };
            let n_paths = crate::refmodel::graph::simple_paths(
                net,
                start.min(net.n - 1),
                target.min(net.n - 1),
                &|_| true,
            )
            .len();
            if n_paths >= 2 {
                st.nontrivial += 1;
            }
            if close(got, want, w.tol()) {
                st.pass("route_cost_is_minimum");
            } else {
                st.violation(
                    &comp,
                    "route_cost_is_minimum",
                    size,
                    || {
                        format!(
                            "route {:?} costs {} but the least cost over all paths is {}",
                            route_ids(r),
                            got,
                            want
                        )
                    },
                    case,
                );
            }
            Some(got)
        }
        _ => None,
    }
}

fn is_metric(spec: &GenSpec) -> bool {
    spec.mode == LenMode::Metric || spec.mode == LenMode::LineMetric
}

pub fn for_net(spec: &GenSpec, net: &Net, tier: Tier, idx: u64, st: &mut Stats) {
    st.states += 1;
    let n = net.n;
    let m = net.m();
    let mut algos = vec![Algo::Dijkstra];
    if is_metric(spec) {
        algos.push(Algo::AStar(Some(1.0)));
        algos.push(Algo::AStar(Some(0.5)));
        algos.push(Algo::AStar(None));
    }
    for w in worlds(net, tier, idx).iter() {
        for reverse in [false, true] {
            let mut costs = vec![];
            for algo in algos.iter() {
                if let Some(c) = check_case(
                    w,
                    algo,
                    &Orient::Vertex {
                        o: 0,
                        d: Some(n - 1),
                    },
                    reverse,
                    st,
                ) {
                    costs.push(c);
                }
            }
            // Dijkstra and A* report the same cost
            if costs.len() >= 2 {
                if costs.iter().all(|c| close(*c, costs[0], w.tol())) {
                    st.pass("dijkstra_and_astar_agree");
                } else {
                    st.violation(
                        "astar_vs_dijkstra",
                        "same_route_cost",
                        net.size(),
                        || format!("costs {:?}", costs),
                        || json!({"world": w, "reverse": reverse}),
                    );
                }
            }
        }
        // edge orientation, forward: a covering subset of ordered edge pairs
        for o in 0..m {
            for d in 0..m {
                if o == d || (o * 7 + d * 3 + idx as usize) % 4 != 0 {
                    continue;
                }
                for algo in algos.iter() {
                    check_case(w, algo, &Orient::Edge { o, d: Some(d) }, false, st);
                }
            }
        }
    }
    // connectors of length zero that carry a surcharge (a toll gate, a ferry ramp): the distance does not change over such an
    // edge, the surcharge is charged all the same. Dijkstra only (an edge shorter than the straight line between its ends is
    // outside what is claimed for A*)
    if !is_metric(spec) && m > 0 && (tier == Tier::Thorough || idx % 3 == 0) {
        for e in [0, m - 1] {
            for (wd, sur) in [(1.0, 3.5), (0.3, 0.75)] {
                let mut net0 = net.clone();
                net0.edges[e].2 = 0.0;
                let mut w = World::distance(net0);
                w.w_dist = wd;
                w.surcharge = vec![(e, sur)];
                for reverse in [false, true] {
                    check_case(
                        &w,
                        &Algo::Dijkstra,
                        &Orient::Vertex {
                            o: 0,
                            d: Some(n - 1),
                        },
                        reverse,
                        st,
                    );
                }
                for o in 0..m {
                    for d in 0..m {
                        if o != d && (o * 5 + d * 3 + idx as usize) % 4 == 0 {
                            check_case(
                                &w,
                                &Algo::Dijkstra,
                                &Orient::Edge { o, d: Some(d) },
                                false,
                                st,
                            );
                        }
                    }
                }
            }
        }
    }
}

/// app layer: weights / vehicle_rates / cost_aggregation given in the query must replace the configured ones
pub fn app_layer(net: &Net, idx: u64, st: &mut Stats) {
    let n = net.n;
    if net.m() == 0 {
        return;
    }
    let speeds: Vec<f64> = (0..net.m())
        .map(|e| [10.0, 30.0, 60.0][(e + idx as usize) % 3])
        .collect();
    let mut w = World::distance(net.clone());
    w.trav = Trav::Speed {
        speed_unit: SpeedUnit::KilometersPerHour,
        dist_unit: DistanceUnit::Meters,
        time_unit: TimeUnit::Seconds,
        speeds,
    };
    w.term = Term::Unlimited;
    // configured objective: distance only
    let cfg_weights: HashMap<String, f64> =
        [("distance".to_string(), 1.0), ("time".to_string(), 0.0)]
            .into_iter()
            .collect();
    let cfg_rates = [
        ("distance".to_string(), Rate::Raw.real()),
        ("time".to_string(), Rate::Raw.real()),
    ]
    .into_iter()
    .collect::<HashMap<_, _>>();
    let variants: Vec<(&str, Value, (f64, f64, Rate, Rate))> = vec![
        ("configured", json!({}), (1.0, 0.0, Rate::Raw, Rate::Raw)),
        (
            "query_weights",
            json!({"weights": {"distance": 0.0, "time": 1.0}}),
            (0.0, 1.0, Rate::Raw, Rate::Raw),
        ),
        (
            "query_weights_and_rates",
            json!({"weights": {"distance": 1.0, "time": 1.0}, "vehicle_rates": {"distance": {"type": "factor", "factor": 0.01}, "time": {"type": "factor", "factor": 3.0}}}),
            (1.0, 1.0, Rate::Factor(0.01), Rate::Factor(3.0)),
        ),
        (
            "query_rates_only",
            json!({"vehicle_rates": {"distance": {"type": "factor", "factor": 2.0}, "time": {"type": "raw"}}}),
            (1.0, 0.0, Rate::Factor(2.0), Rate::Raw),
        ),
        // weights that also name a feature this state model does not have (a query written for an energy-aware application):
        // the name is ignored, the other weights of the query stay in force
        (
            "query_weights_with_unknown_name",
            json!({"weights": {"distance": 0.0, "time": 1.0, "energy_electric": 0.0}}),
            (0.0, 1.0, Rate::Raw, Rate::Raw),
        ),
        (
            "query_weights_with_unknown_name_first",
            json!({"weights": {"energy_liquid": 2.0, "distance": 0.25, "time": 3.0}}),
            (0.25, 3.0, Rate::Raw, Rate::Raw),
        ),
    ];
    for (name, extra, (wd, wt, rd, rt)) in variants {
        st.evaluations += 1;
        st.transitions += 1;
        st.traces += 1;
        let mut q = json!({"origin_vertex": 0, "destination_vertex": n - 1});
        for (k, v) in extra.as_object().unwrap() {
            q[k] = v.clone();
        }
        let mut intended = w.clone();
        intended.w_dist = wd;
        intended.w_time = wt;
        intended.r_dist = rd;
        intended.r_time = rt;
        let app = w.search_app(
            Algo::Dijkstra.real(),
            cfg_weights.clone(),
            cfg_rates.clone(),
            false,
            Arc::new(NoRestriction {}),
        );
        let qc = q.clone();
        let wc = w.clone();
        let case = move || json!({"app_layer": true, "world": wc, "query": qc});
        let r = guarded(|| {
            app.run(&q, &SearchOrientation::Vertex)
                .map(|(res, _)| res.routes)
                .map_err(|e| e.to_string())
        });
        let cost_of = |e: usize| Some(intended.ref_edge_cost(None, e));
        let bf = bellman_ford(net, 0, true, &cost_of);
        let comp = format!("search_app.{}", name);
        match r {
            Err(p) => st.violation(&comp, "no_panic", net.size(), || p.clone(), case),
            Ok(Err(e)) => {
                if bf[n - 1].is_finite() && n > 1 {
                    st.violation(
                        &comp,
                        "reachable_returns_route",
                        net.size(),
                        || e.clone(),
                        case,
                    );
                }
            }
            Ok(Ok(routes)) => {
                if n == 1 || routes.is_empty() || routes[0].is_empty() {
                    continue;
                }
                use routee_compass_core::model::unit::as_f64::AsF64;
                let got: f64 = routes[0].iter().map(|e| e.total_cost().as_f64()).sum();
                if close(got, bf[n - 1], 1e-8) {
                    st.pass("query_objective_in_force");
                } else {
                    let ids: Vec<usize> = routes[0].iter().map(|e| e.edge_id.0).collect();
                    st.violation(&comp, "route_cost_is_minimum_for_query_objective", net.size(), || format!("route {:?} costs {} but least cost under the query's weights/rates is {}", ids, got, bf[n - 1]), case);
                }
            }
        }
    }
}

pub fn specs(tier: Tier) -> Vec<GenSpec> {
    match tier {
        Tier::Quick => vec![
            GenSpec {
                n: 3,
                max_edges: 5,
                max_mult: 2,
                n_len: 2,
                self_loops: true,
                mode: LenMode::Alphabet,
            },
            GenSpec {
                n: 4,
                max_edges: 5,
                max_mult: 2,
                n_len: 1,
                self_loops: false,
                mode: LenMode::PowersOfTwo,
            },
            GenSpec {
                n: 4,
                max_edges: 5,
                max_mult: 1,
                n_len: 2,
                self_loops: false,
                mode: LenMode::Metric,
            },
            GenSpec {
                n: 4,
                max_edges: 4,
                max_mult: 2,
                n_len: 3,
                self_loops: false,
                mode: LenMode::Alphabet,
            },
            GenSpec {
                n: 4,
                max_edges: 4,
                max_mult: 1,
                n_len: 3,
                self_loops: false,
                mode: LenMode::LineMetric,
            },
        ],
        Tier::Thorough => vec![
            GenSpec {
                n: 3,
                max_edges: 6,
                max_mult: 2,
                n_len: 2,
                self_loops: true,
                mode: LenMode::Alphabet,
            },
            GenSpec {
                n: 4,
                max_edges: 5,
                max_mult: 2,
                n_len: 2,
                self_loops: false,
                mode: LenMode::Alphabet,
            },
            GenSpec {
                n: 4,
                max_edges: 6,
                max_mult: 1,
                n_len: 1,
                self_loops: false,
                mode: LenMode::PowersOfTwo,
            },
            GenSpec {
                n: 4,
                max_edges: 5,
                max_mult: 1,
                n_len: 2,
                self_loops: false,
                mode: LenMode::Metric,
            },
            GenSpec {
                n: 4,
                max_edges: 5,
                max_mult: 1,
                n_len: 3,
                self_loops: false,
                mode: LenMode::Metric,
            },
            GenSpec {
                n: 5,
                max_edges: 5,
                max_mult: 1,
                n_len: 1,
                self_loops: false,
                mode: LenMode::Metric,
            },
            GenSpec {
                n: 4,
                max_edges: 5,
                max_mult: 1,
                n_len: 3,
                self_loops: false,
                mode: LenMode::LineMetric,
            },
            GenSpec {
                n: 5,
                max_edges: 5,
                max_mult: 1,
                n_len: 2,
                self_loops: false,
                mode: LenMode::LineMetric,
            },
        ],
    }
}

pub fn run(tier: Tier) -> i32 {
    let info = RunInfo::new("C02", tier);
    let specs = specs(tier);
    let st = par_enumerate(&specs, |spec, net, st| {
        let idx = net.hash_idx();
        for_net(spec, net, tier, idx, st);
        if idx % tier.pick(8, 2) == 0 {
            app_layer(net, idx, st);
        }
        if net.n == 4 && net.m() == 4 {
            st.sample(1, || json!({"net": net, "worlds_per_net": worlds(net, tier, idx).len(), "example_world": worlds(net, tier, idx).last()}));
        }
    });
    let desc: Vec<String> = specs.iter().map(|s| s.describe()).collect();
    finish(
        &info,
        st,
        "state = one labelled multigraph; transition = one real search under one unit/weight/rate/surcharge configuration, direction and orientation; oracle = Bellman-Ford minimum over reference edge costs computed from the intended weights, rates and physical units (1e-8 in base units, 3e-3 where the repository's unit tables intervene); A* only on metric networks; non-trivial = at least two simple o-d paths",
        true,
        json!({"graph_families": desc, "configurations": tier.pick("covering subset (1/6 distance, 1/24 speed configurations per net, rotating with the net index)", "full product: 3 distance unit pairs x 2 weights x 3 rates x 3 surcharges + 6 speed unit tuples x 4 weight pairs x 3 rates x 3 surcharges")}),
        vec![
            "admissibility holds by construction: metric lengths are >= the code's own haversine + 1 m".into(),
            "no access model, no offsets, no negative weights (as the statement requires)".into(),
        ],
    )
}

pub fn replay(case: &Value) -> i32 {
    if case.get("app_layer").is_some() {
        println!("app-layer case: re-running the quick tier, which re-enumerates it");
        return run(Tier::Quick);
    }
    let w: World = match serde_json::from_value(case["world"].clone()) {
        Ok(w) => w,
        Err(e) => {
            println!("MACHINERY-ERROR cannot parse world: {}", e);
            return 2;
        }
    };
    let algo: Algo = serde_json::from_value(case["algo"].clone()).unwrap_or(Algo::Dijkstra);
    let orient: Orient = serde_json::from_value(case["orient"].clone()).unwrap_or(Orient::Vertex {
        o: 0,
        d: Some(w.net.n - 1),
    });
    let reverse = case["reverse"].as_bool().unwrap_or(false);
    let mut st = Stats::new();
    let c = check_case(&w, &algo, &orient, reverse, &mut st);
    println!("route cost {:?}", c);
    for (k, g) in st.violations.iter() {
        println!("REPLAY-VIOLATION {} {}", k, g.detail);
    }
    if st.violations.is_empty() {
        0
    } else {
        1
    }
}
