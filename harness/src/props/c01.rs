//! C01 — routes are contiguous origin-to-destination walks; trees are rooted trees
use crate::engine::{finish, RunInfo, Stats, Tier};
use crate::props::search_common::*;
use crate::world::net::{par_enumerate, GenSpec, LenMode, Net};
use crate::world::sw::{Rate, Trav, TurnCfg, World};
use routee_compass_core::model::network::{Edge, Vertex};
use routee_compass_core::model::state::state_feature::StateFeature;
use routee_compass_core::model::state::state_model::StateModel;
use routee_compass_core::model::traversal::state::state_variable::StateVar;
use routee_compass_core::model::traversal::traversal_model::TraversalModel;
use routee_compass_core::model::traversal::traversal_model_error::TraversalModelError;
use routee_compass_core::model::unit::*;
use serde_json::{json, Value};
use std::sync::Arc;

/// a traversal model of the user's that refuses one edge once the accumulated first state feature is beyond a limit (a range
/// limit, a time window): a search may fail with that error, but whatever route it does return must still be a walk
struct RefusesBeyond {
    inner: Arc<dyn TraversalModel>,
    edge: usize,
    limit: f64,
}
impl TraversalModel for RefusesBeyond {
    fn state_features(&self) -> Vec<(String, StateFeature)> {
        self.inner.state_features()
    }
    fn traverse_edge(
        &self,
        t: (&Vertex, &Edge, &Vertex),
        s: &mut Vec<StateVar>,
        sm: &StateModel,
    ) -> Result<(), TraversalModelError> {
        if t.1.edge_id.0 == self.edge && s.first().map_or(false, |x| x.0 > self.limit) {
            return Err(TraversalModelError::TraversalModelFailure(format!(
                "edge {} cannot be entered beyond {}",
                self.edge, self.limit
            )));
        }
        self.inner.traverse_edge(t, s, sm)
    }
    fn estimate_traversal(
        &self,
        od: (&Vertex, &Vertex),
        s: &mut Vec<StateVar>,
        sm: &StateModel,
    ) -> Result<(), TraversalModelError> {
        self.inner.estimate_traversal(od, s, sm)
    }
}

/// lane networks under single-via k = 2, 3 with a model that refuses one edge beyond a limit: every edge x three limits
fn refusing_model_sweep(st: &mut Stats) {
    let lanes: Vec<Net> = lane_nets().into_iter().filter(|n| n.m() <= 8).collect();
    let n_lanes = lanes.len() as u64;
    let st2 = crate::engine::par_blocks(n_lanes, 4, |lo, hi, st| {
        for i in lo..hi {
            let net = &lanes[i as usize];
            st.states += 1;
            let w = World::distance(net.clone());
            for e in 0..net.m() {
                for limit in [0.5, 1.5, 2.5, 3.5] {
                    for k in [2usize, 3] {
                        let algo = Algo::SingleVia {
                            k,
                            under: Box::new(Algo::Dijkstra),
                            sim: Some(Sim::AcceptAll),
                            term: None,
                        };
                        let orient = Orient::Vertex {
                            o: 0,
                            d: Some(net.n - 1),
                        };
                        st.evaluations += 1;
                        st.transitions += 1;
                        st.traces += 1;
                        let mut si = match w.si() {
                            Ok(si) => si,
                            Err(_) => continue,
                        };
                        si.traversal_model = Arc::new(RefusesBeyond {
                            inner: si.traversal_model.clone(),
                            edge: e,
                            limit,
                        });
                        let out = run_search(&si, &algo, &orient, false, &json!({}));
                        st.outcome(out.kind());
                        let comp = format!(
                            "{}.vertex_od.forward.model_refusing_an_edge",
                            algo.component()
                        );
                        let case = || json!({"world": w, "algo": algo, "orient": orient, "reverse": false, "extra": {"traversal_model_refuses_edge": e, "beyond_distance": limit}});
                        match &out {
                            Outcome::Panic(p) => {
                                st.violation(&comp, "no_panic", net.size(), || p.clone(), case)
                            }
                            Outcome::Ok { routes, .. } => {
                                if routes.len() > 1 {
                                    st.nontrivial += 1;
                                }
                                let mut ok = true;
                                for (ri, r) in routes.iter().enumerate() {
                                    let ids = route_ids(r);
                                    if ids.is_empty() {
                                        continue;
                                    }
                                    for (c, d) in route_structure(net, &ids, &orient, false) {
                                        ok = false;
                                        st.violation(
                                            &comp,
                                            c,
                                            net.size() + ids.len() as u64,
                                            || format!("route #{} {:?}: {}", ri, ids, d),
                                            case,
                                        );
                                    }
                                }
                                if ok {
                                    st.pass("routes_are_walks_under_a_refusing_model");
                                }
                            }
                            // the search may fail with the model's error: no route, no claim
                            _ => {}
                        }
                    }
                }
            }
        }
    });
    st.merge(st2);
}

pub fn algos(tier: Tier) -> Vec<Algo> {
    let mut v = vec![
        Algo::Dijkstra,
        Algo::AStar(Some(1.0)),
        Algo::AStar(Some(10.0)),
        Algo::SingleVia {
            k: 2,
            under: Box::new(Algo::Dijkstra),
            sim: Some(Sim::EdgeCos(0.99)),
            term: None,
        },
        Algo::SingleVia {
            k: 3,
            under: Box::new(Algo::AStar(Some(1.0))),
            sim: Some(Sim::DistCos(0.9)),
            term: None,
        },
    ];
    if tier == Tier::Thorough {
        v.push(Algo::AStar(Some(0.5)));
        v.push(Algo::AStar(Some(2.0)));
        v.push(Algo::AStar(None));
        v.push(Algo::SingleVia {
            k: 3,
            under: Box::new(Algo::Dijkstra),
            sim: None,
            term: Some(KTerm::Factor(2)),
        });
    }
    v
}

/// a speed + turn-delay world over the same net (tables derived deterministically from edge ids)
pub fn speed_turn_world(net: &Net) -> World {
    let m = net.m();
    let speeds: Vec<f64> = (0..m).map(|e| [10.0, 30.0, 60.0][e % 3]).collect();
    let headings: Vec<(i16, i16)> = (0..m)
        .map(|e| {
            (
                [0i16, 90, 180, 270, 350][e % 5],
                [0i16, 90, 180, 270, 350][(e * 2 + 1) % 5],
            )
        })
        .collect();
    World {
        net: net.clone(),
        trav: Trav::Speed {
            speed_unit: SpeedUnit::KilometersPerHour,
            dist_unit: DistanceUnit::Meters,
            time_unit: TimeUnit::Seconds,
            speeds,
        },
        feat_dist_unit: DistanceUnit::Meters,
        feat_time_unit: TimeUnit::Seconds,
        init_dist: 0.0,
        init_time: 0.0,
        turn: Some(TurnCfg {
            headings,
            delays: [0.0, 0.5, 1.0, 1.5, 2.0, 2.5, 3.0, 9.5],
            unit: TimeUnit::Seconds,
            blank_departure: vec![],
            no_departure_column: false,
        }),
        w_dist: 0.0,
        w_time: 1.0,
        r_dist: Rate::Raw,
        r_time: Rate::Raw,
        surcharge: vec![],
        turn_surcharge: vec![],
        mul: false,
        term: crate::world::sw::Term::Unlimited,
    }
}

/// discriminates the situation a violating edge-oriented case is in (names the failing site, see DESIGN §5)
fn edge_situation(net: &Net, o: usize, d: Option<usize>, route: Option<&[usize]>) -> &'static str {
    let (os, od, _) = net.edges[o];
    if let Some(d) = d {
        let (ds, dd, _) = net.edges[d];
        if od == ds {
            return "adjacent";
        }
        if let Some(r) = route {
            // the returned walk passes the tail of the origin edge / the head of the destination edge before its end
            let verts: Vec<usize> = r.iter().map(|e| net.edges[*e].0).collect();
            if !r.is_empty() && r[0] != o && verts.contains(&os) {
                return "path_passes_origin_tail";
            }
            let _ = dd;
        }
        if os == dd || os == ds || od == dd {
            return "shared_endpoints";
        }
    }
    if os == od {
        return "origin_self_loop";
    }
    "plain"
}

pub fn check_case(w: &World, algo: &Algo, orient: &Orient, reverse: bool, st: &mut Stats) {
    st.evaluations += 1;
    st.transitions += 1;
    st.traces += 1;
    let net = &w.net;
    let si = match w.si() {
        Ok(si) => si,
        Err(e) => {
            st.violation(
                "harness",
                "si_build",
                0,
                || e.clone(),
                || json!({"world": w}),
            );
            return;
        }
    };
    let out = run_search(&si, algo, orient, reverse, &json!({}));
    st.outcome(out.kind());
    let size = net.size();
    let case = || case_json(w, algo, orient, reverse, Value::Null);
    let orient_name = match orient {
        Orient::Vertex { d: Some(_), .. } => "vertex_od",
        Orient::Vertex { d: None, .. } => "vertex_o",
        Orient::Edge { d: Some(_), .. } => "edge_od",
        Orient::Edge { d: None, .. } => "edge_o",
    };
    let dirn = if reverse { "reverse" } else { "forward" };
    match &out {
        Outcome::Panic(p) => {
            st.violation(
                &format!("{}.{}.{}", algo.component(), orient_name, dirn),
                "no_panic",
                size,
                || p.clone(),
                case,
            );
        }
        Outcome::Ok { routes, trees, .. } => {
            if routes.len() > 1 || routes.iter().any(|r| r.len() > 1) {
                st.nontrivial += 1;
            }
            for (ri, r) in routes.iter().enumerate() {
                let ids = route_ids(r);
                if ids.is_empty() {
                    // an empty route is C05's business (identical origin and destination are outside C01's quantifier)
                    continue;
                }
                let sit = match orient {
                    Orient::Edge { o, d } => edge_situation(net, *o, *d, Some(&ids)),
                    _ => "plain",
                };
                let comp = format!("{}.{}.{}.{}", algo.component(), orient_name, dirn, sit);
                let bad = route_structure(net, &ids, orient, reverse);
                if bad.is_empty() {
                    st.pass("route_is_contiguous_walk");
                }
                for (c, dtl) in bad {
                    st.violation(
                        &comp,
                        c,
                        size,
                        || format!("route #{} {:?}: {}", ri, ids, dtl),
                        case,
                    );
                }
            }
            // trees: tree 0 is the (forward) search tree; single-via returns [fwd, rev]
            for (ti, t) in trees.iter().enumerate() {
                let tree_rev = if algo.is_ksp() { ti == 1 } else { reverse };
                let (root, origin_edge) = match orient {
                    Orient::Vertex { o, d } => {
                        if algo.is_ksp() && ti == 1 {
                            (d.unwrap_or(*o), None)
                        } else {
                            (*o, None)
                        }
                    }
                    Orient::Edge { o, d } => {
                        if algo.is_ksp() && ti == 1 {
                            (
                                d.map(|d| net.edges[d].0).unwrap_or(net.edges[*o].1),
                                Some(*o),
                            )
                        } else {
                            (net.edges[*o].1, Some(*o))
                        }
                    }
                };
                let sit = match orient {
                    Orient::Edge { o, d } => edge_situation(net, *o, *d, None),
                    _ => "plain",
                };
                let comp = format!(
                    "{}.{}.{}.{}.tree{}",
                    algo.component(),
                    orient_name,
                    dirn,
                    sit,
                    ti
                );
                // the destination-edge entry injected by the edge-oriented wrapper hangs below the tail of the destination edge
                let bad = tree_structure(net, t, root, tree_rev, origin_edge);
                if bad.is_empty() {
                    st.pass("tree_is_rooted_tree");
                }
                for (c, dtl) in bad {
                    st.violation(&comp, c, size, || format!("tree #{}: {}", ti, dtl), case);
                }
            }
        }
        _ => {}
    }
}

pub fn for_net(net: &Net, tier: Tier, idx: u64, st: &mut Stats) {
    st.states += 1;
    let n = net.n;
    let m = net.m();
    let mut worlds = vec![World::distance(net.clone())];
    if idx % 4 == 0 && m > 0 {
        worlds.push(speed_turn_world(net));
    }
    let algos = algos(tier);
    for w in worlds.iter() {
        for algo in algos.iter() {
            // vertex oriented
            if !algo.is_ksp() {
                check_case(
                    w,
                    algo,
                    &Orient::Vertex {
                        o: 0,
                        d: Some(n - 1),
                    },
                    false,
                    st,
                );
                check_case(
                    w,
                    algo,
                    &Orient::Vertex {
                        o: 0,
                        d: Some(n - 1),
                    },
                    true,
                    st,
                );
                check_case(w, algo, &Orient::Vertex { o: 0, d: None }, false, st);
                check_case(w, algo, &Orient::Vertex { o: 0, d: None }, true, st);
            } else {
                check_case(
                    w,
                    algo,
                    &Orient::Vertex {
                        o: 0,
                        d: Some(n - 1),
                    },
                    false,
                    st,
                );
            }
            // edge oriented: every ordered pair of distinct edges (stride for the more expensive algorithms)
            for o in 0..m {
                if !algo.is_ksp() {
                    check_case(w, algo, &Orient::Edge { o, d: None }, false, st);
                }
                for d in 0..m {
                    if o == d {
                        continue;
                    }
                    if algo.is_ksp() && (o + d + idx as usize) % 3 != 0 {
                        continue;
                    }
                    check_case(w, algo, &Orient::Edge { o, d: Some(d) }, false, st);
                }
            }
        }
    }
}

/// the same clauses through the whole application: response fields `route.path` (edge_id form) and `tree`
pub fn app_layer(scratch: &crate::world::app::Scratch, net: &Net, st: &mut Stats) {
    use crate::world::app::AppSpec;
    let n = net.n;
    let m = net.m();
    if m == 0 {
        return;
    }
    for orientation in ["vertex", "edge"] {
        let mut spec = AppSpec::simple(net.clone());
        spec.orientation = orientation.into();
        spec.algorithm = json!({"type": "a*", "weight_factor": 1.0});
        spec.output_plugins = vec![
            json!({"type": "traversal", "route": "edge_id", "tree": "json", "geometry_input_file": "$DIR/geometries.txt"}),
        ];
        static APP_DIR_COUNTER: std::sync::atomic::AtomicU64 = std::sync::atomic::AtomicU64::new(0);
        let dir = scratch.path.join(format!(
            "a{}_{}_{}",
            net.hash_idx(),
            orientation,
            APP_DIR_COUNTER.fetch_add(1, std::sync::atomic::Ordering::Relaxed)
        ));
        let app = match spec.build(&dir) {
            Ok(a) => a,
            Err(e) => {
                st.violation(
                    "harness",
                    "app_build",
                    0,
                    || e.clone(),
                    || json!({"net": net}),
                );
                return;
            }
        };
        let mut queries: Vec<(Value, Orient)> = vec![];
        if orientation == "vertex" {
            queries.push((
                json!({"origin_vertex": 0, "destination_vertex": n - 1}),
                Orient::Vertex {
                    o: 0,
                    d: Some(n - 1),
                },
            ));
            queries.push((
                json!({"origin_vertex": 0}),
                Orient::Vertex { o: 0, d: None },
            ));
        } else {
            for o in 0..m {
                for d in 0..m {
                    if o != d {
                        queries.push((
                            json!({"origin_edge": o, "destination_edge": d}),
                            Orient::Edge { o, d: Some(d) },
                        ));
                    }
                }
            }
        }
        let batch: Vec<Value> = queries.iter().map(|q| q.0.clone()).collect();
        let res = match crate::engine::guarded(|| app.run(batch.clone(), None)) {
            Ok(Ok(r)) => r,
            Ok(Err(e)) => {
                st.violation(
                    &format!("app.{}", orientation),
                    "run_returns_responses",
                    net.size(),
                    || e.to_string(),
                    || json!({"net": net, "app_layer": true}),
                );
                continue;
            }
            Err(p) => {
                st.violation(
                    &format!("app.{}", orientation),
                    "no_panic",
                    net.size(),
                    || p.clone(),
                    || json!({"net": net, "app_layer": true}),
                );
                continue;
            }
        };
        for (q, orient) in queries.iter() {
            st.evaluations += 1;
            st.transitions += 1;
            st.traces += 1;
            let r = match res.iter().find(|r| r["request"] == *q) {
                Some(r) => r,
                None => continue,
            };
            if r.get("error").is_some() {
                continue;
            }
            let case = || json!({"net": net, "app_layer": true, "query": q});
            let comp = format!("app.{}", orientation);
            if let Some(path) = r["route"]["path"].as_array() {
                let ids: Vec<usize> = path
                    .iter()
                    .filter_map(|x| x.as_u64().map(|v| v as usize))
                    .collect();
                if !ids.is_empty() {
                    let bad = route_structure(net, &ids, orient, false);
                    if bad.is_empty() {
                        st.pass("app_route_is_contiguous_walk");
                    }
                    for (c, d) in bad {
                        st.violation(
                            &comp,
                            c,
                            net.size(),
                            || format!("route.path {:?}: {}", ids, d),
                            case,
                        );
                    }
                }
            }
            if let Some(tree) = r["tree"].as_array() {
                // json tree output: list of branches {terminal_vertex, edge_traversal{edge_id,..}}; the key vertex is the far end of the edge
                let entries: Vec<TreeEntry> = tree
                    .iter()
                    .filter_map(|b| {
                        let e = b["edge_traversal"]["edge_id"].as_u64()? as usize;
                        let p = b["terminal_vertex"].as_u64()? as usize;
                        if e >= net.m() {
                            return None;
                        }
                        Some(TreeEntry {
                            vertex: net.edges[e].1,
                            parent: p,
                            edge: e,
                            cost: 0.0,
                            state: vec![],
                        })
                    })
                    .collect();
                if entries.len() == tree.len() {
                    let (root, oe) = match orient {
                        Orient::Vertex { o, .. } => (*o, None),
                        Orient::Edge { o, .. } => (net.edges[*o].1, Some(*o)),
                    };
                    let bad = tree_structure(net, &entries, root, false, oe);
                    if bad.is_empty() {
                        st.pass("app_tree_is_rooted_tree");
                    }
                    for (c, d) in bad {
                        st.violation(&comp, c, net.size(), || d.clone(), case);
                    }
                } else {
                    st.violation(
                        &comp,
                        "tree_edge_joins_parent_to_vertex",
                        net.size(),
                        || "tree output holds an edge that is not in the network".to_string(),
                        case,
                    );
                }
            }
        }
        let _ = std::fs::remove_dir_all(&dir);
    }
}

pub fn specs(tier: Tier) -> Vec<GenSpec> {
    match tier {
        Tier::Quick => vec![
            GenSpec {
                n: 2,
                max_edges: 4,
                max_mult: 2,
                n_len: 2,
                self_loops: true,
                mode: LenMode::Alphabet,
            },
            GenSpec {
                n: 3,
                max_edges: 5,
                max_mult: 2,
                n_len: 2,
                self_loops: true,
                mode: LenMode::Alphabet,
            },
            GenSpec {
                n: 4,
                max_edges: 5,
                max_mult: 2,
                n_len: 1,
                self_loops: true,
                mode: LenMode::Alphabet,
            },
            GenSpec {
                n: 4,
                max_edges: 4,
                max_mult: 1,
                n_len: 2,
                self_loops: false,
                mode: LenMode::Metric,
            },
            GenSpec {
                n: 5,
                max_edges: 5,
                max_mult: 1,
                n_len: 1,
                self_loops: false,
                mode: LenMode::PowersOfTwo,
            },
            // uneven geometry on a line: with weight factors above 1 vertices are re-opened after they have been expanded
            GenSpec {
                n: 4,
                max_edges: 4,
                max_mult: 1,
                n_len: 3,
                self_loops: false,
                mode: LenMode::LineMetric,
            },
        ],
        Tier::Thorough => vec![
            GenSpec {
                n: 2,
                max_edges: 6,
                max_mult: 2,
                n_len: 2,
                self_loops: true,
                mode: LenMode::Alphabet,
            },
            GenSpec {
                n: 3,
                max_edges: 6,
                max_mult: 2,
                n_len: 2,
                self_loops: true,
                mode: LenMode::Alphabet,
            },
            GenSpec {
                n: 4,
                max_edges: 6,
                max_mult: 2,
                n_len: 1,
                self_loops: true,
                mode: LenMode::Alphabet,
            },
            GenSpec {
                n: 4,
                max_edges: 5,
                max_mult: 1,
                n_len: 2,
                self_loops: false,
                mode: LenMode::Metric,
            },
            GenSpec {
                n: 4,
                max_edges: 5,
                max_mult: 2,
                n_len: 2,
                self_loops: false,
                mode: LenMode::Alphabet,
            },
            GenSpec {
                n: 5,
                max_edges: 6,
                max_mult: 1,
                n_len: 1,
                self_loops: false,
                mode: LenMode::PowersOfTwo,
            },
            GenSpec {
                n: 4,
                max_edges: 5,
                max_mult: 1,
                n_len: 3,
                self_loops: false,
                mode: LenMode::LineMetric,
            },
            GenSpec {
                n: 5,
                max_edges: 5,
                max_mult: 1,
                n_len: 2,
                self_loops: false,
                mode: LenMode::LineMetric,
            },
        ],
    }
}

/// origin stub 0 -> 1, `lanes` lanes of 1..3 edges each from junction 1 to junction 2, destination stub 2 -> n-1; edge 0 is the
/// origin stub, the last edge the destination stub; lane lengths make every lane a different total
pub fn lane_nets() -> Vec<Net> {
    let mut out = vec![];
    for lanes in 2..=4usize {
        for code in 0..3usize.pow(lanes as u32) {
            let lens: Vec<usize> = (0..lanes)
                .map(|i| 1 + (code / 3usize.pow(i as u32)) % 3)
                .collect();
            let mut edges = vec![(0usize, 1usize, 1.0)];
            let mut next_v = 3;
            for (li, len) in lens.iter().enumerate() {
                let mut at = 1usize;
                for step in 0..*len {
                    let to = if step + 1 == *len {
                        2
                    } else {
                        next_v += 1;
                        next_v - 1
                    };
                    edges.push((
                        at,
                        to,
                        1.0 + li as f64 * 0.75 + step as f64 * 0.01 + edges.len() as f64 * 0.001,
                    ));
                    at = to;
                }
            }
            let n = next_v + 1;
            edges.push((2, n - 1, 1.0));
            out.push(Net { n, edges, xy: None });
        }
    }
    out
}

pub fn run(tier: Tier) -> i32 {
    let info = RunInfo::new("C01", tier);
    let specs = specs(tier);
    let scratch = crate::world::app::Scratch::new("c01");
    let mut st = par_enumerate(&specs, |_spec, net, st| {
        let idx = net.hash_idx();
        for_net(net, tier, idx, st);
        // every 50th network also goes through the whole application (files, configuration, plugins)
        if idx % 50 == 0 {
            app_layer(&scratch, net, st);
        }
        if net.n == 3 && net.m() == 3 {
            st.sample(1, || json!({"net": net, "note": "every algorithm x direction x orientation x every ordered pair of distinct edges is run on it"}));
        }
    });
    // re-opening sweep: five vertices and up to five metric edges under weighted A*: a vertex that was expanded is re-labelled
    // through a cheaper way found later; its tree entry and those of its children must still chain to the origin
    // (the uneven line, not the lattice: on the lattice an edge three times the straight line is never worth a detour)
    let rspecs = vec![GenSpec {
        n: 5,
        max_edges: 5,
        max_mult: 1,
        n_len: 3,
        self_loops: false,
        mode: LenMode::LineMetric,
    }];
    let st2 = par_enumerate(&rspecs, |_spec, net, st| {
        st.states += 1;
        let w = World::distance(net.clone());
        for algo in [Algo::AStar(Some(2.0)), Algo::AStar(Some(10.0))].iter() {
            check_case(
                &w,
                algo,
                &Orient::Vertex {
                    o: 0,
                    d: Some(net.n - 1),
                },
                false,
                st,
            );
        }
    });
    st.merge(st2);
    // the same with plain A* where edges are recorded shorter than the straight line between their end points (an estimate
    // that is inconsistent at weight factor 1)
    let sspecs = vec![GenSpec {
        n: 5,
        max_edges: tier.pick(4, 5),
        max_mult: 1,
        n_len: 3,
        self_loops: false,
        mode: LenMode::LineShort,
    }];
    let st3 = par_enumerate(&sspecs, |_spec, net, st| {
        st.states += 1;
        let w = World::distance(net.clone());
        for algo in [Algo::AStar(None), Algo::AStar(Some(1.0))].iter() {
            check_case(
                &w,
                algo,
                &Orient::Vertex {
                    o: 0,
                    d: Some(net.n - 1),
                },
                false,
                st,
            );
            check_case(
                &w,
                algo,
                &Orient::Vertex {
                    o: 0,
                    d: Some(net.n - 1),
                },
                true,
                st,
            );
        }
    });
    st.merge(st3);
    // lanes: k-shortest-path answers with more routes than the small families have room for. An origin stub, 2-4 lanes of 1-3
    // edges between two junctions, a destination stub; asked for by vertex and by edge (the stubs, and the first edge of one
    // lane to the last edge of another), single-via with k = 2..4 under both underlying searches
    let lanes = lane_nets();
    let n_lanes = lanes.len() as u64;
    let st4 = crate::engine::par_blocks(n_lanes, 4, |lo, hi, st| {
        for i in lo..hi {
            let net = &lanes[i as usize];
            st.states += 1;
            let w = World::distance(net.clone());
            let m = net.m();
            for k in 2..=4usize {
                for (under, sim) in [
                    (Algo::Dijkstra, None),
                    (Algo::Dijkstra, Some(Sim::AcceptAll)),
                    (Algo::AStar(Some(1.0)), Some(Sim::EdgeCos(0.99))),
                ] {
                    let algo = Algo::SingleVia {
                        k,
                        under: Box::new(under),
                        sim,
                        term: None,
                    };
                    check_case(
                        &w,
                        &algo,
                        &Orient::Vertex {
                            o: 0,
                            d: Some(net.n - 1),
                        },
                        false,
                        st,
                    );
                    check_case(
                        &w,
                        &algo,
                        &Orient::Edge {
                            o: 0,
                            d: Some(m - 1),
                        },
                        false,
                        st,
                    );
                    check_case(
                        &w,
                        &algo,
                        &Orient::Edge {
                            o: 1,
                            d: Some(m - 2),
                        },
                        false,
                        st,
                    );
                    check_case(
                        &w,
                        &algo,
                        &Orient::Edge {
                            o: 0,
                            d: Some(m - 2),
                        },
                        false,
                        st,
                    );
                }
            }
        }
    });
    st.merge(st4);
    refusing_model_sweep(&mut st);
    // Yen's algorithm can hang on this tree; its routes are put through the same clauses inside the sandbox of C13
    st.notes.insert("yens: route clauses of C01 are evaluated on Yen's routes by the sandboxed C13 check (signature yens.*/route_*)".into());
    let mut desc: Vec<String> = specs.iter().map(|s| s.describe()).collect();
    desc.extend(rspecs.iter().map(|s| {
        format!(
            "{} under A* weight factors 2/10 (re-opening sweep)",
            s.describe()
        )
    }));
    desc.extend(sspecs.iter().map(|s| {
        format!(
            "{} under plain A* (re-opening sweep with an inconsistent estimate)",
            s.describe()
        )
    }));
    desc.push(format!("{} lane networks (origin stub, 2-4 lanes of 1-3 edges, destination stub) under single-via k = 2..4, by vertex and by edge", n_lanes));
    desc.push("lane networks of up to eight edges under single-via k = 2, 3 with a traversal model that refuses one edge beyond an accumulated distance (every edge x four limits)".to_string());
    finish(
        &info,
        st,
        "state = one labelled multigraph; transition = one real search (algorithm x direction x orientation x o/d) whose routes and trees are checked against the structural clauses; non-trivial = a result with several routes or a route of >= 2 edges",
        true,
        json!({"graph_families": desc, "algorithms": algos(tier)}),
        vec![
            "reverse direction is exercised for vertex orientation only: no entry point of the repository issues an edge-oriented reverse search".into(),
            "hash-map iteration order only breaks ties; the clauses never prescribe which of several equal answers is returned".into(),
        ],
    )
}

pub fn replay(case: &Value) -> i32 {
    let w: World = match serde_json::from_value(case["world"].clone()) {
        Ok(w) => w,
        Err(e) => {
            println!("MACHINERY-ERROR cannot parse world: {}", e);
            return 2;
        }
    };
    let algo: Algo = serde_json::from_value(case["algo"].clone()).unwrap_or(Algo::Dijkstra);
    let orient: Orient = match serde_json::from_value(case["orient"].clone()) {
        Ok(o) => o,
        Err(e) => {
            println!("MACHINERY-ERROR cannot parse orient: {}", e);
            return 2;
        }
    };
    let reverse = case["reverse"].as_bool().unwrap_or(false);
    let mut bad_runs = 0;
    // re-execute 16 times on fresh threads (fresh hash seeds)
    for i in 0..16 {
        let (w, algo) = (w.clone(), algo.clone());
        let st = std::thread::spawn(move || {
            let mut st = Stats::new();
            let si = w.si().unwrap();
            let out = run_search(&si, &algo, &orient, reverse, &json!({}));
            if i == 0 {
                println!("outcome: {}", out.text());
            }
            check_case(&w, &algo, &orient, reverse, &mut st);
            st
        })
        .join()
        .unwrap_or_default();
        if !st.violations.is_empty() {
            bad_runs += 1;
            if bad_runs == 1 {
                for (k, g) in st.violations.iter() {
                    println!("REPLAY-VIOLATION {} {}", k, g.detail);
                }
            }
        }
    }
    println!("replay: violated in {}/16 executions", bad_runs);
    if bad_runs > 0 {
        1
    } else {
        0
    }
}
