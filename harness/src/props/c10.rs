//! C10 — search limits bound the work and never alter an answer, only stop it
use crate::engine::{finish, RunInfo, Stats, Tier};
use crate::props::search_common::*;
use crate::world::net::{par_enumerate, GenSpec, LenMode, Net};
use crate::world::sw::{Term, World};
use routee_compass_core::model::frontier::frontier_model::FrontierModel;
use routee_compass_core::model::frontier::frontier_model_error::FrontierModelError;
use routee_compass_core::model::network::{Edge, Vertex};
use routee_compass_core::model::state::state_feature::StateFeature;
use routee_compass_core::model::state::state_model::StateModel;
use routee_compass_core::model::traversal::state::state_variable::StateVar;
use routee_compass_core::model::traversal::traversal_model::TraversalModel;
use routee_compass_core::model::traversal::traversal_model_error::TraversalModelError;
use serde_json::{json, Value};
use std::sync::atomic::{AtomicUsize, Ordering};
use std::sync::{Arc, Mutex};

/// records every edge offered to the frontier model (one call per incident edge of an expanded vertex)
struct RecordingFrontier {
    log: Arc<Mutex<Vec<usize>>>,
}
impl FrontierModel for RecordingFrontier {
    fn valid_frontier(
        &self,
        edge: &Edge,
        _: &[StateVar],
        _: Option<&Edge>,
        _: &StateModel,
    ) -> Result<bool, FrontierModelError> {
        self.log.lock().unwrap().push(edge.edge_id.0);
        Ok(true)
    }
}

/// sleeps once, during its k-th traverse_edge call
struct SleepingTraversal {
    inner: Arc<dyn TraversalModel>,
    calls: AtomicUsize,
    sleep_at: usize,
    sleep_ms: u64,
    /// number of frontier-log entries at the moment of the sleep
    log: Arc<Mutex<Vec<usize>>>,
    log_len_at_sleep: AtomicUsize,
}
impl TraversalModel for SleepingTraversal {
    fn state_features(&self) -> Vec<(String, StateFeature)> {
        self.inner.state_features()
    }
    fn traverse_edge(
        &self,
        t: (&Vertex, &Edge, &Vertex),
        s: &mut Vec<StateVar>,
        sm: &StateModel,
    ) -> Result<(), TraversalModelError> {
        let c = self.calls.fetch_add(1, Ordering::SeqCst);
        if c == self.sleep_at {
            std::thread::sleep(std::time::Duration::from_millis(self.sleep_ms));
            self.log_len_at_sleep
                .store(self.log.lock().unwrap().len(), Ordering::SeqCst);
        }
        self.inner.traverse_edge(t, s, sm)
    }
    fn estimate_traversal(
        &self,
        od: (&Vertex, &Vertex),
        s: &mut Vec<StateVar>,
        sm: &StateModel,
    ) -> Result<(), TraversalModelError> {
        self.inner.estimate_traversal(od, s, sm)
    }
}

/// (number of expansions with >= 1 incident edge, number of distinct labelled vertices) observed from the log
fn observed(net: &Net, log: &[usize], reverse: bool, start: usize) -> (usize, usize) {
    let tail = |e: usize| {
        if reverse {
            net.edges[e].1
        } else {
            net.edges[e].0
        }
    };
    let head = |e: usize| {
        if reverse {
            net.edges[e].0
        } else {
            net.edges[e].1
        }
    };
    let mut runs = 0;
    let mut last: Option<usize> = None;
    let mut seen_in_run: Vec<usize> = vec![];
    let mut heads = std::collections::BTreeSet::new();
    for e in log {
        let t = tail(*e);
        // a new run starts when the tail changes, or when an edge repeats within the run (same vertex expanded again)
        if last != Some(t) || seen_in_run.contains(e) {
            runs += 1;
            seen_in_run.clear();
        }
        seen_in_run.push(*e);
        last = Some(t);
        // the search origin keeps cost zero and is never labelled
        if head(*e) != start {
            heads.insert(head(*e));
        }
    }
    (runs, heads.len())
}

struct Run {
    out: Outcome,
    runs: usize,
    labelled: usize,
}

fn run_with(
    w: &World,
    term: &Term,
    algo: &Algo,
    orient: &Orient,
    reverse: bool,
) -> Result<Run, String> {
    let mut w2 = w.clone();
    w2.term = term.clone();
    let log = Arc::new(Mutex::new(vec![]));
    let si = w2.si_with(Arc::new(RecordingFrontier { log: log.clone() }))?;
    let out = run_search(&si, algo, orient, reverse, &json!({}));
    let l = log.lock().unwrap().clone();
    let start = match orient {
        Orient::Vertex { o, .. } => *o,
        Orient::Edge { o, .. } => w.net.edges[*o].1,
    };
    let (runs, labelled) = observed(&w.net, &l, reverse, start);
    Ok(Run {
        out,
        runs,
        labelled,
    })
}

fn same_result(a: &Outcome, b: &Outcome, first_route_only: bool) -> bool {
    match (a, b) {
        (
            Outcome::Ok {
                routes: ra,
                trees: ta,
                ..
            },
            Outcome::Ok {
                routes: rb,
                trees: tb,
                ..
            },
        ) => {
            let key = |r: &Vec<RouteEdge>| {
                r.iter()
                    .map(|e| {
                        (
                            e.edge,
                            e.access.to_bits(),
                            e.traversal.to_bits(),
                            e.state.iter().map(|x| x.to_bits()).collect::<Vec<_>>(),
                        )
                    })
                    .collect::<Vec<_>>()
            };
            if first_route_only {
                // k-shortest paths: the same set of routes (their order follows hash-ordered candidate lists), trees not compared
                let mut ka: Vec<_> = ra.iter().map(key).collect();
                let mut kb: Vec<_> = rb.iter().map(key).collect();
                ka.sort();
                kb.sort();
                return ra.first().map(key) == rb.first().map(key) && ka == kb;
            }
            if ra.len() != rb.len() || ta.len() != tb.len() {
                return false;
            }
            if ra.iter().zip(rb.iter()).any(|(x, y)| key(x) != key(y)) {
                return false;
            }
            let tkey = |t: &Vec<TreeEntry>| {
                t.iter()
                    .map(|e| (e.vertex, e.parent, e.edge, e.cost.to_bits()))
                    .collect::<Vec<_>>()
            };
            ta.iter().zip(tb.iter()).all(|(x, y)| tkey(x) == tkey(y))
        }
        (Outcome::NoPath(_), Outcome::NoPath(_)) => true,
        _ => false,
    }
}

fn names_limit(text: &str, term: &Term) -> bool {
    match term {
        Term::Iterations(l) => text.contains(&format!("exceeded iteration limit of {}", l)),
        Term::Size(l) => text.contains(&format!("exceeded solution size limit of {}", l)),
        Term::RuntimeMs { .. } => text.contains("exceeded runtime limit of"),
        Term::Combined(v) => v.iter().any(|t| names_limit(text, t)),
        Term::Unlimited => false,
    }
}

pub fn check_net(
    w: &World,
    algo: &Algo,
    orient: &Orient,
    reverse: bool,
    tier: Tier,
    st: &mut Stats,
) {
    let net = &w.net;
    let size = net.size();
    let comp_base = format!(
        "{}.{}{}",
        algo.component(),
        if reverse { "reverse" } else { "forward" },
        if matches!(orient, Orient::Edge { .. }) {
            ".by_edge"
        } else {
            ""
        }
    );
    let unlimited = match run_with(w, &Term::Unlimited, algo, orient, reverse) {
        Ok(r) => r,
        Err(e) => {
            st.violation(
                "harness",
                "si_build",
                0,
                || e.clone(),
                || json!({"world": w}),
            );
            return;
        }
    };
    st.evaluations += 1;
    st.transitions += 1;
    st.traces += 1;
    let (n_iter, n_tree) = match &unlimited.out {
        Outcome::Ok {
            iterations, trees, ..
        } => (
            *iterations as usize,
            trees.first().map(|t| t.len()).unwrap_or(0),
        ),
        Outcome::NoPath(_) => (unlimited.runs, unlimited.labelled),
        other => {
            st.violation(
                &comp_base,
                "unlimited_search_completes",
                size,
                || other.text(),
                || case_json(w, algo, orient, reverse, Value::Null),
            );
            return;
        }
    };
    if n_iter >= 2 {
        st.nontrivial += 1;
    }
    let max_out = (0..net.n)
        .map(|v| {
            if reverse {
                net.in_edges(v).len()
            } else {
                net.out_edges(v).len()
            }
        })
        .max()
        .unwrap_or(0);
    let ksp = algo.is_ksp();
    // limit alphabets: every value from 0 to beyond what the unlimited search needed
    let hi = n_iter.max(n_tree) + 3;
    let mut terms: Vec<(String, Term)> = vec![];
    for l in 0..=hi {
        terms.push(("iterations".into(), Term::Iterations(l as u64)));
        terms.push(("solution_size".into(), Term::Size(l)));
    }
    for l in 0..=hi {
        // combined of two: the other member is generous / tight
        terms.push((
            "combined".into(),
            Term::Combined(vec![Term::Iterations(l as u64), Term::Size(hi + 5)]),
        ));
        terms.push((
            "combined".into(),
            Term::Combined(vec![Term::Iterations(hi as u64 + 5), Term::Size(l)]),
        ));
        if tier == Tier::Thorough {
            terms.push((
                "combined".into(),
                Term::Combined(vec![Term::Iterations(l as u64), Term::Size(l)]),
            ));
        }
    }
    for f in [1u64, 2, 5] {
        terms.push((
            "runtime_generous".into(),
            Term::RuntimeMs {
                limit_ms: 3_600_000,
                frequency: f,
            },
        ));
        terms.push((
            "combined".into(),
            Term::Combined(vec![
                Term::RuntimeMs {
                    limit_ms: 3_600_000,
                    frequency: f,
                },
                Term::Iterations(hi as u64 + 5),
            ]),
        ));
    }
    let mut last_success: std::collections::HashMap<String, bool> =
        std::collections::HashMap::new();
    for (kind, term) in terms.iter() {
        st.evaluations += 1;
        st.transitions += 1;
        st.traces += 1;
        let r = match run_with(w, term, algo, orient, reverse) {
            Ok(r) => r,
            Err(_) => continue,
        };
        let comp = format!("{}.{}", comp_base, kind);
        let case = || case_json(w, algo, orient, reverse, json!({"limit": term}));
        st.outcome(&format!("{}:{}", kind, r.out.kind()));
        match &r.out {
            Outcome::Panic(p) => {
                st.violation(&comp, "no_panic", size, || p.clone(), case);
                continue;
            }
            Outcome::Terminated(text) => {
                if names_limit(text, term) {
                    st.pass("terminated_error_names_the_limit");
                } else {
                    st.violation(
                        &comp,
                        "terminated_error_names_the_limit",
                        size,
                        || format!("limit {:?} but error text is: {}", term, text),
                        case,
                    );
                }
                if kind == "runtime_generous" {
                    st.violation(
                        &comp,
                        "generous_runtime_limit_does_not_fire",
                        size,
                        || text.clone(),
                        case,
                    );
                }
            }
            Outcome::OtherErr(e) => {
                st.violation(
                    &comp,
                    "terminated_or_identical",
                    size,
                    || format!("limit {:?}: {}", term, e),
                    case,
                );
                continue;
            }
            Outcome::Ok { .. } | Outcome::NoPath(_) => {
                // whenever a search returns under a limit its result is identical to the unlimited result
                if same_result(&r.out, &unlimited.out, ksp) {
                    st.pass("result_under_limit_identical_to_unlimited");
                } else {
                    st.violation(
                        &comp,
                        "result_under_limit_identical_to_unlimited",
                        size,
                        || {
                            format!(
                                "limit {:?}: {} but unlimited: {}",
                                term,
                                r.out.text(),
                                unlimited.out.text()
                            )
                        },
                        case,
                    );
                }
            }
        }
        if ksp || matches!(orient, Orient::Edge { .. }) {
            continue;
        }
        // the iteration limit counts every pop, also of vertices without onward edges (which the recording frontier cannot
        // see): on a tie-free network Dijkstra pops exactly the vertices nearer than the destination (all reachable ones when
        // there is no destination or it cannot be reached) - N of them - and the limit test before pop number i lets it
        // through while i < limit, so the search completes iff limit > N
        if let (Term::Iterations(l), Algo::Dijkstra, Orient::Vertex { o, d }) = (term, algo, orient)
        {
            let cost_of = |e: usize| Some(w.ref_edge_cost(None, e));
            let dist = crate::refmodel::graph::bellman_ford(net, *o, !reverse, &cost_of);
            let dt = d.map(|d| dist[d]).filter(|x| x.is_finite());
            let n_ref = match dt {
                Some(dt) => dist.iter().filter(|x| **x < dt).count(),
                None => dist.iter().filter(|x| x.is_finite()).count(),
            };
            let completed = matches!(r.out, Outcome::Ok { .. } | Outcome::NoPath(_));
            if completed == ((*l as usize) > n_ref) {
                st.pass("iteration_limit_counts_every_pop");
            } else {
                st.violation(&comp, "iteration_limit_counts_every_pop", size, || format!("limit {}: the search {} although the reference search pops {} vertices before it is done", l, if completed { "completed" } else { "was terminated" }, n_ref), case);
            }
        }
        // work bounds (plain searches): observed expansions / labelled vertices, from the recording frontier
        let mut it_limit: Option<usize> = None;
        let mut size_limit: Option<usize> = None;
        fn collect(t: &Term, it: &mut Option<usize>, sz: &mut Option<usize>) {
            match t {
                Term::Iterations(l) => *it = Some(it.map_or(*l as usize, |x| x.min(*l as usize))),
                Term::Size(l) => *sz = Some(sz.map_or(*l, |x| x.min(*l))),
                Term::Combined(v) => v.iter().for_each(|t| collect(t, it, sz)),
                _ => {}
            }
        }
        collect(term, &mut it_limit, &mut size_limit);
        if let Some(l) = it_limit {
            if r.runs <= l {
                st.pass("expansions_at_most_iteration_limit");
            } else {
                st.violation(
                    &comp,
                    "expansions_at_most_iteration_limit",
                    size,
                    || format!("limit {} but {} expansions observed", l, r.runs),
                    case,
                );
            }
            if let Outcome::Ok { iterations, .. } = &r.out {
                if *iterations as usize <= l {
                    st.pass("reported_iterations_at_most_limit");
                } else {
                    st.violation(
                        &comp,
                        "reported_iterations_at_most_limit",
                        size,
                        || format!("limit {} but result reports {} iterations", l, iterations),
                        case,
                    );
                }
            }
        }
        if let Some(l) = size_limit {
            if r.labelled <= l + max_out {
                st.pass("tree_at_most_size_limit_plus_out_degree");
            } else {
                st.violation(
                    &comp,
                    "tree_at_most_size_limit_plus_out_degree",
                    size,
                    || {
                        format!(
                            "limit {} max out-degree {} but {} vertices labelled",
                            l, max_out, r.labelled
                        )
                    },
                    case,
                );
            }
            if let Outcome::Ok { trees, .. } = &r.out {
                let ts = trees.first().map(|t| t.len()).unwrap_or(0);
                if ts <= l + max_out {
                    st.pass("returned_tree_at_most_size_limit_plus_out_degree");
                } else {
                    st.violation(
                        &comp,
                        "returned_tree_at_most_size_limit_plus_out_degree",
                        size,
                        || format!("limit {} max out-degree {} but tree has {}", l, max_out, ts),
                        case,
                    );
                }
            }
        }
        // monotone success within one single-parameter family (limits are visited in ascending order)
        if matches!(term, Term::Iterations(_) | Term::Size(_)) {
            let ok = matches!(r.out, Outcome::Ok { .. } | Outcome::NoPath(_));
            if let Some(prev) = last_success.get(kind) {
                if *prev && !ok {
                    st.violation(
                        &comp,
                        "success_monotone_in_limit",
                        size,
                        || format!("succeeded with a smaller limit but not with {:?}", term),
                        case,
                    );
                } else {
                    st.pass("success_monotone_in_limit");
                }
            }
            last_success.insert(kind.clone(), ok);
        }
    }
}

/// exhausted time budget: the traversal model sleeps 3 ms during its k-th call under a 2 ms limit
pub fn check_runtime_exhausted(w: &World, reverse: bool, st: &mut Stats) {
    let net = &w.net;
    let algo = Algo::Dijkstra;
    let orient = Orient::Vertex { o: 0, d: None };
    let unlimited = match run_with(w, &Term::Unlimited, &algo, &orient, reverse) {
        Ok(r) => r,
        Err(_) => return,
    };
    let total_calls = {
        // number of traversals = number of frontier calls (every edge is valid)
        let log = Arc::new(Mutex::new(vec![]));
        let si = match w.si_with(Arc::new(RecordingFrontier { log: log.clone() })) {
            Ok(s) => s,
            Err(_) => return,
        };
        let _ = run_search(&si, &algo, &orient, reverse, &json!({}));
        let n = log.lock().unwrap().len();
        n
    };
    for freq in [1u64, 2, 3] {
        for k in 0..total_calls.min(4) {
            st.evaluations += 1;
            st.transitions += 1;
            st.traces += 1;
            let term = Term::RuntimeMs {
                limit_ms: 2,
                frequency: freq,
            };
            let mut w2 = w.clone();
            w2.term = term.clone();
            let log = Arc::new(Mutex::new(vec![]));
            let mut si = match w2.si_with(Arc::new(RecordingFrontier { log: log.clone() })) {
                Ok(s) => s,
                Err(_) => return,
            };
            let sleeper = Arc::new(SleepingTraversal {
                inner: si.traversal_model.clone(),
                calls: AtomicUsize::new(0),
                sleep_at: k,
                sleep_ms: 3,
                log: log.clone(),
                log_len_at_sleep: AtomicUsize::new(usize::MAX),
            });
            si.traversal_model = sleeper.clone();
            let out = run_search(&si, &algo, &orient, reverse, &json!({}));
            let l = log.lock().unwrap().clone();
            let at = sleeper.log_len_at_sleep.load(Ordering::SeqCst);
            let case = || {
                case_json(
                    w,
                    &algo,
                    &orient,
                    reverse,
                    json!({"limit": term, "sleep_during_traversal_call": k}),
                )
            };
            let comp = format!(
                "dijkstra.{}.runtime_exhausted",
                if reverse { "reverse" } else { "forward" }
            );
            let size = net.size();
            st.outcome(&format!("runtime_exhausted:{}", out.kind()));
            match &out {
                Outcome::Terminated(text) => {
                    if text.contains("exceeded runtime limit of") {
                        st.pass("terminated_error_names_the_limit");
                    } else {
                        st.violation(
                            &comp,
                            "terminated_error_names_the_limit",
                            size,
                            || text.clone(),
                            case,
                        );
                    }
                }
                Outcome::Ok { .. } => {
                    if !same_result(&out, &unlimited.out, false) {
                        st.violation(
                            &comp,
                            "result_under_limit_identical_to_unlimited",
                            size,
                            || out.text(),
                            case,
                        );
                    }
                }
                other => st.violation(
                    &comp,
                    "terminated_or_identical",
                    size,
                    || other.text(),
                    case,
                ),
            }
            // expansions that started after the sleeping one: at most frequency - 1 (then the scheduled check fires)
            if at != usize::MAX && at <= l.len() {
                let (runs_before, _) = observed(net, &l[..at], reverse, 0);
                let (runs_all, _) = observed(net, &l, reverse, 0);
                let after = runs_all.saturating_sub(runs_before);
                if after as u64 <= freq.saturating_sub(1) {
                    st.pass("stops_at_next_scheduled_check");
                } else {
                    st.violation(&comp, "stops_at_next_scheduled_check", size, || format!("frequency {}: {} expansions started after the budget was exhausted", freq, after), case);
                }
            }
        }
    }
}

pub fn for_net(net: &Net, tier: Tier, st: &mut Stats) {
    st.states += 1;
    let n = net.n;
    let idx = net.hash_idx();
    let w = World::distance(net.clone());
    let mut algos = vec![Algo::Dijkstra, Algo::AStar(Some(1.0))];
    if idx % 4 == 0 || tier == Tier::Thorough {
        algos.push(Algo::SingleVia {
            k: 2,
            under: Box::new(Algo::Dijkstra),
            sim: Some(Sim::EdgeCos(0.99)),
            term: None,
        });
    }
    for algo in algos.iter() {
        check_net(
            &w,
            algo,
            &Orient::Vertex {
                o: 0,
                d: Some(n - 1),
            },
            false,
            tier,
            st,
        );
        if !algo.is_ksp() {
            check_net(&w, algo, &Orient::Vertex { o: 0, d: None }, false, tier, st);
            check_net(
                &w,
                algo,
                &Orient::Vertex {
                    o: 0,
                    d: Some(n - 1),
                },
                true,
                tier,
                st,
            );
        }
        // searches asked for by edge go through a wrapper around the vertex search: a rotating subset of the ordered pairs of
        // distinct edges (adjacent ones are answered without a search) and destination-less searches from an edge;
        // result-level clauses only
        let m = net.m();
        for o in 0..m {
            for d in 0..m {
                if o != d && (o * 7 + d * 3 + idx as usize) % tier.pick(24, 2) == 0 {
                    check_net(&w, algo, &Orient::Edge { o, d: Some(d) }, false, tier, st);
                }
            }
            if !algo.is_ksp() && (o + idx as usize) % tier.pick(12, 1) == 0 {
                check_net(&w, algo, &Orient::Edge { o, d: None }, false, tier, st);
            }
        }
    }
    if idx % tier.pick(64, 16) == 0 && net.m() >= 2 {
        check_runtime_exhausted(&w, false, st);
        if tier == Tier::Thorough {
            check_runtime_exhausted(&w, true, st);
        }
    }
}

// ---------------------------------------------------------------------------------------------
// sub-searches of Yen's algorithm under limits (sandboxed: Yen's can hang on this tree, see C13)

fn yens_nets(tier: Tier) -> Vec<Net> {
    use crate::world::net::{for_each_in_shard, shards};
    let specs = vec![
        GenSpec {
            n: 4,
            max_edges: tier.pick(4, 5),
            max_mult: 1,
            n_len: 1,
            self_loops: false,
            mode: LenMode::PowersOfTwo,
        },
        GenSpec {
            n: 5,
            max_edges: tier.pick(4, 5),
            max_mult: 1,
            n_len: 1,
            self_loops: false,
            mode: LenMode::PowersOfTwo,
        },
    ];
    let mut out = vec![];
    // structured family "main path + detour": the least-cost path 0 -> 1 -> ... -> p has p edges; a detour of q edges
    // leaves it at vertex 1 and rejoins at the destination. with q > p the spur search needs more expansions than
    // the first search, so there are limit values that let the first search pass and stop a sub-search.
    for p in 3..=4usize {
        for q in 2..=tier.pick(6usize, 8usize) {
            let n = p + 1 + (q - 1);
            let mut edges: Vec<(usize, usize, f64)> =
                (0..p).map(|i| (i, i + 1, (1u64 << i) as f64)).collect();
            let mut prev = 1usize;
            for j in 0..q {
                let next = if j + 1 == q { p } else { p + 1 + j };
                edges.push((prev, next, (1u64 << (p + j)) as f64));
                prev = next;
            }
            // the destination of the query is vertex n-1 by convention: relabel so that the path end p becomes n-1
            let relabel = |v: usize| {
                if v == p {
                    n - 1
                } else if v == n - 1 {
                    p
                } else {
                    v
                }
            };
            let edges = edges
                .into_iter()
                .map(|(a, b, l)| (relabel(a), relabel(b), l))
                .collect();
            out.push(Net { n, edges, xy: None });
        }
    }
    for s in specs.iter() {
        for (p, t) in shards(s, 2) {
            for_each_in_shard(s, &p, t, &mut |net| {
                // only networks whose least-cost path has at least three edges: there Yen's spur searches actually run
                let w = World::distance(net.clone());
                let n = net.n;
                let paths = crate::refmodel::graph::simple_paths(net, 0, n - 1, &|_| true);
                if paths.len() < 2 {
                    return;
                }
                let best = paths
                    .iter()
                    .map(|p| {
                        (
                            p.iter().map(|e| w.ref_edge_cost(None, *e)).sum::<f64>(),
                            p.len(),
                        )
                    })
                    .fold((f64::INFINITY, 0), |a, b| if b.0 < a.0 { b } else { a });
                if best.1 >= 3 {
                    out.push(net.clone());
                }
            });
        }
    }
    out
}

fn yens_algo() -> Algo {
    Algo::Yens {
        k: 2,
        under: Box::new(Algo::Dijkstra),
        sim: Some(Sim::EdgeCos(0.99)),
        term: None,
    }
}

fn yens_sweep_case(net: &Net, st: &mut Stats) {
    st.states += 1;
    let w = World::distance(net.clone());
    let algo = yens_algo();
    let orient = Orient::Vertex {
        o: 0,
        d: Some(net.n - 1),
    };
    let unlimited = match run_with(&w, &Term::Unlimited, &algo, &orient, false) {
        Ok(r) => r,
        Err(_) => return,
    };
    st.evaluations += 1;
    st.transitions += 1;
    st.traces += 1;
    st.outcome(&format!("yens_unlimited:{}", unlimited.out.kind()));
    // an unlimited run that errs or panics is C13's business; the sweep needs an answer to compare with
    if !matches!(unlimited.out, Outcome::Ok { .. }) {
        return;
    }
    st.nontrivial += 1;
    let hi = net.n + 4;
    for l in 0..=hi {
        for (kind, term) in [
            ("iterations", Term::Iterations(l as u64)),
            ("solution_size", Term::Size(l)),
            (
                "combined",
                Term::Combined(vec![Term::Iterations(l as u64), Term::Size(hi + 3)]),
            ),
        ] {
            st.evaluations += 1;
            st.transitions += 1;
            st.traces += 1;
            let r = match run_with(&w, &term, &algo, &orient, false) {
                Ok(r) => r,
                Err(_) => continue,
            };
            let comp = format!("yens.sub_searches.{}", kind);
            let case = || case_json(&w, &algo, &orient, false, json!({"limit": term}));
            st.outcome(&format!("yens_{}:{}", kind, r.out.kind()));
            match &r.out {
                Outcome::Panic(p) => {
                    st.violation(&comp, "no_panic", net.size(), || p.clone(), case)
                }
                Outcome::Terminated(text) => {
                    if names_limit(text, &term) {
                        st.pass("yens_terminated_error_names_the_limit");
                    } else {
                        st.violation(
                            &comp,
                            "terminated_error_names_the_limit",
                            net.size(),
                            || format!("limit {:?} but error text is: {}", term, text),
                            case,
                        );
                    }
                }
                Outcome::OtherErr(e) => st.violation(
                    &comp,
                    "terminated_or_identical",
                    net.size(),
                    || format!("limit {:?}: {}", term, e),
                    case,
                ),
                Outcome::Ok { .. } | Outcome::NoPath(_) => {
                    if same_result(&r.out, &unlimited.out, false) {
                        st.pass("yens_result_under_limit_identical_to_unlimited");
                    } else {
                        st.violation(
                            &comp,
                            "result_under_limit_identical_to_unlimited",
                            net.size(),
                            || {
                                format!(
                                    "limit {:?}: {} but unlimited: {}",
                                    term,
                                    r.out.text(),
                                    unlimited.out.text()
                                )
                            },
                            case,
                        );
                    }
                }
            }
        }
    }
}

pub fn worker(args: &[String]) -> i32 {
    let tier = if args.first().map(|s| s.as_str()) == Some("thorough") {
        Tier::Thorough
    } else {
        Tier::Quick
    };
    let nets = yens_nets(tier);
    crate::engine::sandbox::worker_loop(|i, st| {
        yens_sweep_case(&nets[i as usize], st);
        if i == 5 {
            st.sample(2, || json!({"yens_limit_sweep_net": nets[i as usize]}));
        }
    })
}

pub fn specs(tier: Tier) -> Vec<GenSpec> {
    match tier {
        Tier::Quick => vec![
            GenSpec {
                n: 3,
                max_edges: 6,
                max_mult: 2,
                n_len: 1,
                self_loops: true,
                mode: LenMode::PowersOfTwo,
            },
            GenSpec {
                n: 4,
                max_edges: 5,
                max_mult: 2,
                n_len: 1,
                self_loops: true,
                mode: LenMode::PowersOfTwo,
            },
            GenSpec {
                n: 5,
                max_edges: 5,
                max_mult: 1,
                n_len: 1,
                self_loops: false,
                mode: LenMode::PowersOfTwo,
            },
        ],
        Tier::Thorough => vec![
            GenSpec {
                n: 3,
                max_edges: 7,
                max_mult: 2,
                n_len: 1,
                self_loops: true,
                mode: LenMode::PowersOfTwo,
            },
            GenSpec {
                n: 4,
                max_edges: 6,
                max_mult: 2,
                n_len: 1,
                self_loops: true,
                mode: LenMode::PowersOfTwo,
            },
            GenSpec {
                n: 5,
                max_edges: 6,
                max_mult: 1,
                n_len: 1,
                self_loops: false,
                mode: LenMode::PowersOfTwo,
            },
            GenSpec {
                n: 6,
                max_edges: 5,
                max_mult: 1,
                n_len: 1,
                self_loops: false,
                mode: LenMode::PowersOfTwo,
            },
        ],
    }
}

fn respell(v: &Value, how: usize) -> Value {
    match v {
        Value::Object(m) => Value::Object(
            m.iter()
                .map(|(k, x)| {
                    if k == "type" {
                        let t = x.as_str().unwrap_or("");
                        let r: String = match how {
                            0 => t.to_string(),
                            1 => t.to_uppercase(),
                            2 => t
                                .chars()
                                .enumerate()
                                .map(|(i, c)| if i == 0 { c.to_ascii_uppercase() } else { c })
                                .collect(),
                            _ => t
                                .chars()
                                .enumerate()
                                .map(|(i, c)| {
                                    if i % 2 == 1 {
                                        c.to_ascii_uppercase()
                                    } else {
                                        c
                                    }
                                })
                                .collect(),
                        };
                        (k.clone(), Value::String(r))
                    } else {
                        (k.clone(), respell(x, how))
                    }
                })
                .collect(),
        ),
        Value::Array(a) => Value::Array(a.iter().map(|x| respell(x, how)).collect()),
        _ => v.clone(),
    }
}

/// reference decision of a limit on (tree size, iteration): which member limits fire
fn ref_fires(term: &Term, size: usize, iteration: u64, out: &mut Vec<String>) {
    match term {
        Term::Unlimited => {}
        Term::Iterations(l) => {
            if iteration + 1 > *l {
                out.push(format!("exceeded iteration limit of {}", l));
            }
        }
        Term::Size(l) => {
            if size > *l {
                out.push(format!("exceeded solution size limit of {}", l));
            }
        }
        Term::RuntimeMs {
            limit_ms,
            frequency,
        } => {
            // the probe starts the clock one minute in the past: a zero budget is exhausted, an hour is not
            if (*frequency == 0 || iteration % frequency == 0) && *limit_ms < 60_000 {
                out.push("exceeded runtime limit of".to_string());
            }
        }
        Term::Combined(v) => v.iter().for_each(|t| ref_fires(t, size, iteration, out)),
    }
}

const SPELLINGS: [&str; 4] = ["lower", "upper", "capitalised", "alternating"];

/// the limit as the document the library's own `Deserialize` implementation of `TerminationModel` reads (the variant's
/// configured name around its fields; a duration as seconds and nanoseconds)
fn serde_document(term: &Term) -> Value {
    match term {
        Term::Unlimited => json!({"iterations": {"limit": u64::MAX / 4}}),
        Term::Iterations(l) => json!({"iterations": {"limit": l}}),
        Term::Size(l) => json!({"solution_size": {"limit": l}}),
        Term::RuntimeMs {
            limit_ms,
            frequency,
        } => {
            json!({"query_runtime": {"limit": {"secs": limit_ms / 1000, "nanos": (limit_ms % 1000) * 1_000_000}, "frequency": frequency}})
        }
        Term::Combined(v) => {
            json!({"combined": {"models": v.iter().map(serde_document).collect::<Vec<_>>()}})
        }
    }
}

fn spelling_terms() -> Vec<Term> {
    let mut singles = vec![];
    for l in [0u64, 1, 2, 5] {
        singles.push(Term::Iterations(l));
        singles.push(Term::Size(l as usize));
    }
    for f in [0u64, 1, 3] {
        singles.push(Term::RuntimeMs {
            limit_ms: 0,
            frequency: f,
        });
        singles.push(Term::RuntimeMs {
            limit_ms: 3_600_000,
            frequency: f,
        });
    }
    let mut out = singles.clone();
    for a in &singles {
        for b in &singles {
            out.push(Term::Combined(vec![a.clone(), b.clone()]));
        }
    }
    for a in [Term::Iterations(2), Term::Size(2)] {
        for b in [
            Term::Iterations(4),
            Term::Size(1),
            Term::RuntimeMs {
                limit_ms: 0,
                frequency: 3,
            },
        ] {
            out.push(Term::Combined(vec![
                Term::Combined(vec![a.clone()]),
                b.clone(),
            ]));
            out.push(Term::Combined(vec![
                b.clone(),
                Term::Combined(vec![a.clone(), b.clone()]),
            ]));
        }
    }
    out.push(Term::Combined(vec![]));
    out
}

/// every limit written as a configuration section, in each spelling, must decide every (size, iteration) probe like the limit it names
fn builder_spellings(st: &mut Stats, only: Option<&Value>) {
    use routee_compass::app::compass::config::termination_model_builder::TerminationModelBuilder;
    let start = std::time::Instant::now() - std::time::Duration::from_secs(60);
    use routee_compass_core::model::termination::termination_model::TerminationModel;
    for term in spelling_terms() {
        // five ways to a model: the configuration section in four spellings through the application's builder, and the
        // document of the library's own Deserialize implementation
        let mut routes: Vec<(String, Value, bool)> = vec![];
        if let Some(cfg) = term.config_json() {
            for (how, name) in SPELLINGS.iter().enumerate() {
                routes.push((
                    format!("termination_builder.{}", name),
                    respell(&cfg, how),
                    false,
                ));
            }
        }
        routes.push((
            "termination_model.deserialize".to_string(),
            serde_document(&term),
            true,
        ));
        for (comp, section, by_serde) in routes {
            if let Some(o) = only {
                if o.get("section") != Some(&section) {
                    continue;
                }
            }
            st.evaluations += 1;
            let case = || json!({"kind": "termination_builder", "section": section, "limit": term});
            let attempt: Result<Result<TerminationModel, String>, _> =
                std::panic::catch_unwind(|| {
                    if by_serde {
                        serde_json::from_value::<TerminationModel>(section.clone())
                            .map_err(|e| e.to_string())
                    } else {
                        TerminationModelBuilder::build(&section, None).map_err(|e| e.to_string())
                    }
                });
            let built = match attempt {
                Ok(Ok(t)) => t,
                Ok(Err(e)) => {
                    st.violation(
                        &comp,
                        "every_spelling_of_a_limit_kind_is_accepted",
                        0,
                        || format!("{} is rejected: {}", section, e),
                        case,
                    );
                    continue;
                }
                Err(_) => {
                    st.violation(
                        &comp,
                        "no_panic",
                        0,
                        || format!("{} makes the builder panic", section),
                        case,
                    );
                    continue;
                }
            };
            let mut bad: Option<String> = None;
            'probe: for size in 0usize..=7 {
                for iteration in 0u64..=7 {
                    let mut want = vec![];
                    ref_fires(&term, size, iteration, &mut want);
                    let got = match std::panic::catch_unwind(std::panic::AssertUnwindSafe(|| {
                        built.test(&start, size, iteration)
                    })) {
                        Ok(g) => g,
                        Err(_) => {
                            bad = Some(format!(
                                "{} at tree size {} and iteration {}: the built model panics",
                                section, size, iteration
                            ));
                            break 'probe;
                        }
                    };
                    let ok = match (&got, want.is_empty()) {
                        (Ok(()), true) => true,
                        (Err(e), false) => {
                            let text = e.to_string();
                            want.iter().all(|w| text.contains(w.as_str()))
                                && (text.contains("iteration limit")
                                    == want.iter().any(|w| w.contains("iteration limit")))
                                && (text.contains("solution size limit")
                                    == want.iter().any(|w| w.contains("solution size limit")))
                                && (text.contains("runtime limit")
                                    == want.iter().any(|w| w.contains("runtime limit")))
                        }
                        _ => false,
                    };
                    if !ok {
                        bad = Some(format!("{} at tree size {} and iteration {}: the limit it names gives {:?}, the built model answers {:?}", section, size, iteration, want, got.map_err(|e| e.to_string())));
                        break 'probe;
                    }
                }
            }
            match bad {
                Some(d) => st.violation(
                    &comp,
                    "built_model_decides_like_the_configured_limit",
                    0,
                    || d,
                    case,
                ),
                None => st.pass("termination_builder_spelling"),
            }
        }
    }
}

pub fn run(tier: Tier) -> i32 {
    let info = RunInfo::new("C10", tier);
    let specs = specs(tier);
    let mut st = par_enumerate(&specs, |_spec, net, st| {
        for_net(net, tier, st);
        if net.n == 4 && net.m() == 4 {
            st.sample(1, || json!({"net": net, "limits": "iterations 0..N+3, solution_size 0..N+3, combined pairs, runtime 1 h with frequency 1/2/5; runtime 2 ms with a 3 ms sleep in traversal call k"}));
        }
    });
    // frequency = 0 is a configuration value the builder accepts
    {
        st.evaluations += 1;
        let net = Net {
            n: 2,
            edges: vec![(0, 1, 1.0)],
            xy: None,
        };
        let w = World::distance(net);
        let term = Term::RuntimeMs {
            limit_ms: 3_600_000,
            frequency: 0,
        };
        if let Ok(r) = run_with(
            &w,
            &term,
            &Algo::Dijkstra,
            &Orient::Vertex { o: 0, d: Some(1) },
            false,
        ) {
            match &r.out {
                Outcome::Panic(p) => st.violation(
                    "runtime_limit.frequency_zero",
                    "no_panic",
                    0,
                    || p.clone(),
                    || {
                        case_json(
                            &w,
                            &Algo::Dijkstra,
                            &Orient::Vertex { o: 0, d: Some(1) },
                            false,
                            json!({"limit": term}),
                        )
                    },
                ),
                _ => st.pass("frequency_zero_no_panic"),
            }
        }
    }
    // budgets so large that start + budget is not a representable instant: such a budget never runs out
    {
        use routee_compass::app::compass::config::termination_model_builder::TerminationModelBuilder;
        use routee_compass_core::model::termination::termination_model::TerminationModel;
        let start = std::time::Instant::now();
        let mut models: Vec<(String, TerminationModel)> = vec![];
        for (name, d) in [
            ("duration_max", std::time::Duration::MAX),
            ("u64_max_seconds", std::time::Duration::from_secs(u64::MAX)),
            (
                "i64_max_seconds",
                std::time::Duration::from_secs(i64::MAX as u64),
            ),
            (
                "two_to_the_62_seconds",
                std::time::Duration::from_secs(1 << 62),
            ),
            ("a_year", std::time::Duration::from_secs(31_536_000)),
        ] {
            for f in [0u64, 1, 7] {
                models.push((
                    format!("{}.frequency_{}", name, f),
                    TerminationModel::QueryRuntimeLimit {
                        limit: d,
                        frequency: f,
                    },
                ));
                models.push((
                    format!("{}.frequency_{}.combined", name, f),
                    TerminationModel::Combined {
                        models: vec![
                            TerminationModel::QueryRuntimeLimit {
                                limit: d,
                                frequency: f,
                            },
                            TerminationModel::IterationsLimit { limit: 1000 },
                        ],
                    },
                ));
            }
        }
        for text in [
            "3000000000000000:00:00",
            "2562047788015215:30:07",
            "100000:00:00",
        ] {
            if let Ok(t) = TerminationModelBuilder::build(
                &json!({"type": "query_runtime", "limit": text, "frequency": 1}),
                None,
            ) {
                models.push((
                    format!("configured_{}", text.split(':').next().unwrap_or("")),
                    t,
                ));
            }
        }
        for (name, t) in models.iter() {
            st.evaluations += 1;
            st.transitions += 8;
            let r = std::panic::catch_unwind(std::panic::AssertUnwindSafe(|| {
                (0u64..8)
                    .map(|i| t.test(&start, 3, i).map_err(|e| e.to_string()))
                    .collect::<Vec<_>>()
            }));
            let case = || json!({"kind": "huge_budget", "limit": name});
            match r {
                Err(_) => st.violation(
                    "runtime_limit.huge_budget",
                    "no_panic",
                    0,
                    || format!("{}: the limit test panics", name),
                    case,
                ),
                Ok(v) if v.iter().all(|x| x.is_ok()) => st.pass("huge_budget_does_not_fire"),
                Ok(v) => st.violation(
                    "runtime_limit.huge_budget",
                    "generous_runtime_limit_does_not_fire",
                    0,
                    || format!("{}: {:?}", name, v.iter().find(|x| x.is_err())),
                    case,
                ),
            }
        }
    }
    // the configuration route: every limit kind, alone / combined / nested, with its type name in every letter case the builder accepts
    builder_spellings(&mut st, None);
    // Yen's sub-searches under limits, in sandbox workers
    {
        use crate::engine::sandbox::{run_cases, Fate, SandboxCfg};
        let nets = yens_nets(tier);
        let cfg = SandboxCfg {
            worker_args: vec!["--worker".into(), "C10".into(), tier.as_str().into()],
            n_workers: 16,
            case_timeout: std::time::Duration::from_millis(300),
            block: 4,
            budget: std::time::Duration::from_secs(tier.pick(40, 900)),
        };
        match run_cases(&cfg, nets.len() as u64) {
            Ok((s2, fates)) => {
                st.merge(s2);
                st.notes.insert(format!("yens limit sweep: {} networks with a least-cost path of >= 3 edges and >= 2 simple paths, {} hung or died", nets.len(), fates.len()));
                for (i, f) in fates {
                    let net = &nets[i as usize];
                    let w = World::distance(net.clone());
                    let hops = "sp3plus";
                    match f {
                        Fate::Hang { waited_ms } => st.violation(
                            &format!("yens.sub_searches.{}", hops),
                            "terminates",
                            net.size(),
                            || format!("no answer after {} ms (second attempt, alone)", waited_ms),
                            || {
                                case_json(
                                    &w,
                                    &yens_algo(),
                                    &Orient::Vertex {
                                        o: 0,
                                        d: Some(net.n - 1),
                                    },
                                    false,
                                    Value::Null,
                                )
                            },
                        ),
                        Fate::Died { how } => st.violation(
                            &format!("yens.sub_searches.{}", hops),
                            "does_not_abort",
                            net.size(),
                            || how.clone(),
                            || {
                                case_json(
                                    &w,
                                    &yens_algo(),
                                    &Orient::Vertex {
                                        o: 0,
                                        d: Some(net.n - 1),
                                    },
                                    false,
                                    Value::Null,
                                )
                            },
                        ),
                    }
                }
            }
            Err(e) => {
                println!("MACHINERY-ERROR sandbox: {}", e);
                return 2;
            }
        }
    }
    let desc: Vec<String> = specs.iter().map(|s| s.describe()).collect();
    finish(
        &info,
        st,
        "state = one tie-free labelled multigraph (edge lengths 2^i, all path sums differ); transition = one real search under one limit value; every limit value from 0 to N+3 (N = what the unlimited search needed) for iterations, solution size and combined pairs, plus generous and exhausted runtime budgets; work observed through a recording frontier model; non-trivial = unlimited search needs >= 2 expansions",
        true,
        json!({"graph_families": desc}),
        vec![
            "expansions of vertices without incident edges are invisible to the recording frontier: observed expansions are a lower bound, so the bound clauses cannot raise a false alarm".into(),
            "exhausted runtime budget is produced soundly: 2 ms limit and a 3 ms sleep inside the k-th traversal; earlier termination on a stalled machine is legal and accepted".into(),
            "for single-via KSP only result-level clauses are evaluated (first route identical, terminated or identical)".into(),
            "Yen's: every limit value 0..n+4 (iterations, solution size, combined) on networks whose least-cost path has >= 3 edges, in sandbox workers; an unlimited run that errs is left to C13".into(),
        ],
    )
}

pub fn replay(case: &Value) -> i32 {
    if case["kind"] == "termination_builder" {
        let mut st = Stats::new();
        builder_spellings(&mut st, Some(case));
        println!("{} sections rebuilt", st.evaluations);
        for (k, g) in st.violations.iter() {
            println!("REPLAY-VIOLATION {} {}", k, g.detail);
        }
        return if st.violations.is_empty() { 0 } else { 1 };
    }
    let w: World = match serde_json::from_value(case["world"].clone()) {
        Ok(w) => w,
        Err(e) => {
            println!("MACHINERY-ERROR cannot parse world: {}", e);
            return 2;
        }
    };
    let algo: Algo = serde_json::from_value(case["algo"].clone()).unwrap_or(Algo::Dijkstra);
    let orient: Orient = serde_json::from_value(case["orient"].clone()).unwrap_or(Orient::Vertex {
        o: 0,
        d: Some(w.net.n - 1),
    });
    let reverse = case["reverse"].as_bool().unwrap_or(false);
    let term: Term =
        serde_json::from_value(case["extra"]["limit"].clone()).unwrap_or(Term::Unlimited);
    match run_with(&w, &term, &algo, &orient, reverse) {
        Ok(r) => println!(
            "limit {:?}: {} ; observed expansions {} labelled {}",
            term,
            r.out.text(),
            r.runs,
            r.labelled
        ),
        Err(e) => println!("{}", e),
    }
    if let Ok(r) = run_with(&w, &Term::Unlimited, &algo, &orient, reverse) {
        println!(
            "unlimited: {} ; observed expansions {} labelled {}",
            r.out.text(),
            r.runs,
            r.labelled
        );
    }
    let mut st = Stats::new();
    check_net(&w, &algo, &orient, reverse, Tier::Quick, &mut st);
    for (k, g) in st.violations.iter() {
        println!("REPLAY-VIOLATION {} {}", k, g.detail);
    }
    if st.violations.is_empty() {
        0
    } else {
        1
    }
}
