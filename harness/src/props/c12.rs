//! C12 — no query batch can make the application panic, abort or run without bound (deviation-bounded, sandboxed)
use crate::engine::sandbox::{run_cases, worker_loop, Fate, SandboxCfg};
use crate::engine::{finish, guarded, RunInfo, Stats, Tier};
use crate::world::app::{AppSpec, Scratch};
use crate::world::net::Net;
use routee_compass::app::compass::compass_app::CompassApp;
use routee_compass_core::model::unit::*;
use serde_json::{json, Value};
use std::time::Duration;

pub const BOLT: &str =
    "/repo/rust/routee-compass-powertrain/src/routee/test/2017_CHEVROLET_Bolt.bin";

/// the tie-free network all configurations share: a diamond with a tail, 5 vertices
///   0 -> 1 -> 3 -> 4,  0 -> 2 -> 3,  2 -> 1,  4 isolated sink; vertex 5 unreachable
pub fn base_net() -> Net {
    Net {
        n: 6,
        edges: vec![
            (0, 1, 1000.0),
            (1, 3, 2000.0),
            (0, 2, 4000.0),
            (2, 3, 8000.0),
            (3, 4, 16000.0),
            (2, 1, 32000.0),
            (5, 0, 64000.0),
        ],
        xy: None,
    }
}

pub struct AppDef {
    pub name: &'static str,
    pub spec: AppSpec,
    /// valid base queries
    pub bases: Vec<Value>,
    /// fields (json pointer style, dot separated) whose deviations are explored
    pub fields: Vec<&'static str>,
}

/// keys the configured input plugins write into the query (they may overwrite what the caller sent)
pub fn written_keys(app: &str) -> Vec<&'static str> {
    match app {
        "vertex_rtree" => vec!["origin_vertex", "destination_vertex"],
        "edge_rtree" => vec!["origin_edge", "destination_edge"],
        "load_balancer_haversine" | "load_balancer_custom" => vec!["query_weight_estimate"],
        "inject_overwrite" | "inject_no_overwrite" => vec!["weight_factor"],
        _ => vec![],
    }
}

pub fn apps() -> Vec<AppDef> {
    let net = base_net();
    let mut out = vec![];
    let speeds: Vec<f64> = (0..net.m()).map(|e| [30.0, 50.0, 80.0][e % 3]).collect();
    let vq = json!({"origin_vertex": 0, "destination_vertex": 4, "weights": {"distance": 1.0}, "vehicle_rates": {"distance": {"type": "raw"}}, "cost_aggregation": "sum", "weight_factor": 1.0});
    // A0 plain vertex-oriented
    out.push(AppDef {
        name: "plain_vertex",
        spec: AppSpec::simple(net.clone()),
        bases: vec![vq.clone(), json!({"origin_vertex": 0})],
        fields: vec![
            "origin_vertex",
            "destination_vertex",
            "weights",
            "weights.distance",
            "vehicle_rates",
            "vehicle_rates.distance",
            "vehicle_rates.distance.type",
            "cost_aggregation",
            "weight_factor",
        ],
    });
    // the same configuration with the route and the tree rendered in the other output formats (geometry is built from the route:
    // an empty route, a missing tree or an error must not reach the renderers unguarded)
    for (name, route, tree) in [
        ("plain_vertex_wkt", "wkt", "wkt"),
        ("plain_vertex_wkb", "wkb", "wkb"),
        ("plain_vertex_geo_json", "geo_json", "geo_json"),
        ("plain_vertex_json", "json", "json"),
    ] {
        let mut s = AppSpec::simple(net.clone());
        s.output_plugins = vec![
            json!({"type": "summary"}),
            json!({"type": "traversal", "route": route, "tree": tree, "geometry_input_file": "$DIR/geometries.txt"}),
        ];
        out.push(AppDef {
            name,
            spec: s,
            bases: vec![vq.clone(), json!({"origin_vertex": 0})],
            fields: vec!["origin_vertex", "destination_vertex"],
        });
    }
    // the uuid plugin ahead of the route renderer (it looks the origin and destination ids up in its own table, whatever the
    // search made of them); every base query has a destination, the plugin wants one
    for (name, plugins) in [
        (
            "plain_vertex_uuid_first",
            vec![
                json!({"type": "summary"}),
                json!({"type": "uuid", "uuid_input_file": "$DIR/uuids.txt"}),
                json!({"type": "traversal", "route": "edge_id", "geometry_input_file": "$DIR/geometries.txt"}),
            ],
        ),
        (
            "plain_vertex_uuid_tree_only",
            vec![
                json!({"type": "traversal", "tree": "edge_id", "geometry_input_file": "$DIR/geometries.txt"}),
                json!({"type": "uuid", "uuid_input_file": "$DIR/uuids.txt"}),
            ],
        ),
    ] {
        let mut s = AppSpec::simple(net.clone());
        s.uuids = Some((0..net.n).map(|v| format!("uuid-{}", v)).collect());
        s.output_plugins = plugins;
        out.push(AppDef {
            name,
            spec: s,
            bases: vec![vq.clone()],
            fields: vec!["origin_vertex", "destination_vertex"],
        });
    }
    // queries by edge with the route and the tree rendered (a query whose origin and destination are the same edge is answered
    // without a search: no route, no tree)
    for (name, plugins) in [
        (
            "plain_edge",
            vec![
                json!({"type": "summary"}),
                json!({"type": "traversal", "route": "edge_id", "tree": "edge_id", "geometry_input_file": "$DIR/geometries.txt"}),
            ],
        ),
        (
            "plain_edge_tree_only",
            vec![
                json!({"type": "traversal", "tree": "json", "geometry_input_file": "$DIR/geometries.txt"}),
            ],
        ),
    ] {
        let mut s = AppSpec::simple(net.clone());
        s.orientation = "edge".into();
        s.output_plugins = plugins;
        out.push(AppDef {
            name,
            spec: s,
            bases: vec![
                json!({"origin_edge": 0, "destination_edge": 4}),
                json!({"origin_edge": 6}),
            ],
            fields: vec!["origin_edge", "destination_edge"],
        });
    }
    // a combined limit whose runtime member checks on every iteration (frequency 0) next to an iteration limit that a longer
    // search hits: the terminated query is answered with an error response like any other
    {
        let mut s = AppSpec::simple(net.clone());
        s.termination = json!({"type": "combined", "models": [{"type": "query_runtime", "limit": "00:10:00", "frequency": 0}, {"type": "iterations", "limit": 3}]});
        out.push(AppDef {
            name: "limits_with_zero_frequency",
            spec: s,
            bases: vec![json!({"origin_vertex": 0, "destination_vertex": 1})],
            fields: vec!["origin_vertex", "destination_vertex"],
        });
    }
    // speed table model: state features can be overridden from the query
    let mut s = AppSpec::simple(net.clone());
    s.speed = Some((
        speeds.clone(),
        SpeedUnit::KilometersPerHour,
        Some(DistanceUnit::Meters),
        Some(TimeUnit::Seconds),
    ));
    s.cost = json!({"weights": {"distance": 0.0, "time": 1.0}, "vehicle_rates": {"distance": {"type": "raw"}, "time": {"type": "raw"}}, "cost_aggregation": "sum", "network_rates": {}});
    out.push(AppDef {
        name: "speed_vertex",
        spec: s,
        bases: vec![json!({"origin_vertex": 0, "destination_vertex": 4, "state_features": {"time": {"time_unit": "minutes", "initial": 0.0}}})],
        fields: vec!["state_features", "state_features.time", "state_features.time.time_unit", "state_features.time.initial", "origin_vertex"],
    });
    // A1 grid search
    let mut s = AppSpec::simple(net.clone());
    s.input_plugins = vec![json!({"type": "grid_search"})];
    out.push(AppDef {
        name: "grid_search",
        spec: s,
        // the first base expands to six searches - more than any batch here has entries - the second to two
        bases: vec![
            json!({"origin_vertex": 0, "destination_vertex": 4, "grid_search": {"weight_factor": [0.0, 0.5, 1.0], "tag2": [{"label": "a"}, {"label": "b"}]}}),
            json!({"origin_vertex": 0, "destination_vertex": 4, "grid_search": {"weight_factor": [0.0, 1.0], "tag2": [{"label": "a"}]}}),
        ],
        fields: vec!["grid_search", "grid_search.weight_factor", "grid_search.tag2", "origin_vertex"],
    });
    // A2 vertex rtree with tolerance
    let mut s = AppSpec::simple(net.clone());
    s.input_plugins = vec![
        json!({"type": "vertex_rtree", "vertices_input_file": "$DIR/vertices.csv", "distance_tolerance": 500.0, "distance_unit": "meters"}),
    ];
    out.push(AppDef {
        name: "vertex_rtree",
        spec: s,
        bases: vec![
            json!({"origin_x": 0.0, "origin_y": 0.0, "destination_x": 0.01, "destination_y": 0.01}),
        ],
        fields: vec!["origin_x", "origin_y", "destination_x", "destination_y"],
    });
    // A3 edge rtree, edge orientation, road class filter and vehicle restrictions in the matcher
    let mut s = AppSpec::simple(net.clone());
    s.orientation = "edge".into();
    s.road_classes = Some((0..net.m()).map(|e| (e % 2) as u8).collect());
    s.vehicle_restrictions = Some(vec![(1, "maximum_height".into(), 4.0, "meters".into())]);
    s.input_plugins = vec![
        json!({"type": "edge_rtree", "geometry_input_file": "$DIR/geometries.txt", "road_class_input_file": "$DIR/road_classes.txt", "vehicle_restriction_input_file": "$DIR/vehicle_restrictions.csv", "distance_tolerance": 5.0, "distance_unit": "kilometers"}),
    ];
    let vp = json!({"height": [13.0, "feet"], "width": [2.5, "meters"], "total_length": [60.0, "feet"], "trailer_length": [15.0, "meters"], "total_weight": [9000.0, "kg"], "number_of_axles": 4});
    out.push(AppDef {
        name: "edge_rtree",
        spec: s,
        bases: vec![json!({"origin_x": 0.005, "origin_y": 0.0, "destination_x": 0.009, "destination_y": 0.01, "road_classes": [0, 1], "vehicle_parameters": vp})],
        fields: vec!["origin_x", "origin_y", "destination_x", "destination_y", "road_classes", "vehicle_parameters", "vehicle_parameters.height", "vehicle_parameters.total_weight", "vehicle_parameters.number_of_axles"],
    });
    // A4 / A5 load balancer
    let mut s = AppSpec::simple(net.clone());
    s.input_plugins =
        vec![json!({"type": "load_balancer", "weight_heuristic": {"type": "haversine"}})];
    out.push(AppDef {
        name: "load_balancer_haversine",
        spec: s,
        bases: vec![json!({"origin_vertex": 0, "destination_vertex": 4, "origin_x": 0.0, "origin_y": 0.0, "destination_x": 0.01, "destination_y": 0.01})],
        fields: vec!["origin_x", "origin_y", "destination_x", "destination_y"],
    });
    let mut s = AppSpec::simple(net.clone());
    s.input_plugins = vec![
        json!({"type": "load_balancer", "weight_heuristic": {"type": "custom", "custom_weight_type": {"type": "numeric", "column_name": "w"}}}),
    ];
    out.push(AppDef {
        name: "load_balancer_custom",
        spec: s,
        bases: vec![json!({"origin_vertex": 0, "destination_vertex": 4, "w": 2.5}), json!({"origin_vertex": 0, "destination_vertex": 4, "w": 1.0, "query_weight_estimate": 3.0})],
        fields: vec!["w", "query_weight_estimate"],
    });
    // query_weight_estimate without the plugin
    out.push(AppDef {
        name: "weight_estimate_no_plugin",
        spec: AppSpec::simple(net.clone()),
        bases: vec![
            json!({"origin_vertex": 0, "destination_vertex": 4, "query_weight_estimate": 3.0}),
        ],
        fields: vec!["query_weight_estimate"],
    });
    // A6 / A7 inject
    let mut s = AppSpec::simple(net.clone());
    s.input_plugins = vec![
        json!({"type": "inject", "key": "weight_factor", "value": "1.0", "format": "json", "overwrite": true}),
    ];
    out.push(AppDef {
        name: "inject_overwrite",
        spec: s,
        bases: vec![json!({"origin_vertex": 0, "destination_vertex": 4})],
        fields: vec!["origin_vertex", "weight_factor"],
    });
    let mut s = AppSpec::simple(net.clone());
    s.input_plugins = vec![
        json!({"type": "inject", "key": "weight_factor", "value": "1.0", "format": "json", "overwrite": false}),
    ];
    out.push(AppDef {
        name: "inject_no_overwrite",
        spec: s,
        bases: vec![json!({"origin_vertex": 0, "destination_vertex": 4})],
        fields: vec!["origin_vertex", "weight_factor"],
    });
    // A8 energy model with one vehicle
    let mut s = AppSpec::simple(net.clone());
    s.speed = Some((
        speeds.clone(),
        SpeedUnit::KilometersPerHour,
        Some(DistanceUnit::Miles),
        Some(TimeUnit::Minutes),
    ));
    s.traversal_override = Some(json!({
        "type": "energy_model",
        "time_model": {"type": "speed_table", "speed_table_input_file": "$DIR/speeds.txt", "speed_unit": "kilometers_per_hour", "distance_unit": "miles", "time_unit": "minutes"},
        "grade_table_grade_unit": "decimal",
        "time_unit": "minutes",
        "distance_unit": "miles",
        "vehicles": [{"type": "bev", "name": "bolt", "model_input_file": BOLT, "model_type": "smartcore", "speed_unit": "miles_per_hour", "grade_unit": "decimal", "energy_rate_unit": "kilowatt_hours_per_mile", "ideal_energy_rate": 0.2, "real_world_energy_adjustment": 1.3958, "battery_capacity": 60, "battery_capacity_unit": "kilowatt_hours"}]
    }));
    s.cost = json!({"weights": {"distance": 0.0, "time": 1.0, "energy_electric": 1.0}, "vehicle_rates": {"distance": {"type": "raw"}, "time": {"type": "raw"}, "energy_electric": {"type": "factor", "factor": 0.5}}, "cost_aggregation": "sum", "network_rates": {}});
    out.push(AppDef {
        name: "energy_bev",
        spec: s,
        bases: vec![json!({"origin_vertex": 0, "destination_vertex": 4, "model_name": "bolt", "starting_soc_percent": 80.0})],
        fields: vec!["model_name", "starting_soc_percent", "origin_vertex"],
    });
    // A9 / A10 k-shortest paths
    let mut s = AppSpec::simple(net.clone());
    s.algorithm = json!({"type": "ksp_single_via", "k": 2, "underlying": {"type": "a*"}, "similarity": {"type": "edge_id_cosine_similarity", "threshold": 0.99}});
    out.push(AppDef {
        name: "ksp_single_via",
        spec: s,
        bases: vec![json!({"origin_vertex": 0, "destination_vertex": 4, "k": 2})],
        fields: vec!["k", "origin_vertex", "destination_vertex"],
    });
    let mut s = AppSpec::simple(net.clone());
    s.algorithm = json!({"type": "yens", "k": 1, "underlying": {"type": "dijkstra"}, "similarity": {"type": "edge_id_cosine_similarity", "threshold": 0.99}});
    out.push(AppDef {
        name: "yens_k1",
        spec: s,
        bases: vec![json!({"origin_vertex": 0, "destination_vertex": 4})],
        fields: vec!["origin_vertex", "destination_vertex"],
    });
    // A11 frontier models reading the query
    let mut s = AppSpec::simple(net.clone());
    s.road_classes = Some((0..net.m()).map(|e| (e == 5) as u8).collect());
    s.vehicle_restrictions = Some(vec![(5, "maximum_total_weight".into(), 5.0, "tons".into())]);
    s.frontier = json!({"type": "combined", "models": [
        {"type": "road_class", "road_class_input_file": "$DIR/road_classes.txt", "road_class_parser": {"mapping": {"local": 0, "highway": 1}}},
        {"type": "vehicle_restriction", "vehicle_restriction_input_file": "$DIR/vehicle_restrictions.csv"}
    ]});
    out.push(AppDef {
        name: "frontier_combined",
        spec: s,
        bases: vec![json!({"origin_vertex": 0, "destination_vertex": 4, "road_classes": ["local"], "vehicle_parameters": vp})],
        fields: vec!["road_classes", "vehicle_parameters", "vehicle_parameters.width", "vehicle_parameters.trailer_length", "vehicle_parameters.total_length", "vehicle_parameters.number_of_axles"],
    });
    out
}

fn deviation_values_basic() -> Vec<Value> {
    vec![
        json!(null),
        json!(true),
        json!(-1),
        json!(1.5),
        json!(9223372036854775808u64),
        json!("x"),
        json!([]),
        json!({}),
        json!([[]]),
    ]
}

/// long strings: ASCII, and 3- and 4-byte characters behind 0..3 ASCII characters, so that any fixed byte offset into
/// a text quoting the value falls inside a character for one of them (error texts quote what the user sent)
pub fn long_strings() -> Vec<String> {
    let mut v = vec!["a".repeat(2000)];
    for pre in 0..3 {
        v.push(format!("{}{}", "a".repeat(pre), "\u{8def}".repeat(400)));
    }
    for pre in 0..4 {
        v.push(format!("{}{}", "a".repeat(pre), "\u{1F600}".repeat(300)));
    }
    v
}

fn deviation_values() -> Vec<Value> {
    let mut v = deviation_values_basic();
    v.extend(long_strings().into_iter().map(Value::String));
    v
}

fn set_path(q: &mut Value, path: &str, v: Option<Value>) -> bool {
    let parts: Vec<&str> = path.split('.').collect();
    let mut cur = q;
    for p in &parts[..parts.len() - 1] {
        match cur.get_mut(*p) {
            Some(next) => cur = next,
            None => return false,
        }
    }
    let last = parts[parts.len() - 1];
    match cur.as_object_mut() {
        None => false,
        Some(o) => {
            if !o.contains_key(last) {
                // adding an absent optional field with a deviant value is a deviation too
                match v {
                    Some(v) => {
                        o.insert(last.to_string(), v);
                        true
                    }
                    None => false,
                }
            } else {
                match v {
                    Some(v) => {
                        o.insert(last.to_string(), v);
                    }
                    None => {
                        o.remove(last);
                    }
                }
                true
            }
        }
    }
}

/// gives an object query an identifying field no configuration reads, so that responses can be paired with queries
pub fn tagq(q: &Value, qid: &str) -> Value {
    let mut q = q.clone();
    if let Some(o) = q.as_object_mut() {
        o.insert("qid".to_string(), json!(qid));
    }
    q
}

#[derive(Clone, Debug)]
pub struct Case {
    pub app: usize,
    pub app_name: &'static str,
    /// the batch offered; `deviant` is the position of the deviant query in it (None: only valid queries / empty batch)
    pub batch: Vec<Value>,
    pub deviant: Option<usize>,
    pub what: String,
    /// number of deviations from a valid query (0, 1, 2; 9 = not derived from a valid query)
    pub deviations: u8,
    /// the deviant must be answered by an error response (it cannot be a valid query)
    pub must_fail: bool,
}

fn special_queries(def: &AppDef) -> Vec<(String, Value, bool)> {
    let n = base_net().n;
    let m = base_net().m();
    let mut v: Vec<(String, Value, bool)> = vec![];
    // top-level values that are not objects
    for (i, x) in [
        json!(null),
        json!(true),
        json!(7),
        json!(1.5),
        json!("x"),
        json!([]),
        json!([[]]),
        json!([{"origin_vertex": 0, "destination_vertex": 4}]),
        json!([1, 2]),
    ]
    .into_iter()
    .enumerate()
    {
        v.push((format!("non_object_query_{}", i), x, true));
    }
    v.push(("empty_object".into(), json!({}), true));
    if def.name.starts_with("plain_vertex") || def.name == "ksp_single_via" || def.name == "yens_k1"
    {
        v.push((
            "origin_one_past_end".into(),
            json!({"origin_vertex": n, "destination_vertex": 4}),
            true,
        ));
        v.push((
            "destination_one_past_end".into(),
            json!({"origin_vertex": 0, "destination_vertex": n}),
            true,
        ));
        v.push((
            "origin_equals_destination".into(),
            json!({"origin_vertex": 3, "destination_vertex": 3}),
            true,
        ));
        // identical ids at both ends of the id range and beyond it (the search answers origin = destination before it looks
        // either of them up)
        for (i, x) in [0usize, n - 1, n, n + 1, 1000].into_iter().enumerate() {
            v.push((
                format!(
                    "origin_equals_destination_at_{}",
                    [
                        "first",
                        "last",
                        "one_past_end",
                        "two_past_end",
                        "far_past_end"
                    ][i]
                ),
                json!({"origin_vertex": x, "destination_vertex": x}),
                true,
            ));
        }
        v.push((
            "destination_unreachable".into(),
            json!({"origin_vertex": 4, "destination_vertex": 0}),
            true,
        ));
        v.push((
            "zero_weights".into(),
            json!({"origin_vertex": 0, "destination_vertex": 4, "weights": {"distance": 0.0}}),
            true,
        ));
        v.push((
            "unknown_weight_name".into(),
            json!({"origin_vertex": 0, "destination_vertex": 4, "weights": {"bogus": 1.0}}),
            false,
        ));
        v.push((
            "one_edge_route".into(),
            json!({"origin_vertex": 3, "destination_vertex": 4, "k": 2}),
            false,
        ));
        // long multi-byte keys where the code looks names up (and quotes them when they are unknown)
        for (i, k) in long_strings().into_iter().enumerate() {
            v.push((
                format!("long_weight_name_{}", i),
                json!({"origin_vertex": 0, "destination_vertex": 4, "weights": {k.clone(): 1.0}}),
                false,
            ));
            v.push((format!("long_rate_name_{}", i), json!({"origin_vertex": 0, "destination_vertex": 4, "vehicle_rates": {k.clone(): {"type": "raw"}}}), false));
            v.push((format!("long_state_feature_name_{}", i), json!({"origin_vertex": 0, "destination_vertex": 4, "state_features": {k: {"distance_unit": "miles", "initial": 0.0}}}), false));
        }
    }
    if def.name == "limits_with_zero_frequency" {
        v.push((
            "search_longer_than_the_limit".into(),
            json!({"origin_vertex": 5, "destination_vertex": 4}),
            true,
        ));
    }
    if def.name.starts_with("plain_edge") {
        for (i, e) in [0usize, 1, m - 1, m, 1000].into_iter().enumerate() {
            // identical edges inside the network are a query that can be answered with nothing in it (see the known finding on
            // identical vertices); whatever comes back, the call returns and echoes the request
            v.push((
                format!(
                    "origin_edge_equals_destination_edge_at_{}",
                    ["first", "second", "last", "one_past_end", "far_past_end"][i]
                ),
                json!({"origin_edge": e, "destination_edge": e}),
                e >= m,
            ));
        }
        v.push((
            "origin_edge_one_past_end".into(),
            json!({"origin_edge": m, "destination_edge": 0}),
            true,
        ));
        v.push((
            "destination_edge_one_past_end".into(),
            json!({"origin_edge": 0, "destination_edge": m}),
            true,
        ));
        v.push((
            "adjacent_edges".into(),
            json!({"origin_edge": 0, "destination_edge": 1}),
            false,
        ));
    }
    if def.name == "vertex_rtree"
        || def.name == "edge_rtree"
        || def.name == "load_balancer_haversine"
    {
        for (i, (x, y)) in [
            (181.0, 0.0),
            (0.0, 91.0),
            (-181.0, -91.0),
            (1e30, 0.0),
            (0.0, 50.0),
            (0.0, 1e39),
            (1e39, 0.0),
            (-1e300, 1e300),
            (f64::MAX, f64::MIN_POSITIVE),
        ]
        .iter()
        .enumerate()
        {
            let mut q = def.bases[0].clone();
            q["origin_x"] = json!(x);
            q["origin_y"] = json!(y);
            // #4 is a valid coordinate far away from the network: whether it matches is C16's business
            v.push((format!("coordinates_out_of_range_{}", i), q, i != 4));
        }
    }
    if def.name == "grid_search" {
        for (i, g) in [
            json!({}),
            json!({"a": []}),
            json!({"a": [[]]}),
            json!({"a": [1], "b": []}),
            json!({"a": {"grid_search": {"b": [1]}}}),
            json!({"a": 5}),
            json!({"a": [1, 2], "b": "x"}),
        ]
        .into_iter()
        .enumerate()
        {
            v.push((
                format!("degenerate_grid_{}", i),
                json!({"origin_vertex": 0, "destination_vertex": 4, "grid_search": g}),
                false,
            ));
        }
    }
    if def.name == "energy_bev" {
        v.push((
            "unknown_vehicle".into(),
            json!({"origin_vertex": 0, "destination_vertex": 4, "model_name": "nope"}),
            true,
        ));
        v.push(("soc_out_of_range".into(), json!({"origin_vertex": 0, "destination_vertex": 4, "model_name": "bolt", "starting_soc_percent": 100.5}), true));
        v.push(("soc_negative".into(), json!({"origin_vertex": 0, "destination_vertex": 4, "model_name": "bolt", "starting_soc_percent": -1}), true));
    }
    v
}

/// fields without which (or with an ill-typed value of which) the query cannot be answered
fn required_field(def: &AppDef, field: &str) -> bool {
    match def.name {
        "plain_vertex"
        | "plain_vertex_wkt"
        | "plain_vertex_wkb"
        | "plain_vertex_geo_json"
        | "plain_vertex_json"
        | "plain_vertex_uuid_first"
        | "plain_vertex_uuid_tree_only"
        | "limits_with_zero_frequency"
        | "speed_vertex"
        | "grid_search"
        | "inject_overwrite"
        | "inject_no_overwrite"
        | "ksp_single_via"
        | "yens_k1"
        | "energy_bev" => field == "origin_vertex",
        "vertex_rtree" | "edge_rtree" | "load_balancer_haversine" => {
            field == "origin_x" || field == "origin_y"
        }
        "plain_edge" | "plain_edge_tree_only" => field == "origin_edge",
        _ => false,
    }
}

pub fn cases(tier: Tier) -> Vec<Case> {
    let mut out = vec![];
    for (ai, def) in apps().iter().enumerate() {
        let valid = tagq(&def.bases[0], "valid");
        // the empty batch and the valid queries themselves
        out.push(Case {
            app: ai,
            app_name: def.name,
            batch: vec![],
            deviant: None,
            what: "empty_batch".into(),
            deviations: 9,
            must_fail: false,
        });
        for b in def.bases.iter() {
            out.push(Case {
                app: ai,
                app_name: def.name,
                batch: vec![tagq(b, "valid")],
                deviant: None,
                what: "valid_query".into(),
                deviations: 0,
                must_fail: false,
            });
        }
        out.push(Case {
            app: ai,
            app_name: def.name,
            batch: def
                .bases
                .iter()
                .chain(def.bases.iter())
                .enumerate()
                .map(|(i, b)| tagq(b, &format!("valid{}", i)))
                .collect(),
            deviant: None,
            what: "valid_batch".into(),
            deviations: 0,
            must_fail: false,
        });
        let mut deviants: Vec<(String, Value, u8, bool)> = vec![];
        for (name, q, must_fail) in special_queries(def) {
            deviants.push((name, q, 9, must_fail));
        }
        // every single deviation
        let mut singles: Vec<(String, Value, &str)> = vec![];
        for (bi, b) in def.bases.iter().enumerate() {
            for f in def.fields.iter() {
                let mut q = b.clone();
                if set_path(&mut q, f, None) {
                    singles.push((format!("base{}:{}:removed", bi, f), q, f));
                }
                for (vi, v) in deviation_values().into_iter().enumerate() {
                    let mut q = b.clone();
                    if set_path(&mut q, f, Some(v)) {
                        singles.push((format!("base{}:{}:value{}", bi, f, vi), q, f));
                    }
                }
            }
        }
        for (name, q, f) in singles.iter() {
            // a required field that is removed, ill-typed or out of range cannot be answered;
            // for coordinates -1 and 1.5 are perfectly good values
            let numeric_ok = (f.ends_with("_x") || f.ends_with("_y"))
                && (name.ends_with("value2") || name.ends_with("value3"));
            let must_fail = required_field(def, f) && !numeric_ok;
            deviants.push((name.clone(), q.clone(), 1, must_fail));
        }
        // every pair of deviations (thorough): second deviation applied on top of the first, on a different field
        if tier == Tier::Thorough {
            for (name, q, f1) in singles.iter() {
                for f2 in def.fields.iter() {
                    if f2 <= f1 || f2.starts_with(f1) || f1.starts_with(f2) {
                        continue;
                    }
                    let mut q2 = q.clone();
                    if set_path(&mut q2, f2, None) {
                        deviants.push((format!("{}+{}:removed", name, f2), q2, 2, false));
                    }
                    for (vi, v) in deviation_values_basic().into_iter().enumerate() {
                        let mut q2 = q.clone();
                        if set_path(&mut q2, f2, Some(v)) {
                            deviants.push((format!("{}+{}:value{}", name, f2, vi), q2, 2, false));
                        }
                    }
                }
            }
        }
        for (name, q, devs, must_fail) in deviants {
            let q = tagq(&q, "deviant");
            // alone, then before and after a valid query (pairs only alone and after)
            out.push(Case {
                app: ai,
                app_name: def.name,
                batch: vec![q.clone()],
                deviant: Some(0),
                what: format!("{}@alone", name),
                deviations: devs,
                must_fail,
            });
            if devs != 2 {
                out.push(Case {
                    app: ai,
                    app_name: def.name,
                    batch: vec![q.clone(), valid.clone()],
                    deviant: Some(0),
                    what: format!("{}@before_valid", name),
                    deviations: devs,
                    must_fail,
                });
            }
            out.push(Case {
                app: ai,
                app_name: def.name,
                batch: vec![valid.clone(), q.clone()],
                deviant: Some(1),
                what: format!("{}@after_valid", name),
                deviations: devs,
                must_fail,
            });
        }
    }
    out
}

fn strip(v: &Value) -> Value {
    match v {
        Value::Object(m) => {
            let mut o = serde_json::Map::new();
            for (k, x) in m.iter() {
                if [
                    "search_executed_time",
                    "search_runtime",
                    "output_plugin_executed_time",
                    "search_result_size_mib",
                ]
                .contains(&k.as_str())
                {
                    continue;
                }
                o.insert(k.clone(), strip(x));
            }
            Value::Object(o)
        }
        Value::Array(a) => Value::Array(a.iter().map(strip).collect()),
        other => other.clone(),
    }
}

/// does `request` echo `query`? objects: every original field present with the same value (plugins add fields and
/// grid search removes its own section); other values: equal
pub fn echoes(request: &Value, query: &Value, written: &[&str]) -> bool {
    match (request, query) {
        (Value::Object(r), Value::Object(q)) => q.iter().all(|(k, v)| {
            k == "grid_search" || written.contains(&k.as_str()) || r.get(k) == Some(v)
        }),
        (r, q) => r == q,
    }
}

/// the fields the statement compares: request, success or error, route path / cost / final state
pub fn project(r: &Value) -> Value {
    let route = |x: &Value| json!({"path": x.get("path"), "cost": x.get("cost"), "traversal_summary": x.get("traversal_summary")});
    let routes = match r.get("route") {
        None => Value::Null,
        Some(Value::Array(a)) => Value::Array(a.iter().map(route).collect()),
        Some(Value::Null) => Value::Null,
        Some(x) => route(x),
    };
    json!({"request": r.get("request"), "error": r.get("error"), "route": routes, "route_edges": r.get("route_edges")})
}

/// site of the failure: names the situation of the deviant query
fn site(c: &Case) -> String {
    let w = c.what.split('@').next().unwrap_or("");
    let kind = if w.starts_with("non_object_query") {
        "non_object_query".to_string()
    } else if w == "origin_equals_destination_at_first" || w == "origin_equals_destination_at_last"
    {
        // identical ids inside the network: one situation wherever in the id range they lie
        "origin_equals_destination".to_string()
    } else if w.starts_with("degenerate_grid") || w.starts_with("coordinates_out_of_range") {
        w.to_string()
    } else if w.contains(':') {
        // base0:field:valueN[+field:valueM] -> field.valueclass
        let parts: Vec<&str> = w.split('+').collect();
        parts
            .iter()
            .map(|p| {
                let xs: Vec<&str> = p.split(':').collect();
                let f = xs.iter().rev().nth(1).unwrap_or(&"");
                let v = xs.last().unwrap_or(&"");
                format!("{}={}", f, v)
            })
            .collect::<Vec<_>>()
            .join("&")
    } else {
        w.to_string()
    };
    format!("{}.{}", c.app_name, kind)
}

pub fn check_case(app: &CompassApp, alone_valid: &Value, c: &Case, st: &mut Stats) {
    st.evaluations += 1;
    st.transitions += 1;
    st.traces += 1;
    st.states += 1;
    if c.deviant.is_some() {
        st.nontrivial += 1;
    }
    let comp = site(c);
    let size = (c.deviations as u64) * 100_000
        + serde_json::to_string(&c.batch)
            .map(|s| s.len())
            .unwrap_or(0) as u64;
    let case = || json!({"app": c.app_name, "what": c.what, "batch": c.batch});
    let r = guarded(|| app.run(c.batch.clone(), None).map_err(|e| e.to_string()));
    let responses = match r {
        Err(p) => {
            st.violation(&comp, "no_panic", size, || p.clone(), case);
            return;
        }
        Ok(Err(e)) => {
            st.violation(
                &comp,
                "call_returns_responses_not_an_error",
                size,
                || e.clone(),
                case,
            );
            return;
        }
        Ok(Ok(r)) => r,
    };
    st.outcome(&format!("{}_responses", responses.len().min(5)));
    if c.what == "valid_query" {
        // sanity of the harness itself: the base queries must be answerable
        if !responses.is_empty() && responses.iter().all(|r| r.get("error").is_none()) {
            st.pass("base_query_is_answered");
        } else {
            st.violation(
                "harness",
                "base_query_not_answered",
                0,
                || {
                    format!(
                        "{}: {:?}",
                        c.app_name,
                        responses.iter().map(strip).collect::<Vec<_>>()
                    )
                },
                case,
            );
        }
    }
    // count: one response per query (grid queries expand; their count is checked by C17)
    let has_grid = c.batch.iter().any(|q| q.get("grid_search").is_some());
    if !has_grid {
        if responses.len() == c.batch.len() {
            st.pass("one_response_per_query");
        } else {
            st.violation(
                &comp,
                "one_response_per_query",
                size,
                || format!("{} queries, {} responses", c.batch.len(), responses.len()),
                case,
            );
        }
    } else if responses.is_empty() && !c.batch.is_empty() {
        st.violation(
            &comp,
            "one_response_per_query",
            size,
            || format!("{} queries, no response at all", c.batch.len()),
            case,
        );
    }
    // pair responses with queries through the identifying field (objects) or by equality (other values)
    let written = written_keys(c.app_name);
    let mut taken = vec![false; responses.len()];
    let mut assigned: Vec<Vec<usize>> = vec![vec![]; c.batch.len()];
    for (qi, q) in c.batch.iter().enumerate() {
        let is_grid = q.get("grid_search").is_some();
        for (ri, r) in responses.iter().enumerate() {
            if taken[ri] {
                continue;
            }
            let req = r.get("request").cloned().unwrap_or(Value::Null);
            let same = match q.get("qid") {
                Some(id) => req.get("qid") == Some(id),
                None => req == *q,
            };
            if same {
                taken[ri] = true;
                assigned[qi].push(ri);
                if !is_grid {
                    break;
                }
            }
        }
    }
    for (qi, q) in c.batch.iter().enumerate() {
        let matching: Vec<&Value> = assigned[qi].iter().map(|ri| &responses[*ri]).collect();
        if matching.is_empty() {
            st.violation(
                &comp,
                "response_echoes_the_request",
                size,
                || {
                    format!(
                        "no response carries query #{} {}; requests seen: {:?}",
                        qi,
                        q,
                        responses
                            .iter()
                            .map(|r| r.get("request").cloned().unwrap_or(Value::Null).to_string())
                            .collect::<Vec<_>>()
                    )
                },
                case,
            );
            continue;
        }
        if matching
            .iter()
            .all(|r| echoes(r.get("request").unwrap_or(&Value::Null), q, &written))
        {
            st.pass("response_echoes_the_request");
        } else {
            st.violation(
                &comp,
                "response_echoes_the_request",
                size,
                || {
                    format!(
                        "query {} answered with request {}",
                        q,
                        matching[0].get("request").cloned().unwrap_or(Value::Null)
                    )
                },
                case,
            );
        }
        if Some(qi) == c.deviant && c.must_fail {
            if matching.iter().all(|r| r.get("error").is_some()) {
                st.pass("unanswerable_query_gets_error_response");
            } else {
                st.violation(
                    &comp,
                    "unanswerable_query_gets_error_response",
                    size,
                    || format!("response without error: {}", strip(matching[0])),
                    case,
                );
            }
        }
        if Some(qi) != c.deviant && c.deviant.is_some() {
            // the valid neighbour is served as if alone
            if matching.iter().any(|r| project(r) == *alone_valid) {
                st.pass("valid_neighbour_unchanged");
            } else {
                st.violation(
                    &comp,
                    "valid_neighbour_unchanged",
                    size,
                    || {
                        format!(
                            "valid query answered with {} but alone it gives {}",
                            project(matching[0]),
                            alone_valid
                        )
                    },
                    case,
                );
            }
        }
    }
    for r in responses.iter() {
        let ok = r.get("request").is_some()
            && (r.get("error").is_some()
                || r.get("route").is_some()
                || r.get("tree").is_some()
                || r.get("route_edges").is_some());
        if !ok {
            st.violation(
                &comp,
                "response_is_result_or_error",
                size,
                || format!("{}", strip(r)),
                case,
            );
        }
    }
}

pub fn worker(args: &[String]) -> i32 {
    let tier = if args.first().map(|s| s.as_str()) == Some("thorough") {
        Tier::Thorough
    } else {
        Tier::Quick
    };
    let all = cases(tier);
    let defs = apps();
    let scratch = Scratch::new("c12");
    let mut built: Vec<Option<(CompassApp, Value)>> = vec![];
    for (i, d) in defs.iter().enumerate() {
        match d.spec.build(&scratch.path.join(format!("app{}", i))) {
            Ok(app) => {
                let alone = guarded(|| app.run(vec![tagq(&d.bases[0], "valid")], None))
                    .ok()
                    .and_then(|r| r.ok())
                    .and_then(|v| v.first().map(project))
                    .unwrap_or(Value::Null);
                built.push(Some((app, alone)));
            }
            Err(e) => {
                eprintln!("cannot build app {}: {}", d.name, e);
                built.push(None);
            }
        }
    }
    worker_loop(|i, st| {
        let c = &all[i as usize];
        match &built[c.app] {
            Some((app, alone)) => {
                check_case(app, alone, c, st);
                if i % 997 == 3 {
                    st.sample(
                        4,
                        || json!({"app": c.app_name, "what": c.what, "batch": c.batch}),
                    );
                }
            }
            None => st.violation(
                "harness",
                "app_build",
                0,
                || format!("app {} could not be built", c.app_name),
                || json!({}),
            ),
        }
    })
}

pub fn run(tier: Tier) -> i32 {
    let info = RunInfo::new("C12", tier);
    let all = cases(tier);
    let cfg = SandboxCfg {
        worker_args: vec!["--worker".into(), "C12".into(), tier.as_str().into()],
        n_workers: tier.pick(8, 16),
        case_timeout: Duration::from_millis(1000),
        block: 32,
        budget: Duration::from_secs(tier.pick(50, 1500)),
    };
    let (mut st, fates) = match run_cases(&cfg, all.len() as u64) {
        Ok(x) => x,
        Err(e) => {
            println!("MACHINERY-ERROR sandbox: {}", e);
            return 2;
        }
    };
    let n_fates = fates.len();
    for (i, f) in fates {
        let c = &all[i as usize];
        let comp = site(c);
        let size = (c.deviations as u64) * 100_000
            + serde_json::to_string(&c.batch)
                .map(|s| s.len())
                .unwrap_or(0) as u64;
        st.evaluations += 1;
        st.transitions += 1;
        st.states += 1;
        match f {
            Fate::Hang { waited_ms } => st.violation(&comp, "returns_in_bounded_time", size, || format!("no answer after {} ms (second attempt, alone); a query on this 6-vertex network takes < 1 ms", waited_ms), || json!({"app": c.app_name, "what": c.what, "batch": c.batch})),
            Fate::Died { how } => st.violation(&comp, "does_not_abort", size, || how.clone(), || json!({"app": c.app_name, "what": c.what, "batch": c.batch})),
        }
    }
    zero_parallelism(&mut st);
    output_policy_values(&mut st);
    let by_dev = |d: u8| all.iter().filter(|c| c.deviations == d).count();
    finish(
        &info,
        st,
        "state = one batch offered to one of 13 application configurations: the empty batch, valid queries, every single deviation of a valid query (field removed or replaced by each of 9 deviant values, for every field the configuration reads), every pair of deviations (thorough), structural specials (non-object values, out-of-range ids and coordinates, degenerate grid sections, identical origin and destination, unknown names, zero weights), each alone and before/after a valid query; transition = one real CompassApp::run in a sandbox worker; non-trivial = batch contains a deviant query",
        true,
        json!({"configurations": apps().iter().map(|a| a.name).collect::<Vec<_>>(), "cases": all.len(), "zero_deviation_cases": by_dev(0), "single_deviation_cases": by_dev(1), "double_deviation_cases": by_dev(2), "special_cases": by_dev(9), "deviation_bound_completed": tier.pick(1, 2), "hung_or_died": n_fates}),
        vec![
            "\"every JSON value\" is approximated by all <= 2-deviation neighbours of valid queries over a 9-value alphabet plus structural specials; deeper nesting is not explored".into(),
            "a deviation that leaves the query answerable (an optional field removed) only has to produce exactly one well-formed response".into(),
            "worker address space is limited (RLIMIT_AS 6 GiB) so that unbounded allocation ends in an abort that the parent classifies".into(),
        ],
    )
}

/// an application configured with `parallelism = 0` (the loader accepts it) whose runs state their own parallelism: the
/// per-run value decides the worker bins, so every batch is served; without a per-run value the call may refuse to run, but
/// no batch may take the process down
fn zero_parallelism(st: &mut Stats) {
    let scratch = Scratch::new("c12z");
    for configured in [0usize, 2] {
        let mut spec = AppSpec::simple(base_net());
        spec.parallelism = configured;
        let app = match spec.build(&scratch.path.join(format!("app{}", configured))) {
            Ok(a) => a,
            Err(e) => {
                // a loader that refuses the value leaves nothing to run
                st.outcome(&format!(
                    "parallelism_zero_refused_by_loader: {}",
                    e.chars().take(60).collect::<String>()
                ));
                continue;
            }
        };
        let valid = json!({"origin_vertex": 0, "destination_vertex": 4});
        let bad = json!({"origin_vertex": "x", "destination_vertex": 4});
        let batches: Vec<(&str, Vec<Value>)> = vec![
            ("empty_batch", vec![]),
            ("valid_query", vec![valid.clone()]),
            ("failing_query", vec![bad.clone()]),
            ("not_an_object", vec![json!(5)]),
            (
                "mixed_batch",
                vec![bad.clone(), valid.clone(), json!([1]), valid.clone()],
            ),
        ];
        for (name, batch) in batches.iter() {
            for run_par in [None, Some(0u64), Some(1), Some(2), Some(3)] {
                // which parallelism is in force: the run's, else the configured one; zero workers may refuse to run
                let in_force = run_par.unwrap_or(configured as u64);
                st.evaluations += 1;
                st.transitions += 1;
                st.traces += 1;
                st.states += 1;
                st.nontrivial += 1;
                let cfg = run_par.map(|p| json!({"parallelism": p}));
                let comp = format!(
                    "application_parallelism_{}.{}",
                    if configured == 0 { "zero" } else { "two" },
                    match run_par {
                        Some(0) => "run_states_zero",
                        Some(_) => "run_states_parallelism",
                        None => "run_states_nothing",
                    }
                );
                let case = || json!({"app": "simple", "configured_parallelism": 0, "configured": configured, "run_configuration": cfg, "what": name, "batch": batch});
                match guarded(|| {
                    app.run(batch.clone(), cfg.as_ref())
                        .map_err(|e| e.to_string())
                }) {
                    Err(p) => {
                        st.violation(&comp, "no_panic", batch.len() as u64, || p.clone(), case)
                    }
                    Ok(Err(e)) => {
                        if in_force >= 1 {
                            st.violation(
                                &comp,
                                "call_returns_responses_not_an_error",
                                batch.len() as u64,
                                || e.clone(),
                                case,
                            );
                        } else {
                            st.outcome("parallelism_zero_run_refused");
                        }
                    }
                    Ok(Ok(r)) => {
                        if r.len() == batch.len() {
                            st.pass("one_response_per_query");
                        } else {
                            st.violation(
                                &comp,
                                "one_response_per_query",
                                batch.len() as u64,
                                || format!("{} queries, {} responses", batch.len(), r.len()),
                                case,
                            );
                        }
                    }
                }
            }
        }
    }
}

/// run configurations whose file output policy carries an odd flush rate (0, negative, huge, not a number): the run may refuse
/// the configuration, but no batch may take the process down
fn output_policy_values(st: &mut Stats) {
    let scratch = Scratch::new("c12o");
    let spec = AppSpec::simple(base_net());
    let app = match spec.build(&scratch.path.join("app")) {
        Ok(a) => a,
        Err(e) => {
            st.violation(
                "harness",
                "app_build",
                0,
                || e.clone(),
                || json!({"output_policy_values": true}),
            );
            return;
        }
    };
    let valid = json!({"origin_vertex": 0, "destination_vertex": 4});
    let bad = json!({"origin_vertex": "x", "destination_vertex": 4});
    let batches: Vec<(&str, Vec<Value>)> = vec![
        ("valid_query", vec![valid.clone()]),
        ("failing_query", vec![bad.clone()]),
        ("mixed_batch", vec![bad, valid.clone(), valid]),
        ("empty_batch", vec![]),
    ];
    let rates: Vec<Value> = vec![
        json!(0),
        json!(-1),
        json!(1),
        json!(3),
        json!(i64::MAX),
        json!(0.5),
        json!("2"),
        Value::Null,
    ];
    let formats = [
        json!({"type": "json", "newline_delimited": true}),
        json!({"type": "csv", "sorted": false, "mapping": {"o": "request.origin_vertex"}}),
    ];
    for (ri, rate) in rates.iter().enumerate() {
        for (fi, format) in formats.iter().enumerate() {
            for (name, batch) in batches.iter() {
                st.evaluations += 1;
                st.transitions += 1;
                st.traces += 1;
                st.states += 1;
                st.nontrivial += 1;
                let path = scratch.path.join(format!("out_{}_{}_{}.txt", ri, fi, name));
                let mut pol = json!({"type": "file", "filename": path.to_str().unwrap_or(""), "format": format});
                if !rate.is_null() {
                    pol["file_flush_rate"] = rate.clone();
                }
                let cfg = json!({"parallelism": 2, "response_output_policy": pol});
                let comp = "output_policy.file_flush_rate".to_string();
                let case = || json!({"app": "simple", "output_policy_values": true, "run_configuration": cfg, "what": name, "batch": batch});
                match guarded(|| {
                    app.run(batch.clone(), Some(&cfg))
                        .map_err(|e| e.to_string())
                }) {
                    Err(p) => {
                        st.violation(&comp, "no_panic", batch.len() as u64, || p.clone(), case)
                    }
                    Ok(Err(_)) => st.outcome("output_policy_refused"),
                    Ok(Ok(r)) => {
                        if r.len() == batch.len() {
                            st.pass("one_response_per_query");
                        } else {
                            st.violation(
                                &comp,
                                "one_response_per_query",
                                batch.len() as u64,
                                || format!("{} queries, {} responses", batch.len(), r.len()),
                                case,
                            );
                        }
                    }
                }
            }
        }
    }
}

pub fn replay(case: &Value) -> i32 {
    let case = if case.get("case").is_some() && case.get("app").is_none() {
        &case["case"]
    } else {
        case
    };
    if case.get("output_policy_values").is_some() {
        let mut st = Stats::new();
        output_policy_values(&mut st);
        for (k, g) in st.violations.iter() {
            println!("REPLAY-VIOLATION {} ({} cases) {}", k, g.count, g.detail);
        }
        return if st.violations.is_empty() { 0 } else { 1 };
    }
    if case.get("configured_parallelism").and_then(|v| v.as_u64()) == Some(0) {
        // the whole section is run again (twenty calls)
        let mut st = Stats::new();
        zero_parallelism(&mut st);
        for (k, g) in st.violations.iter() {
            println!("REPLAY-VIOLATION {} ({} cases) {}", k, g.count, g.detail);
        }
        return if st.violations.is_empty() { 0 } else { 1 };
    }
    let name = case["app"].as_str().unwrap_or("");
    let defs = apps();
    let def = match defs.iter().find(|d| d.name == name) {
        Some(d) => d,
        None => {
            println!("MACHINERY-ERROR unknown app {}", name);
            return 2;
        }
    };
    let batch: Vec<Value> = serde_json::from_value(case["batch"].clone()).unwrap_or_default();
    let scratch = Scratch::new("c12replay");
    let app = match def.spec.build(&scratch.path) {
        Ok(a) => a,
        Err(e) => {
            println!("MACHINERY-ERROR cannot build app: {}", e);
            return 2;
        }
    };
    println!("replaying batch {} on configuration {} (a hang shows as this command not returning; abort as a crash)", serde_json::to_string(&batch).unwrap_or_default(), name);
    match guarded(|| app.run(batch.clone(), None).map_err(|e| e.to_string())) {
        Err(p) => {
            println!("REPLAY-VIOLATION no_panic: {}", p);
            1
        }
        Ok(Err(e)) => {
            println!("REPLAY-VIOLATION call returned Err: {}", e);
            1
        }
        Ok(Ok(r)) => {
            for x in r.iter() {
                println!("response: {}", strip(x));
            }
            0
        }
    }
}
