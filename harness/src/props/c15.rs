//! C15 — the loaded network is exactly the one described by the edge/vertex files
use crate::engine::{finish, guarded, RunInfo, Stats, Tier};
use crate::world::app::Scratch;
use crate::world::net::{coord, for_each_in_shard, shards, GenSpec, LenMode, Net};
use routee_compass::app::bindings::CompassAppBindings;
use routee_compass::app::compass::compass_app::CompassApp;
use routee_compass::app::compass::compass_app_error::CompassAppError;
use routee_compass::app::compass::config::graph_builder::DefaultGraphBuilder;
use routee_compass_core::algorithm::search::direction::Direction;
use routee_compass_core::model::access::default::turn_delays::edge_heading::EdgeHeading;
use routee_compass_core::model::network::{EdgeId, Graph, VertexId};
use routee_compass_core::model::traversal::default::speed_traversal_engine::SpeedTraversalEngine;
use routee_compass_core::model::unit::as_f64::AsF64;
use routee_compass_core::model::unit::{Grade, SpeedUnit};
use routee_compass_core::util::fs::{read_decoders, read_utils};
use serde_json::{json, Value};
use std::io::Write;
use std::path::Path;

fn write(path: &Path, content: &str, gzip: bool) {
    if gzip {
        let f = std::fs::File::create(path).expect("create");
        let mut enc = flate2::write::GzEncoder::new(f, flate2::Compression::default());
        enc.write_all(content.as_bytes()).expect("write");
        enc.finish().expect("finish");
    } else {
        std::fs::write(path, content).expect("write");
    }
}

const ORDERS: [[&str; 3]; 6] = [
    ["vertex_id", "x", "y"],
    ["vertex_id", "y", "x"],
    ["x", "vertex_id", "y"],
    ["x", "y", "vertex_id"],
    ["y", "vertex_id", "x"],
    ["y", "x", "vertex_id"],
];

/// vertex coordinates: lattice plus a non-trivial fractional part per vertex
fn vcoord(i: usize) -> (f32, f32) {
    let (x, y) = coord(i % 9);
    (
        x + 0.000123 * (i as f32 + 1.0) - 105.0,
        y - 0.000077 * (i as f32) + 39.5,
    )
}

#[derive(Clone, Debug)]
struct Variant {
    gzip: bool,
    /// whether the vertex file is compressed (the edge file follows `gzip`): the two files are read independently, so one
    /// may be compressed and the other not
    gzip_vertices: bool,
    order: usize,
    /// 0 = none; 1 = a name column in second place; 2 = a free-text column in FIRST place whose values start with '#', '-', a
    /// space or a quote (a record is whatever the rows say, wherever its text begins), and in the edge file likewise
    extra_column: u8,
    /// which of the two optional counts are given: (edges, vertices)
    counts_given: (bool, bool),
    edge_extra_column: bool,
    /// whether the last row of each file ends with a newline
    /// how each file ends: 0 = the last row has no newline, 1 = one newline, 2 = a blank line after the last row
    trailing_newline: u8,
}

/// free text of row i: ordinary CSV fields that begin with a character some readers treat specially
fn free_text(i: usize) -> String {
    match i % 5 {
        0 => format!("plain {}", i),
        1 => format!("#{} fire station", i),
        2 => format!("\"depot {}, east gate\"", i),
        3 => format!("-{}", i),
        _ => format!(" {}", i),
    }
}

fn write_graph(dir: &Path, net: &Net, v: &Variant) -> (String, String) {
    let ext = if v.gzip { ".csv.gz" } else { ".csv" };
    let cols = ORDERS[v.order];
    let mut header: Vec<String> = cols.iter().map(|s| s.to_string()).collect();
    if v.extra_column == 1 {
        header.insert(1, "name".to_string());
    } else if v.extra_column == 2 {
        header.insert(0, "note".to_string());
    }
    let mut vs = header.join(",") + "\n";
    for i in 0..net.n {
        let (x, y) = vcoord(i);
        let mut row: Vec<String> = cols
            .iter()
            .map(|c| match *c {
                "vertex_id" => i.to_string(),
                "x" => format!("{}", x),
                _ => format!("{}", y),
            })
            .collect();
        if v.extra_column == 1 {
            row.insert(1, format!("v{}", i));
        } else if v.extra_column == 2 {
            row.insert(0, free_text(i));
        }
        vs.push_str(&(row.join(",") + "\n"));
    }
    let vp = dir.join(format!(
        "vertices{}",
        if v.gzip_vertices { ".csv.gz" } else { ".csv" }
    ));
    if v.trailing_newline == 0 {
        vs.pop();
    } else if v.trailing_newline == 2 {
        vs.push('\n');
    }
    write(&vp, &vs, v.gzip_vertices);
    // (column order 2 of the vertex file goes with an edge file whose columns are listed in another order under their names)
    let edge_columns_permuted = v.extra_column != 2 && !v.edge_extra_column && v.order % 3 == 2;
    let mut es = String::from(if v.extra_column == 2 {
        "road_name,edge_id,src_vertex_id,dst_vertex_id,distance\n"
    } else if v.edge_extra_column {
        "edge_id,src_vertex_id,dst_vertex_id,distance,road_name\n"
    } else if edge_columns_permuted {
        "distance,dst_vertex_id,edge_id,src_vertex_id\n"
    } else {
        "edge_id,src_vertex_id,dst_vertex_id,distance\n"
    });
    for (i, (s, d, l)) in net.edges.iter().enumerate() {
        if edge_columns_permuted {
            es.push_str(&format!("{},{},{},{}\n", l, d, i, s));
            continue;
        }
        if v.extra_column == 2 {
            es.push_str(&format!("{},{},{},{},{}\n", free_text(i + 1), i, s, d, l));
        } else if v.edge_extra_column {
            es.push_str(&format!("{},{},{},{},r{}\n", i, s, d, l, i));
        } else {
            es.push_str(&format!("{},{},{},{}\n", i, s, d, l));
        }
    }
    let ep = dir.join(format!("edges{}", ext));
    if v.trailing_newline == 0 {
        es.pop();
    } else if v.trailing_newline == 2 {
        es.push('\n');
    }
    write(&ep, &es, v.gzip);
    (
        ep.to_str().unwrap().to_string(),
        vp.to_str().unwrap().to_string(),
    )
}

fn check_graph(g: &Graph, net: &Net, comp: &str, st: &mut Stats, case: &dyn Fn() -> Value) {
    let size = net.size();
    let mut bad: Vec<(&'static str, String)> = vec![];
    if g.n_edges() != net.m() {
        bad.push(("n_edges", format!("{} want {}", g.n_edges(), net.m())));
    }
    if g.n_vertices() != net.n {
        bad.push(("n_vertices", format!("{} want {}", g.n_vertices(), net.n)));
    }
    for (i, (s, d, l)) in net.edges.iter().enumerate() {
        match g.get_edge(&EdgeId(i)) {
            Ok(e) => {
                if e.edge_id.0 != i
                    || e.src_vertex_id.0 != *s
                    || e.dst_vertex_id.0 != *d
                    || e.distance.as_f64() != *l
                {
                    bad.push((
                        "edge_retrievable_by_id",
                        format!(
                            "edge {}: got ({}, {}->{}, {}) want ({}->{}, {})",
                            i,
                            e.edge_id.0,
                            e.src_vertex_id.0,
                            e.dst_vertex_id.0,
                            e.distance.as_f64(),
                            s,
                            d,
                            l
                        ),
                    ));
                }
            }
            Err(e) => bad.push(("edge_retrievable_by_id", format!("edge {}: {}", i, e))),
        }
        if g.src_vertex_id(&EdgeId(i)).map(|v| v.0).ok() != Some(*s)
            || g.dst_vertex_id(&EdgeId(i)).map(|v| v.0).ok() != Some(*d)
        {
            bad.push(("edge_end_points", format!("edge {}", i)));
        }
        match g.edge_triplet(&EdgeId(i)) {
            Ok((a, e, b)) => {
                if a.vertex_id.0 != *s || b.vertex_id.0 != *d || e.edge_id.0 != i {
                    bad.push((
                        "edge_triplet",
                        format!(
                            "edge {}: ({}, {}, {})",
                            i, a.vertex_id.0, e.edge_id.0, b.vertex_id.0
                        ),
                    ));
                }
            }
            Err(e) => bad.push(("edge_triplet", format!("edge {}: {}", i, e))),
        }
    }
    if g.get_edge(&EdgeId(net.m())).is_ok() {
        bad.push(("no_unlisted_edge", format!("edge {} exists", net.m())));
    }
    for v in 0..net.n {
        match g.get_vertex(&VertexId(v)) {
            Ok(x) => {
                let (wx, wy) = vcoord(v);
                // the file holds the shortest decimal rendering of the f32, so parsing gives the same f32
                if x.vertex_id.0 != v || x.x() != wx || x.y() != wy {
                    bad.push((
                        "vertex_has_listed_coordinates",
                        format!(
                            "vertex {}: ({}, {}, {}) want ({}, {})",
                            v,
                            x.vertex_id.0,
                            x.x(),
                            x.y(),
                            wx,
                            wy
                        ),
                    ));
                }
            }
            Err(e) => bad.push((
                "vertex_has_listed_coordinates",
                format!("vertex {}: {}", v, e),
            )),
        }
        let mut out: Vec<usize> = g.out_edges(&VertexId(v)).iter().map(|e| e.0).collect();
        let out_len = out.len();
        out.sort();
        out.dedup();
        if out != net.out_edges(v) || out_len != out.len() {
            bad.push((
                "out_edges_are_the_listed_ones",
                format!(
                    "vertex {}: {:?} want {:?}",
                    v,
                    g.out_edges(&VertexId(v)),
                    net.out_edges(v)
                ),
            ));
        }
        let mut inn: Vec<usize> = g.in_edges(&VertexId(v)).iter().map(|e| e.0).collect();
        let in_len = inn.len();
        inn.sort();
        inn.dedup();
        if inn != net.in_edges(v) || in_len != inn.len() {
            bad.push((
                "in_edges_are_the_listed_ones",
                format!(
                    "vertex {}: {:?} want {:?}",
                    v,
                    g.in_edges(&VertexId(v)),
                    net.in_edges(v)
                ),
            ));
        }
        for (dir, want) in [
            (Direction::Forward, net.out_edges(v)),
            (Direction::Reverse, net.in_edges(v)),
        ] {
            let mut ie: Vec<usize> = g
                .incident_edges(&VertexId(v), &dir)
                .iter()
                .map(|e| e.0)
                .collect();
            ie.sort();
            if ie != want {
                bad.push(("incident_edges", format!("vertex {}", v)));
            }
            match g.incident_triplet_ids(&VertexId(v), &dir) {
                Ok(ts) => {
                    let mut got: Vec<(usize, usize, usize)> =
                        ts.iter().map(|(a, e, b)| (a.0, e.0, b.0)).collect();
                    got.sort();
                    let mut w: Vec<(usize, usize, usize)> = want
                        .iter()
                        .map(|e| {
                            (
                                v,
                                *e,
                                if matches!(dir, Direction::Forward) {
                                    net.edges[*e].1
                                } else {
                                    net.edges[*e].0
                                },
                            )
                        })
                        .collect();
                    w.sort();
                    if got != w {
                        bad.push((
                            "incident_triplet_ids",
                            format!("vertex {}: {:?} want {:?}", v, got, w),
                        ));
                    }
                }
                Err(e) => bad.push(("incident_triplet_ids", format!("vertex {}: {}", v, e))),
            }
            match g.incident_triplet_attributes(&VertexId(v), &dir) {
                Ok(ts) => {
                    if ts.len() != want.len() {
                        bad.push((
                            "incident_triplet_attributes",
                            format!("vertex {}: {} triplets want {}", v, ts.len(), want.len()),
                        ));
                    }
                }
                Err(e) => bad.push((
                    "incident_triplet_attributes",
                    format!("vertex {}: {}", v, e),
                )),
            }
        }
    }
    // forward and reverse views describe the same edge set
    let mut fwd: Vec<usize> = (0..net.n)
        .flat_map(|v| g.out_edges(&VertexId(v)))
        .map(|e| e.0)
        .collect();
    let mut rev: Vec<usize> = (0..net.n)
        .flat_map(|v| g.in_edges(&VertexId(v)))
        .map(|e| e.0)
        .collect();
    fwd.sort();
    rev.sort();
    if fwd != rev || fwd != (0..net.m()).collect::<Vec<_>>() {
        bad.push((
            "forward_and_reverse_views_agree",
            format!("forward {:?} reverse {:?}", fwd, rev),
        ));
    }
    if bad.is_empty() {
        st.pass("graph_equals_files");
    }
    let mut seen = std::collections::HashSet::new();
    for (c, d) in bad {
        if seen.insert(c) {
            st.violation(comp, c, size, || d.clone(), case);
        }
    }
}

struct Bindings {
    app: CompassApp,
}
impl CompassAppBindings for Bindings {
    fn from_config_toml_string(_: String, _: String) -> Result<Self, CompassAppError> {
        Err(CompassAppError::InternalError("not used".into()))
    }
    fn app(&self) -> &CompassApp {
        &self.app
    }
}

fn structured_nets() -> Vec<(String, Net)> {
    let mut out = vec![];
    for deg in 0..=8usize {
        // out-star and in-star of degree `deg` with isolated vertices before and after
        let n = deg + 3;
        out.push((
            format!("out_star{}", deg),
            Net {
                n,
                edges: (0..deg).map(|k| (1, 2 + k, 10.0 + k as f64)).collect(),
                xy: None,
            },
        ));
        out.push((
            format!("in_star{}", deg),
            Net {
                n,
                edges: (0..deg).map(|k| (2 + k, 1, 10.0 + k as f64)).collect(),
                xy: None,
            },
        ));
        // hub with parallel edges and self loops: degree deg in both directions at vertex 0
        let mut e = vec![];
        for k in 0..deg {
            e.push((0, k % 3, 1.5 + k as f64));
            e.push((k % 3, 0, 2.5 + k as f64));
        }
        out.push((
            format!("hub{}", deg),
            Net {
                n: 3,
                edges: e,
                xy: None,
            },
        ));
    }
    out
}

pub fn run(tier: Tier) -> i32 {
    let info = RunInfo::new("C15", tier);
    let scratch = Scratch::new("c15");
    let mut st = Stats::new();
    let mut nets: Vec<(String, Net)> = structured_nets();
    let spec = GenSpec {
        n: 3,
        max_edges: tier.pick(3, 5),
        max_mult: 2,
        n_len: 2,
        self_loops: true,
        mode: LenMode::Alphabet,
    };
    let mut k = 0u64;
    for (p, t) in shards(&spec, 2) {
        for_each_in_shard(&spec, &p, t, &mut |n| {
            k += 1;
            // quick: a third of the enumerated edge lists (every list is still covered by some variant rotation in thorough)
            if tier == Tier::Thorough || k % 3 == 0 {
                nets.push((format!("G{}", k), n.clone()));
            }
        });
    }
    let mut variants = vec![];
    for (gzip, gzip_vertices) in [(false, false), (true, true), (false, true), (true, false)] {
        let mixed = gzip != gzip_vertices;
        for order in 0..6 {
            // files of different compression: two of the six column orders, with and without the free-text column
            if mixed && order % 3 != 0 {
                continue;
            }
            for extra_column in [0u8, 1, 2] {
                if mixed && extra_column == 1 {
                    continue;
                }
                for counts_given in [(true, true), (false, false), (true, false), (false, true)] {
                    for trailing_newline in [1u8, 0, 2] {
                        variants.push(Variant {
                            gzip,
                            gzip_vertices,
                            order,
                            extra_column,
                            counts_given,
                            edge_extra_column: order % 2 == 1,
                            trailing_newline,
                        });
                    }
                }
            }
        }
    }
    for (ni, (name, net)) in nets.iter().enumerate() {
        st.states += 1;
        if net.m() >= 2 {
            st.nontrivial += 1;
        }
        // structured nets: every variant; enumerated nets: a rotating pair of variants (plain and gzip)
        let vs: Vec<&Variant> = if name.starts_with('G') {
            vec![
                &variants[ni % variants.len()],
                &variants[(ni * 7 + 145) % variants.len()],
                &variants[(ni * 13 + 227) % variants.len()],
            ]
        } else {
            variants.iter().collect()
        };
        for v in vs {
            st.evaluations += 1;
            st.transitions += 1;
            st.traces += 1;
            let dir = scratch.path.join(format!("g{}", ni));
            let _ = std::fs::create_dir_all(&dir);
            let (ep, vp) = write_graph(&dir, net, v);
            let vc = v.clone();
            let case =
                move || json!({"net_name": name, "net": net, "variant": format!("{:?}", vc)});
            let comp = format!(
                "graph_from_files.{}.{}",
                match (v.gzip, v.gzip_vertices) {
                    (true, true) => "gzip",
                    (false, false) => "plain",
                    (true, false) => "edges_gzip_vertices_plain",
                    (false, true) => "edges_plain_vertices_gzip",
                },
                match v.counts_given {
                    (true, true) => "counts_given",
                    (false, false) => "counts_scanned",
                    (true, false) => "edge_count_given_vertex_count_scanned",
                    (false, true) => "edge_count_scanned_vertex_count_given",
                }
            );
            let r = guarded(|| {
                Graph::from_files(
                    &ep,
                    &vp,
                    if v.counts_given.0 {
                        Some(net.m())
                    } else {
                        None
                    },
                    if v.counts_given.1 { Some(net.n) } else { None },
                    Some(false),
                )
            });
            match r {
                Err(p) => st.violation(&comp, "no_panic", net.size(), || p.clone(), &case),
                Ok(Err(e)) => st.violation(&comp, "loads", net.size(), || e.to_string(), &case),
                Ok(Ok(g)) => check_graph(&g, net, &comp, &mut st, &case),
            }
            // the configuration-level builder
            let mut params =
                json!({"edge_list_input_file": ep, "vertex_list_input_file": vp, "verbose": false});
            if v.counts_given.0 {
                params["n_edges"] = json!(net.m());
            }
            if v.counts_given.1 {
                params["n_vertices"] = json!(net.n);
            }
            match guarded(|| DefaultGraphBuilder::build(&params)) {
                Err(p) => {
                    st.violation("graph_builder", "no_panic", net.size(), || p.clone(), &case)
                }
                Ok(Err(e)) => st.violation(
                    "graph_builder",
                    "loads",
                    net.size(),
                    || e.to_string(),
                    &case,
                ),
                Ok(Ok(g)) => check_graph(&g, net, "graph_builder", &mut st, &case),
            }
            let _ = std::fs::remove_dir_all(&dir);
        }
        if ni == 5 || ni == 40 {
            st.sample(3, || json!({"net_name": name, "net": net, "variants": "gzip x 6 vertex column orders x extra column x 4 count modes"}));
        }
    }
    // per-edge tables are aligned with edge ids by row
    for m in [1usize, 2, 5, 9, 40] {
        for gzip in [false, true] {
            st.evaluations += 1;
            st.transitions += 4;
            st.traces += 1;
            st.states += 1;
            let dir = scratch.path.join(format!("t{}{}", m, gzip));
            let _ = std::fs::create_dir_all(&dir);
            let ext = if gzip { ".txt.gz" } else { ".txt" };
            let f = |i: usize| 10.0 + (i as f64) * 1.25;
            let case = move || json!({"tables_with_rows": m, "gzip": gzip});
            let sp = dir.join(format!("speeds{}", ext));
            write(
                &sp,
                &(0..m).map(|i| format!("{}\n", f(i))).collect::<String>(),
                gzip,
            );
            match guarded(|| {
                SpeedTraversalEngine::new(&sp, SpeedUnit::KilometersPerHour, None, None)
            }) {
                Ok(Ok(e)) => {
                    let ok = e.speed_table.len() == m
                        && (0..m).all(|i| e.speed_table[i].as_f64() == f(i))
                        && e.max_speed.as_f64() == f(m - 1);
                    if ok {
                        st.pass("speed_table_aligned_by_row");
                    } else {
                        st.violation(
                            "tables.speed",
                            "table_aligned_with_edge_ids",
                            m as u64,
                            || {
                                format!(
                                    "{:?}",
                                    e.speed_table.iter().map(|s| s.as_f64()).collect::<Vec<_>>()
                                )
                            },
                            &case,
                        );
                    }
                }
                Ok(Err(e)) => {
                    st.violation("tables.speed", "loads", m as u64, || e.to_string(), &case)
                }
                Err(p) => st.violation("tables.speed", "no_panic", m as u64, || p.clone(), &case),
            }
            let gp = dir.join(format!("grades{}", ext));
            write(
                &gp,
                &(0..m)
                    .map(|i| format!("{}\n", f(i) / 100.0 - 0.2))
                    .collect::<String>(),
                gzip,
            );
            match guarded(|| {
                read_utils::read_raw_file::<_, Grade>(&gp, read_decoders::default, None)
            }) {
                Ok(Ok(t)) => {
                    if t.len() == m && (0..m).all(|i| t[i].as_f64() == f(i) / 100.0 - 0.2) {
                        st.pass("grade_table_aligned_by_row");
                    } else {
                        st.violation(
                            "tables.grade",
                            "table_aligned_with_edge_ids",
                            m as u64,
                            || format!("{} rows", t.len()),
                            &case,
                        );
                    }
                }
                Ok(Err(e)) => {
                    st.violation("tables.grade", "loads", m as u64, || e.to_string(), &case)
                }
                Err(p) => st.violation("tables.grade", "no_panic", m as u64, || p.clone(), &case),
            }
            let cp = dir.join(format!("classes{}", ext));
            write(
                &cp,
                &(0..m)
                    .map(|i| format!("{}\n", (i * 3) % 7))
                    .collect::<String>(),
                gzip,
            );
            match guarded(|| read_utils::read_raw_file(&cp, read_decoders::u8, None)) {
                Ok(Ok(t)) => {
                    if t.len() == m && (0..m).all(|i| t[i] as usize == (i * 3) % 7) {
                        st.pass("class_table_aligned_by_row");
                    } else {
                        st.violation(
                            "tables.road_class",
                            "table_aligned_with_edge_ids",
                            m as u64,
                            || format!("{:?}", t),
                            &case,
                        );
                    }
                }
                Ok(Err(e)) => st.violation(
                    "tables.road_class",
                    "loads",
                    m as u64,
                    || e.to_string(),
                    &case,
                ),
                Err(p) => st.violation(
                    "tables.road_class",
                    "no_panic",
                    m as u64,
                    || p.clone(),
                    &case,
                ),
            }
            let hp = dir.join(if gzip {
                "headings.csv.gz"
            } else {
                "headings.csv"
            });
            // (tables with an odd number of rows list the two columns in the other order under their names)
            if m % 2 == 1 {
                write(
                    &hp,
                    &(String::from("departure_heading,arrival_heading\n")
                        + &(0..m)
                            .map(|i| format!("{},{}\n", (i * 91 + 5) % 360, (i * 37) % 360))
                            .collect::<String>()),
                    gzip,
                );
            } else {
                write(
                    &hp,
                    &(String::from("arrival_heading,departure_heading\n")
                        + &(0..m)
                            .map(|i| format!("{},{}\n", (i * 37) % 360, (i * 91 + 5) % 360))
                            .collect::<String>()),
                    gzip,
                );
            }
            match guarded(|| read_utils::from_csv::<EdgeHeading>(&hp.as_path(), true, None)) {
                Ok(Ok(t)) => {
                    if t.len() == m
                        && (0..m).all(|i| {
                            t[i].start_heading() as usize == (i * 37) % 360
                                && t[i].end_heading() as usize == (i * 91 + 5) % 360
                        })
                    {
                        st.pass("heading_table_aligned_by_row");
                    } else {
                        st.violation(
                            "tables.heading",
                            "table_aligned_with_edge_ids",
                            m as u64,
                            || format!("{} rows", t.len()),
                            &case,
                        );
                    }
                }
                Ok(Err(e)) => {
                    st.violation("tables.heading", "loads", m as u64, || e.to_string(), &case)
                }
                Err(p) => st.violation("tables.heading", "no_panic", m as u64, || p.clone(), &case),
            }
        }
    }
    // the bindings accessors on a whole application
    for (name, net) in structured_nets()
        .into_iter()
        .filter(|(n, _)| n == "hub8" || n == "out_star6" || n == "in_star5")
    {
        st.evaluations += 1;
        st.transitions += 1;
        st.states += 1;
        let spec = crate::world::app::AppSpec::simple(net.clone());
        let dir = scratch.path.join(format!("b{}", name));
        let nc = net.clone();
        let case = move || json!({"bindings": true, "net": nc});
        match spec.build(&dir) {
            Err(e) => st.violation("harness", "app_build", 0, || e.clone(), &case),
            Ok(app) => {
                let b = Bindings { app };
                let verdict = guarded(|| {
                    let mut ok = true;
                    for (i, (s, d, l)) in net.edges.iter().enumerate() {
                        if b.graph_edge_origin(i).ok() != Some(*s)
                            || b.graph_edge_destination(i).ok() != Some(*d)
                        {
                            ok = false;
                        }
                        match b.graph_edge_distance(i, Some("meters".to_string())) {
                            Ok(x) if x == *l => {}
                            _ => ok = false,
                        }
                        // the listed length in every unit the accessor can be asked for (by name), and without a unit (metres)
                        match b.graph_edge_distance(i, None) {
                            Ok(x) if x == *l => {}
                            _ => ok = false,
                        }
                        for u in crate::refmodel::units::DISTANCE_UNITS.iter() {
                            let want = *l / crate::refmodel::units::distance_m(u);
                            match b.graph_edge_distance(i, Some(u.to_string())) {
                                Ok(x) if crate::engine::close(x, want, 1e-3) => {}
                                other => {
                                    ok = false;
                                    let _ = other;
                                }
                            }
                        }
                    }
                    for v in 0..net.n {
                        let mut o = b.graph_get_out_edge_ids(v);
                        o.sort();
                        let mut i = b.graph_get_in_edge_ids(v);
                        i.sort();
                        if o != net.out_edges(v) || i != net.in_edges(v) {
                            ok = false;
                        }
                    }
                    ok
                });
                match verdict {
                    Ok(true) => st.pass("bindings_accessors_agree_with_files"),
                    Ok(false) => st.violation(
                        "bindings",
                        "accessors_agree_with_files",
                        net.size(),
                        || name.clone(),
                        &case,
                    ),
                    Err(p) => st.violation("bindings", "no_panic", net.size(), || p.clone(), &case),
                }
            }
        }
    }
    finish(
        &info,
        st,
        "state = one edge/vertex list (all G(3,m,2) multigraphs with self loops, stars and hubs with in/out degree 0..8, isolated vertices); transition = one load of files written in one variant (plain/gzip chosen for the edge file and for the vertex file separately x 6 vertex column orders x extra columns (none / a name in second place / free text in first place beginning with '#', '-', a space or a quote, in both files) x each of the two counts given or scanned (4 modes) x file ending (no final newline / one / a blank line after the last row)) through Graph::from_files and DefaultGraphBuilder, compared accessor by accessor with the lists; per-edge tables of 1..40 rows; bindings accessors; non-trivial = at least two edges",
        true,
        json!({"enumerated_family": spec.describe(), "max_degree": 8, "variants": 528}),
        vec!["vertex coordinates are written as the shortest decimal rendering of an f32, so the comparison is exact".into()],
    )
}

pub fn replay(case: &Value) -> i32 {
    println!(
        "C15 replay of {}: files are regenerated by the check itself; re-running the quick tier",
        case.get("net_name").cloned().unwrap_or(Value::Null)
    );
    run(Tier::Quick)
}
