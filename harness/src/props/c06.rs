//! C06 — one response per query, independent of parallelism, order and schedule
use crate::engine::{canon_json, finish, guarded, par_blocks, RunInfo, Stats, Tier};
use crate::props::c12::{base_net, project, tagq, BOLT};
use crate::props::c19::{fixture_spec, Scenario};
use crate::world::app::{AppSpec, Scratch};
use routee_compass::app::compass::compass_app::CompassApp;
use routee_compass::app::compass::compass_app_ops::apply_load_balancing_policy;
use routee_compass_core::model::unit::*;
use serde_json::{json, Value};

/// the query alphabet of the batch histories (every query carries coordinates so that the haversine balancer can weigh it)
fn alphabet() -> Vec<(&'static str, Value, usize)> {
    let c = json!({"origin_x": 0.0, "origin_y": 0.0, "destination_x": 0.01, "destination_y": 0.01, "w": 2.0});
    let with = |mut q: Value| {
        for (k, v) in c.as_object().unwrap() {
            q[k] = v.clone();
        }
        q
    };
    vec![
        (
            "valid_a",
            with(json!({"origin_vertex": 0, "destination_vertex": 3})),
            1,
        ),
        (
            "valid_b",
            with(json!({"origin_vertex": 2, "destination_vertex": 4, "w": 7.5})),
            1,
        ),
        (
            "unreachable",
            with(json!({"origin_vertex": 4, "destination_vertex": 0})),
            1,
        ),
        (
            "malformed",
            with(json!({"origin_vertex": "zero", "destination_vertex": 4})),
            1,
        ),
        (
            "plugin_failure",
            with(json!({"origin_vertex": 0, "destination_vertex": 4, "weight_factor": 2.0})),
            1,
        ),
        (
            "grid",
            with(
                json!({"origin_vertex": 0, "destination_vertex": 4, "grid_search": {"label": ["x", "y"]}}),
            ),
            2,
        ),
        (
            "iteration_limit",
            with(json!({"origin_vertex": 5, "destination_vertex": 4})),
            1,
        ),
    ]
}

fn app_spec(parallelism: usize, balancer: &str) -> AppSpec {
    let mut s = AppSpec::simple(base_net());
    s.parallelism = parallelism;
    s.algorithm = json!({"type": "dijkstra"});
    // the long query 5 -> 4 needs more expansions than the limit allows; every other query stays below it
    s.termination = json!({"type": "iterations", "limit": 5});
    let mut plugins = vec![
        json!({"type": "grid_search"}),
        json!({"type": "inject", "key": "weight_factor", "value": "0.0", "format": "json", "overwrite": false}),
    ];
    match balancer {
        "haversine" => plugins.push(json!({"type": "load_balancer", "weight_heuristic": {"type": "haversine"}})),
        "custom" => plugins.push(json!({"type": "load_balancer", "weight_heuristic": {"type": "custom", "custom_weight_type": {"type": "numeric", "column_name": "w"}}})),
        _ => {}
    }
    s.input_plugins = plugins;
    // the configured persistence policy alternates between the configurations; every run also states its own policy (or none)
    s.persistence = if (parallelism + balancer.len()) % 2 == 0 {
        "discard_response_from_memory".into()
    } else {
        "persist_response_in_memory".into()
    };
    s
}

fn canon_multiset(v: &[Value]) -> Vec<String> {
    let mut s: Vec<String> = v.iter().map(canon_json).collect();
    s.sort();
    s
}

/// projected response without the fields plugins add to the request (weight estimate)
fn proj(r: &Value) -> Value {
    let mut p = project(r);
    if let Some(o) = p.get_mut("request").and_then(|x| x.as_object_mut()) {
        o.remove("query_weight_estimate");
    }
    p
}

/// returns false when the application stopped answering (the rest of the run is then skipped)
/// `only`: a recorded case (replay) - just its batch under its configuration is run, with every override and policy
fn batch_histories(tier: Tier, st: &mut Stats, only: Option<&Value>) -> bool {
    let scratch = Scratch::new("c06");
    let alpha = alphabet();
    let max_len = tier.pick(3usize, 4usize);
    // all ordered batches of length 1..max_len over the alphabet (with repetition)
    let mut batches: Vec<Vec<usize>> = vec![];
    let mut layer: Vec<Vec<usize>> = vec![vec![]];
    for _ in 0..max_len {
        let mut next = vec![];
        for b in layer.iter() {
            for q in 0..alpha.len() {
                let mut b2 = b.clone();
                b2.push(q);
                next.push(b2);
            }
        }
        batches.extend(next.iter().cloned());
        layer = next;
    }
    let mut apps: Vec<(usize, &str, std::sync::Arc<CompassApp>)> = vec![];
    for par in 1..=4usize {
        for bal in ["none", "haversine", "custom"] {
            if let Some(o) = only {
                if o["configured_parallelism"].as_u64() != Some(par as u64)
                    || o["balancer"].as_str() != Some(bal)
                {
                    continue;
                }
            }
            match app_spec(par, bal).build(&scratch.path.join(format!("app_{}_{}", par, bal))) {
                Ok(a) => apps.push((par, bal, std::sync::Arc::new(a))),
                Err(e) => {
                    st.violation(
                        "harness",
                        "app_build",
                        0,
                        || e.clone(),
                        || json!({"parallelism": par, "balancer": bal}),
                    );
                    return true;
                }
            }
        }
    }
    for (par, bal, app) in apps.iter() {
        // index of the configuration in the full list (it rotates the quick-tier subsets)
        let ai = (*par - 1) * 3
            + ["none", "haversine", "custom"]
                .iter()
                .position(|b| b == bal)
                .unwrap_or(0);
        // what each alphabet query returns alone under this configuration: asked of a twin application whose configured policy keeps
        // responses in memory, so that the reference does not depend on how a per-run policy is honoured
        let ref_app = {
            let mut spec = app_spec(*par, bal);
            spec.persistence = "persist_response_in_memory".into();
            match spec.build(&scratch.path.join(format!("ref_app_{}_{}", par, bal))) {
                Ok(a) => a,
                Err(e) => {
                    st.violation(
                        "harness",
                        "app_build",
                        0,
                        || e.clone(),
                        || json!({"parallelism": par, "balancer": bal}),
                    );
                    return true;
                }
            }
        };
        // what each alphabet query returns alone under this configuration
        let alone: Vec<Vec<Value>> = alpha
            .iter()
            .map(|(_, q, _)| {
                guarded(|| ref_app.run(vec![tagq(q, "x")], None))
                    .ok()
                    .and_then(|r| r.ok())
                    .unwrap_or_default()
                    .iter()
                    .map(proj)
                    .collect()
            })
            .collect();
        // sanity of the alphabet itself
        for (i, (name, _, n)) in alpha.iter().enumerate() {
            let ok = alone[i].len() == *n
                && match *name {
                    "valid_a" | "valid_b" | "grid" => alone[i].iter().all(|r| r["error"].is_null()),
                    "iteration_limit" => alone[i][0]["error"]
                        .as_str()
                        .map_or(false, |e| e.contains("iteration limit")),
                    _ => alone[i].iter().all(|r| !r["error"].is_null()),
                };
            if !ok {
                st.violation(
                    "harness",
                    "alphabet_query_behaves_as_named",
                    0,
                    || {
                        format!(
                            "{} under parallelism {} balancer {}: {:?}",
                            name, par, bal, alone[i]
                        )
                    },
                    || json!({}),
                );
                return true;
            }
        }
        for (bi, b) in batches.iter().enumerate() {
            // quick: batches of length 3 are spread over the 12 configurations (each batch still runs under three of them)
            if let Some(o) = only {
                let names: Vec<Value> = b.iter().map(|qi| json!(alpha[*qi].0)).collect();
                if o.get("batch").is_some() && o["batch"] != Value::Array(names) {
                    continue;
                }
            }
            if tier == Tier::Quick && b.len() == 3 && (bi + ai) % 4 != 0 {
                continue;
            }
            for override_par in [None, Some(1usize), Some(3usize)] {
                if only.map_or(true, |o| o.get("batch").is_none())
                    && override_par.is_some()
                    && (bi + ai) % 3 != 0
                {
                    continue;
                }
                let configured_persist: &str = if (par + bal.len()) % 2 == 0 {
                    "discard_response_from_memory"
                } else {
                    "persist_response_in_memory"
                };
                for persist_opt in [
                    Some("persist_response_in_memory"),
                    Some("discard_response_from_memory"),
                    None,
                ] {
                    // no policy in the run configuration: the configured one applies
                    let persist: &str = persist_opt.unwrap_or(configured_persist);
                    st.states += 1;
                    st.evaluations += 1;
                    st.transitions += 1;
                    st.traces += 1;
                    if b.len() > 1 {
                        st.nontrivial += 1;
                    }
                    let queries: Vec<Value> = b
                        .iter()
                        .enumerate()
                        .map(|(k, qi)| tagq(&alpha[*qi].1, &format!("q{}", k)))
                        .collect();
                    let path = scratch.path.join(format!("out_{}_{}.jsonl", ai, bi));
                    let _ = std::fs::remove_file(&path);
                    let mut cfg = json!({"response_output_policy": {"type": "file", "filename": path.to_str().unwrap(), "format": {"type": "json", "newline_delimited": true}}});
                    if let Some(p) = persist_opt {
                        cfg["response_persistence_policy"] = json!(p);
                    }
                    if let Some(p) = override_par {
                        cfg["parallelism"] = json!(p);
                    }
                    let comp = format!(
                        "batch_histories.{}.{}",
                        bal,
                        if persist.starts_with("persist") {
                            "keep"
                        } else {
                            "discard"
                        }
                    );
                    let names: Vec<&str> = b.iter().map(|qi| alpha[*qi].0).collect();
                    let case = || json!({"batch": names, "configured_parallelism": par, "run_parallelism": override_par, "balancer": bal, "persistence": persist, "persistence_from": if persist_opt.is_some() { "run configuration" } else { "application configuration" }, "configured_persistence": configured_persist});
                    let size = b.len() as u64 * 100 + b.iter().sum::<usize>() as u64;
                    let (a2, q2, c2) = (app.clone(), queries.clone(), cfg.clone());
                    let r = match crate::engine::with_deadline(60, move || {
                        guarded(|| a2.run(q2, Some(&c2)).map_err(|e| e.to_string()))
                    }) {
                        Some(r) => r,
                        None => {
                            st.violation(&comp, "returns_in_bounded_time", size, || "CompassApp::run did not return within 60 s (worker pool stuck); the rest of the batch histories is skipped".to_string(), case);
                            return false;
                        }
                    };
                    let returned = match r {
                        Err(p) => {
                            st.violation(&comp, "no_panic", size, || p.clone(), case);
                            continue;
                        }
                        Ok(Err(e)) => {
                            st.violation(&comp, "run_returns_responses", size, || e.clone(), case);
                            continue;
                        }
                        Ok(Ok(r)) => r,
                    };
                    // all responses are observable in the file under both policies
                    let text = std::fs::read_to_string(&path).unwrap_or_default();
                    let _ = std::fs::remove_file(&path);
                    let filed: Vec<Value> = text
                        .split('\n')
                        .filter(|l| !l.is_empty())
                        .filter_map(|l| serde_json::from_str(l).ok())
                        .collect();
                    let observed: &Vec<Value> = if persist.starts_with("persist") {
                        &returned
                    } else {
                        &filed
                    };
                    // expected: union of what each query returns alone, with this batch's tags
                    let mut want: Vec<Value> = vec![];
                    for (k, qi) in b.iter().enumerate() {
                        for r in alone[*qi].iter() {
                            let mut r = r.clone();
                            r["request"]["qid"] = json!(format!("q{}", k));
                            want.push(r);
                        }
                    }
                    let got: Vec<Value> = observed.iter().map(proj).collect();
                    if got.len() == want.len() {
                        st.pass("one_response_per_expanded_query");
                    } else {
                        st.violation(
                            &comp,
                            "one_response_per_expanded_query",
                            size,
                            || {
                                format!(
                                    "{} responses for {} expanded queries",
                                    got.len(),
                                    want.len()
                                )
                            },
                            case,
                        );
                    }
                    if canon_multiset(&got) == canon_multiset(&want) {
                        st.pass("responses_equal_alone_responses");
                    } else {
                        let g = canon_multiset(&got);
                        let w = canon_multiset(&want);
                        let missing: Vec<&String> =
                            w.iter().filter(|x| !g.contains(x)).take(2).collect();
                        let extra: Vec<&String> =
                            g.iter().filter(|x| !w.contains(x)).take(2).collect();
                        st.violation(
                            &comp,
                            "responses_equal_alone_responses",
                            size,
                            || format!("missing {:?} ; unexpected {:?}", missing, extra),
                            case,
                        );
                    }
                    // a discarding run hands back only what never reached the search (responses of input-plugin failures)
                    if !persist.starts_with("persist") {
                        let allowed = b
                            .iter()
                            .filter(|qi| alpha[**qi].0 == "plugin_failure")
                            .count();
                        if returned.len() <= allowed {
                            st.pass("discarding_run_returns_no_search_responses");
                        } else {
                            st.violation(
                                &comp,
                                "discarding_run_returns_no_search_responses",
                                size,
                                || {
                                    format!(
                                        "{} responses returned, at most {} expected",
                                        returned.len(),
                                        allowed
                                    )
                                },
                                case,
                            );
                        }
                    }
                    if persist.starts_with("persist")
                        && canon_multiset(&filed.iter().map(proj).collect::<Vec<_>>())
                            != canon_multiset(&got)
                    {
                        st.violation(
                            &comp,
                            "file_and_returned_responses_agree",
                            size,
                            || {
                                format!(
                                    "file has {} records, {} returned",
                                    filed.len(),
                                    returned.len()
                                )
                            },
                            case,
                        );
                    }
                    if bi == 57 && ai == 4 && override_par.is_none() {
                        st.sample(2, case);
                    }
                }
            }
        }
    }
    true
}

/// (b) load balancing: every query in exactly one of at most `parallelism` bins
fn load_balancing(tier: Tier, st: &mut Stats) {
    let weights: [Option<f64>; 5] = [None, Some(0.0), Some(1.0), Some(2.0), Some(5.0)];
    let max_n = tier.pick(5u32, 6u32);
    for n in 0..=max_n {
        let count = 5u64.pow(n);
        let s = par_blocks(count, 512, |lo, hi, st| {
            for code in lo..hi {
                let mut c = code;
                let mut qs: Vec<Value> = vec![];
                for i in 0..n {
                    let w = weights[(c % 5) as usize];
                    c /= 5;
                    let mut q = json!({"id": i});
                    if let Some(w) = w {
                        q["query_weight_estimate"] = json!(w);
                    }
                    qs.push(q);
                }
                for par in 1..=4usize {
                    st.states += 1;
                    st.evaluations += 1;
                    st.transitions += 1;
                    st.traces += 1;
                    if n >= 2 && par >= 2 {
                        st.nontrivial += 1;
                    }
                    let case = || json!({"weights": qs.iter().map(|q| q.get("query_weight_estimate").cloned().unwrap_or(Value::Null)).collect::<Vec<_>>(), "parallelism": par});
                    match guarded(|| {
                        apply_load_balancing_policy(&qs, par, 1.0)
                            .map(|b| {
                                b.iter()
                                    .map(|bin| {
                                        bin.iter()
                                            .map(|q| q["id"].as_u64().unwrap_or(99))
                                            .collect::<Vec<_>>()
                                    })
                                    .collect::<Vec<_>>()
                            })
                            .map_err(|e| e.to_string())
                    }) {
                        Err(p) => {
                            st.violation("load_balancing", "no_panic", n as u64, || p.clone(), case)
                        }
                        Ok(Err(e)) => st.violation(
                            "load_balancing",
                            "returns_bins",
                            n as u64,
                            || e.clone(),
                            case,
                        ),
                        Ok(Ok(bins)) => {
                            let mut all: Vec<u64> = bins.iter().flatten().cloned().collect();
                            all.sort();
                            let want: Vec<u64> = (0..n as u64).collect();
                            if all == want && bins.len() <= par {
                                st.pass("every_query_in_exactly_one_bin");
                            } else {
                                st.violation(
                                    "load_balancing",
                                    "every_query_in_exactly_one_bin",
                                    n as u64,
                                    || {
                                        format!(
                                            "bins {:?} for {} queries, parallelism {}",
                                            bins, n, par
                                        )
                                    },
                                    case,
                                );
                            }
                            // greedy least-loaded assignment keeps bins balanced: no bin exceeds the lightest by more than the heaviest single weight
                            let wt = |id: u64| {
                                qs[id as usize]
                                    .get("query_weight_estimate")
                                    .and_then(|v| v.as_f64())
                                    .unwrap_or(1.0)
                            };
                            if !bins.is_empty() {
                                let loads: Vec<f64> = bins
                                    .iter()
                                    .map(|b| b.iter().map(|i| wt(*i)).sum())
                                    .collect();
                                let maxw = (0..n as u64).map(wt).fold(0.0, f64::max);
                                let (lo_, hi_) = (
                                    loads.iter().cloned().fold(f64::INFINITY, f64::min),
                                    loads.iter().cloned().fold(0.0, f64::max),
                                );
                                if hi_ - lo_ <= maxw + 1e-9 {
                                    st.pass("bins_are_balanced");
                                } else {
                                    st.violation(
                                        "load_balancing",
                                        "bins_are_balanced",
                                        n as u64,
                                        || format!("loads {:?}", loads),
                                        case,
                                    );
                                }
                            }
                        }
                    }
                }
            }
        });
        st.merge(s);
    }
}

/// the application with a prediction cache shared by all workers
fn cache_spec() -> AppSpec {
    let mut spec = AppSpec::simple(base_net());
    let speeds: Vec<f64> = (0..base_net().m())
        .map(|e| [30.0, 50.0, 80.0][e % 3])
        .collect();
    spec.speed = Some((
        speeds,
        SpeedUnit::KilometersPerHour,
        Some(DistanceUnit::Miles),
        Some(TimeUnit::Minutes),
    ));
    spec.traversal_override = Some(json!({
        "type": "energy_model",
        "time_model": {"type": "speed_table", "speed_table_input_file": "$DIR/speeds.txt", "speed_unit": "kilometers_per_hour", "distance_unit": "miles", "time_unit": "minutes"},
        "grade_table_grade_unit": "decimal",
        "time_unit": "minutes",
        "distance_unit": "miles",
        "vehicles": [{"type": "bev", "name": "bolt", "model_input_file": BOLT, "model_type": "smartcore", "speed_unit": "miles_per_hour", "grade_unit": "decimal", "energy_rate_unit": "kilowatt_hours_per_mile", "ideal_energy_rate": 0.2, "real_world_energy_adjustment": 1.3958, "battery_capacity": 60, "battery_capacity_unit": "kilowatt_hours",
            "float_cache_policy": {"cache_size": 100, "key_precisions": [6, 6]}}]
    }));
    spec.cost = json!({"weights": {"distance": 0.0, "time": 0.0, "energy_electric": 1.0}, "vehicle_rates": {"distance": {"type": "raw"}, "time": {"type": "raw"}, "energy_electric": {"type": "raw"}}, "cost_aggregation": "sum", "network_rates": {}});
    spec
}

/// (c) the schedule scenarios: (uses the cache application, scenario, preemption bound)
fn schedule_scenarios(tier: Tier) -> Vec<(bool, Scenario, Option<usize>)> {
    let qa = crate::props::c19::query_alphabet();
    let q = |i: usize, id: &str| tagq(&qa[i], id);
    let e = |o: usize, d: usize, id: &str| {
        tagq(
            &json!({"origin_vertex": o, "destination_vertex": d, "model_name": "bolt", "starting_soc_percent": 70}),
            id,
        )
    };
    let cb = Some(tier.pick(3, 4));
    // (a fresh application per schedule costs ~10 ms: the cold scenarios keep bound 2 in the quick tier)
    let cold = Some(tier.pick(2, 4));
    vec![
        (
            false,
            Scenario {
                name: "c06_2x2_jsonl".into(),
                batches: vec![vec![q(0, "a0"), q(2, "a1")], vec![q(1, "b0"), q(4, "b1")]],
                csv: false,
                flush_rate: 1,
                keep_responses: true,
                fresh_app: false,
                combined: false,
            },
            None,
        ),
        (
            false,
            Scenario {
                name: "c06_3x1_csv".into(),
                batches: vec![vec![q(0, "a0")], vec![q(2, "b0")], vec![q(3, "c0")]],
                csv: true,
                flush_rate: 1,
                keep_responses: true,
                fresh_app: false,
                combined: false,
            },
            Some(tier.pick(3, 5)),
        ),
        // shared prediction cache, two tasks running battery-electric queries over one FloatCachePolicy.
        // warm: every lookup is a hit (the cache was filled by the alone runs); cold: a fresh application per execution, so that
        // misses, the model call and the update of two workers interleave; distinct: the two workers meet the keys in different orders
        (
            true,
            Scenario {
                name: "c06_2x1_shared_prediction_cache".into(),
                batches: vec![vec![e(0, 4, "a0")], vec![e(0, 4, "b0")]],
                csv: false,
                flush_rate: 1,
                keep_responses: true,
                fresh_app: false,
                combined: false,
            },
            cb,
        ),
        (
            true,
            Scenario {
                name: "c06_2x1_shared_prediction_cache_cold".into(),
                batches: vec![vec![e(0, 4, "a0")], vec![e(0, 4, "b0")]],
                csv: false,
                flush_rate: 1,
                keep_responses: true,
                fresh_app: true,
                combined: false,
            },
            cold,
        ),
        (
            true,
            Scenario {
                name: "c06_2x1_shared_prediction_cache_cold_distinct".into(),
                batches: vec![vec![e(0, 4, "a0")], vec![e(3, 1, "b0")]],
                csv: false,
                flush_rate: 1,
                keep_responses: true,
                fresh_app: true,
                combined: false,
            },
            cold,
        ),
    ]
}

fn schedules(
    tier: Tier,
    st: &mut Stats,
    bounds: &mut serde_json::Map<String, Value>,
) -> Result<(), String> {
    // one worker process per scenario (the scheduling hook is global to a process)
    let s = crate::props::c19::explore_in_workers(
        "C06",
        tier,
        schedule_scenarios(tier).len() as u64,
        bounds,
    )?;
    st.merge(s);
    Ok(())
}

pub fn worker(args: &[String]) -> i32 {
    let tier = if args.first().map(|s| s.as_str()) == Some("thorough") {
        Tier::Thorough
    } else {
        Tier::Quick
    };
    if args.get(1).map(|s| s.as_str()) == Some("batches") {
        // one case = the batch histories of one of the twelve configurations
        return crate::engine::sandbox::worker_loop(|i, st| {
            let par = i as usize / 3 + 1;
            let bal = ["none", "haversine", "custom"][i as usize % 3];
            if !batch_histories(
                tier,
                st,
                Some(&json!({"configured_parallelism": par, "balancer": bal})),
            ) {
                st.notes.insert("STUCK".into());
            }
        });
    }
    let scs = schedule_scenarios(tier);
    let mut fx_plain: Option<crate::props::c19::Fixture> = None;
    let mut fx_cache: Option<crate::props::c19::Fixture> = None;
    crate::engine::sandbox::worker_loop(|i, st| {
        let (cache, sc, bound) = &scs[i as usize];
        let slot = if *cache { &mut fx_cache } else { &mut fx_plain };
        if slot.is_none() {
            match fixture_spec(&if *cache {
                cache_spec()
            } else {
                AppSpec::simple(base_net())
            }) {
                Ok(f) => *slot = Some(f),
                Err(e) => {
                    st.notes.insert(format!("MACHINERY {}", e));
                    return;
                }
            }
        }
        crate::props::c19::explore_and_note(
            slot.as_ref().unwrap(),
            sc,
            *bound,
            tier.pick(20_000, 1_000_000),
            "C06",
            st,
        );
    })
}

/// the command-line driver over a newline-delimited query file read in chunks: every history of 1-4 rows over {answerable query,
/// unreachable destination, a row that is not JSON, a blank row} x chunk size 1-3 x persistence policy. Every readable row gets
/// exactly one response in the output file, wherever the unreadable rows fall and however the rows are cut into chunks
fn cli_histories(tier: Tier, st: &mut Stats, only: Option<&Value>) {
    use routee_compass::app::cli::cli_args::CliArgs;
    use routee_compass::app::cli::run::command_line_runner;
    let scratch = Scratch::new("c06cli");
    let dir = scratch.path.join("app");
    let spec = AppSpec::simple(base_net());
    let cfg = match spec.write_files(&dir) {
        Ok(c) => c,
        Err(e) => {
            st.violation("harness", "app_files", 0, || e.clone(), || json!({}));
            return;
        }
    };
    let conf_path = dir.join("config.json");
    if let Err(e) = std::fs::write(&conf_path, serde_json::to_string(&cfg).unwrap_or_default()) {
        st.violation("harness", "app_files", 0, || e.to_string(), || json!({}));
        return;
    }
    let kinds = ["answerable", "unreachable", "not_json", "blank"];
    let row = |k: usize, pos: usize| -> String {
        match k {
            0 => json!({"origin_vertex": 0, "destination_vertex": 4, "qid": format!("r{}", pos)})
                .to_string(),
            1 => json!({"origin_vertex": 4, "destination_vertex": 0, "qid": format!("r{}", pos)})
                .to_string(),
            2 => "{\"origin_vertex\": 0, \"destination_vertex\"".to_string(),
            _ => String::new(),
        }
    };
    let mut histories: Vec<Vec<usize>> = vec![];
    let mut layer: Vec<Vec<usize>> = vec![vec![]];
    for _ in 0..4 {
        let mut next = vec![];
        for h in layer.iter() {
            for k in 0..kinds.len() {
                let mut h2 = h.clone();
                h2.push(k);
                next.push(h2);
            }
        }
        histories.extend(next.iter().cloned());
        layer = next;
    }
    let mut runs = 0u64;
    for (hi, h) in histories.iter().enumerate() {
        for chunk in 1..=3i64 {
            for (pi, persist) in ["persist_response_in_memory", "discard_response_from_memory"]
                .iter()
                .enumerate()
            {
                if let Some(o) = only {
                    if o["rows"] != json!(h.iter().map(|k| kinds[*k]).collect::<Vec<_>>())
                        || o["chunksize"] != json!(chunk)
                        || o["persistence"] != json!(persist)
                    {
                        continue;
                    }
                } else if tier == Tier::Quick && h.len() == 4 && (hi + chunk as usize + pi) % 4 != 0
                {
                    continue;
                }
                runs += 1;
                st.states += 1;
                st.evaluations += 1;
                st.transitions += h.len() as u64;
                st.traces += 1;
                if h.len() > chunk as usize {
                    st.nontrivial += 1;
                }
                let qfile = scratch
                    .path
                    .join(format!("q_{}_{}_{}.jsonl", hi, chunk, pi));
                let ofile = scratch
                    .path
                    .join(format!("o_{}_{}_{}.jsonl", hi, chunk, pi));
                let _ = std::fs::remove_file(&ofile);
                let text: String = h
                    .iter()
                    .enumerate()
                    .map(|(pos, k)| row(*k, pos) + "\n")
                    .collect();
                let _ = std::fs::write(&qfile, text);
                let run_cfg = json!({"parallelism": 2, "response_persistence_policy": persist, "response_output_policy": {"type": "file", "filename": ofile.to_str().unwrap_or(""), "format": {"type": "json", "newline_delimited": true}, "file_flush_rate": 1}});
                let args = CliArgs {
                    config_file: conf_path.to_str().unwrap_or("").to_string(),
                    query_file: qfile.to_str().unwrap_or("").to_string(),
                    chunksize: Some(chunk),
                    newline_delimited: true,
                };
                let case = || json!({"cli": true, "rows": h.iter().map(|k| kinds[*k]).collect::<Vec<_>>(), "chunksize": chunk, "persistence": persist});
                let comp = format!(
                    "command_line.chunked.{}",
                    if pi == 0 { "persist" } else { "discard" }
                );
                match guarded(|| {
                    command_line_runner(&args, None, Some(&run_cfg)).map_err(|e| e.to_string())
                }) {
                    Err(p) => st.violation(&comp, "no_panic", h.len() as u64, || p.clone(), case),
                    Ok(Err(e)) => {
                        st.violation(&comp, "run_returns", h.len() as u64, || e.clone(), case)
                    }
                    Ok(Ok(())) => {
                        let out = std::fs::read_to_string(&ofile).unwrap_or_default();
                        let mut got: Vec<(String, bool)> = out
                            .lines()
                            .filter(|l| !l.is_empty())
                            .filter_map(|l| serde_json::from_str::<Value>(l).ok())
                            .map(|v| {
                                (
                                    v["request"]["qid"].as_str().unwrap_or("?").to_string(),
                                    v.get("error").map_or(false, |e| !e.is_null()),
                                )
                            })
                            .collect();
                        got.sort();
                        let mut want: Vec<(String, bool)> = h
                            .iter()
                            .enumerate()
                            .filter(|(_, k)| **k < 2)
                            .map(|(pos, k)| (format!("r{}", pos), *k == 1))
                            .collect();
                        want.sort();
                        if got == want {
                            st.pass("one_response_per_readable_row");
                        } else {
                            st.violation(
                                &comp,
                                "one_response_per_readable_row",
                                h.len() as u64,
                                || {
                                    format!(
                                        "responses (row, is an error) {:?}, readable rows {:?}",
                                        got, want
                                    )
                                },
                                case,
                            );
                        }
                    }
                }
                let _ = std::fs::remove_file(&qfile);
                let _ = std::fs::remove_file(&ofile);
            }
        }
    }
    st.notes.insert(format!("command-line driver: {} runs over row histories of length 1-4 x chunk size 1-3 x persistence policy", runs));
}

/// a plugin chain that expands twice: the query's own grid section, then a grid section the configuration injects into every
/// query (`b = [10, 20]`), expanded by a second grid-search plugin. Every batch over {plain, own grid of 2, own grid of 3,
/// failing} of length 1-2 under per-run parallelism 1-3: one response per expanded query, each carrying its combination, the
/// multiset equal to what the queries return alone
fn chained_expansion(st: &mut Stats, only: Option<&Value>) {
    let scratch = Scratch::new("c06chain");
    let mut spec = AppSpec::simple(base_net());
    spec.input_plugins = vec![
        json!({"type": "grid_search"}),
        json!({"type": "inject", "key": "grid_search", "value": "{\"b\": [10, 20]}", "format": "json"}),
        json!({"type": "grid_search"}),
    ];
    let app = match spec.build(&scratch.path.join("app")) {
        Ok(a) => a,
        Err(e) => {
            st.violation(
                "harness",
                "app_build",
                0,
                || e.clone(),
                || json!({"chained_expansion": true}),
            );
            return;
        }
    };
    let kinds: Vec<(&str, Value, usize)> = vec![
        (
            "plain",
            json!({"origin_vertex": 0, "destination_vertex": 4, "tag": "p"}),
            2,
        ),
        (
            "own_grid_of_two",
            json!({"origin_vertex": 0, "destination_vertex": 4, "tag": "g2", "grid_search": {"a": [1, 2]}}),
            4,
        ),
        (
            "own_grid_of_three",
            json!({"origin_vertex": 1, "destination_vertex": 4, "tag": "g3", "grid_search": {"a": [1, 2, 3]}}),
            6,
        ),
        (
            "failing",
            json!({"origin_vertex": 0, "destination_vertex": 4000, "tag": "f"}),
            2,
        ),
    ];
    let key = |r: &Value| {
        canon_json(
            &json!({"request": r.get("request"), "error": r.get("error").is_some(), "route": project(r)["route"]}),
        )
    };
    let mut alone: Vec<Option<Vec<String>>> = vec![];
    for (_, q, _) in kinds.iter() {
        alone.push(
            guarded(|| app.run(vec![q.clone()], Some(&json!({"parallelism": 1}))))
                .ok()
                .and_then(|r| r.ok())
                .map(|rs| {
                    let mut v: Vec<String> = rs.iter().map(key).collect();
                    v.sort();
                    v
                }),
        );
    }
    let mut batches: Vec<Vec<usize>> = (0..kinds.len()).map(|i| vec![i]).collect();
    for i in 0..kinds.len() {
        for j in 0..kinds.len() {
            batches.push(vec![i, j]);
        }
    }
    for b in batches.iter() {
        for par in 1..=3u64 {
            let names: Vec<&str> = b.iter().map(|i| kinds[*i].0).collect();
            if let Some(o) = only {
                if o.get("batch") != Some(&json!(names)) {
                    continue;
                }
            }
            st.evaluations += 1;
            st.transitions += 1;
            st.traces += 1;
            st.states += 1;
            if b.len() >= 2 {
                st.nontrivial += 1;
            }
            let batch: Vec<Value> = b
                .iter()
                .enumerate()
                .map(|(pos, i)| {
                    let mut q = kinds[*i].1.clone();
                    q["position"] = json!(pos);
                    q
                })
                .collect();
            let comp = "batch_histories.chained_expansion".to_string();
            let case = || json!({"chained_expansion": true, "batch": names, "run_parallelism": par, "queries": batch});
            let rs = match guarded(|| {
                app.run(batch.clone(), Some(&json!({"parallelism": par})))
                    .map_err(|e| e.to_string())
            }) {
                Err(p) => {
                    st.violation(&comp, "no_panic", b.len() as u64, || p.clone(), case);
                    continue;
                }
                Ok(Err(e)) => {
                    st.violation(
                        &comp,
                        "run_returns_responses",
                        b.len() as u64,
                        || e.clone(),
                        case,
                    );
                    continue;
                }
                Ok(Ok(r)) => r,
            };
            let want: usize = b.iter().map(|i| kinds[*i].2).sum();
            if rs.len() != want {
                st.violation(&comp, "one_response_per_expanded_query", b.len() as u64, || format!("{} responses for {} expanded queries: {}", rs.len(), want, serde_json::to_string(&rs.iter().map(|r| json!({"request": r.get("request"), "error": r.get("error")})).collect::<Vec<_>>()).unwrap_or_default().chars().take(600).collect::<String>()), case);
                continue;
            }
            // every combination once: (position, a, b) of the requests
            let mut combos: Vec<String> = rs
                .iter()
                .map(|r| {
                    format!(
                        "{}/{}/{}",
                        r["request"]["position"], r["request"]["a"], r["request"]["b"]
                    )
                })
                .collect();
            combos.sort();
            let mut wanted: Vec<String> = vec![];
            for (pos, i) in b.iter().enumerate() {
                let own: Vec<Value> = match kinds[*i].1.get("grid_search") {
                    Some(g) => g["a"].as_array().cloned().unwrap_or_default(),
                    None => vec![Value::Null],
                };
                for a in own.iter() {
                    for bb in [10, 20] {
                        wanted.push(format!("{}/{}/{}", pos, a, bb));
                    }
                }
            }
            wanted.sort();
            if combos != wanted {
                st.violation(
                    &comp,
                    "each_response_carries_its_request",
                    b.len() as u64,
                    || format!("combinations answered {:?}, expected {:?}", combos, wanted),
                    case,
                );
                continue;
            }
            // equal to the queries alone (positions aside)
            let strip = |r: &Value| {
                let mut r = r.clone();
                if let Some(o) = r.get_mut("request").and_then(|q| q.as_object_mut()) {
                    o.remove("position");
                }
                key(&r)
            };
            let mut got: Vec<String> = rs.iter().map(strip).collect();
            got.sort();
            let mut exp: Vec<String> = vec![];
            let mut known = true;
            for i in b.iter() {
                match &alone[*i] {
                    Some(v) => exp.extend(v.iter().cloned()),
                    None => known = false,
                }
            }
            exp.sort();
            if !known {
                st.violation(
                    &comp,
                    "run_returns_responses",
                    b.len() as u64,
                    || "a query of the batch could not be run alone".to_string(),
                    case,
                );
            } else if got == exp {
                st.pass("chained_expansion_equals_queries_alone");
            } else {
                st.violation(
                    &comp,
                    "multiset_equals_queries_alone",
                    b.len() as u64,
                    || {
                        format!("batch gives {:?}, the queries alone give {:?}", got, exp)
                            .chars()
                            .take(900)
                            .collect::<String>()
                    },
                    case,
                );
            }
        }
    }
}

pub fn run(tier: Tier) -> i32 {
    let info = RunInfo::new("C06", tier);
    let mut st = Stats::new();
    let mut bounds = serde_json::Map::new();
    // the twelve configurations run in parallel, one worker process each
    let alive = {
        use crate::engine::sandbox::{run_cases, SandboxCfg};
        let cfg = SandboxCfg {
            worker_args: vec![
                "--worker".into(),
                "C06".into(),
                tier.as_str().into(),
                "batches".into(),
            ],
            n_workers: 12,
            case_timeout: std::time::Duration::from_secs(tier.pick(1200, 6 * 3600)),
            block: 1,
            budget: std::time::Duration::from_secs(tier.pick(1800, 8 * 3600)),
        };
        match run_cases(&cfg, 12) {
            Ok((s, fates)) => {
                if !fates.is_empty() {
                    println!(
                        "MACHINERY-ERROR batch history workers hung or died: {:?}",
                        fates
                    );
                    return 2;
                }
                let stuck = s.notes.contains("STUCK");
                st.merge(s);
                st.notes.remove("STUCK");
                !stuck
            }
            Err(e) => {
                println!("MACHINERY-ERROR {}", e);
                return 2;
            }
        }
    };
    load_balancing(tier, &mut st);
    cli_histories(tier, &mut st, None);
    chained_expansion(&mut st, None);
    st.sample(
        3,
        || json!({"load_balancing": {"weights": [null, 5.0, 0.0, 2.0], "parallelism": 3}}),
    );
    if alive {
        if let Err(e) = schedules(tier, &mut st, &mut bounds) {
            println!("MACHINERY-ERROR {}", e);
            return 2;
        }
    } else {
        st.notes.insert(
            "schedule exploration skipped: the application's global worker pool is stuck".into(),
        );
    }
    st.sample(
        4,
        || json!({"schedule_scenario": "c06_2x2_jsonl", "schedule": [1, 0, 0, 1]}),
    );
    bounds.insert("batch_length".into(), json!(tier.pick(3, 4)));
    bounds.insert("load_balancing_queries".into(), json!(tier.pick(5, 6)));
    finish(
        &info,
        st,
        "(a) state = one ordered batch (length 1-3/4 over 7 query kinds: two valid, unreachable, malformed, input-plugin failure, grid search expanding to 2, iteration-limit) x configured parallelism 1-4 x per-run override x balancer {none, haversine, custom} x persistence policy {configured persist / discard} x {run states persist, run states discard, run states nothing}, run through the real CompassApp::run with free-running rayon; oracle = multiset of projected responses equals the union of what each query returns alone; (a') the same for a plugin chain that expands twice (own grid section, then an injected one): batches of length 1-2 over {plain, own grid of 2 / 3, failing} under per-run parallelism 1-3; (b) state = one weight vector over {absent,0,1,2,5}^n x parallelism 1-4 through apply_load_balancing_policy; (c) state = one complete schedule of the worker pools (E3), each task's returned responses judged; non-trivial = batch of >= 2 queries / >= 2 queries and >= 2 bins / schedule with a preemption",
        true,
        Value::Object(bounds),
        vec![
            "rayon's splitting and collect order are trusted (library); the schedule-independent multiset oracle covers CompassApp::run's glue at every parallelism value".into(),
            crate::engine::scan_shared_state(),
            "the shared prediction cache scenario uses a key precision fine enough that distinct inputs never share a bucket (coarser precision makes results order dependent by design)".into(),
            "timestamps, run times and memory figures are projected away; hash-map ordered objects are compared order-insensitively".into(),
        ],
    )
}

pub fn replay(case: &Value) -> i32 {
    let name = match case.get("scenario").and_then(|v| v.as_str()) {
        Some(n) => n.to_string(),
        None => {
            // a batch history or a load-balancing case: run again without the tier (the batch under its configuration with
            // every per-run override and both policies; the whole load-balancing enumeration, which takes a second)
            let c = if case.get("case").is_some() {
                &case["case"]
            } else {
                case
            };
            let mut st = Stats::new();
            if c.get("chained_expansion").is_some() {
                chained_expansion(&mut st, Some(c));
            } else if c.get("cli").is_some() {
                cli_histories(Tier::Thorough, &mut st, Some(c));
            } else if c.get("batch").is_some() {
                batch_histories(Tier::Thorough, &mut st, Some(c));
            } else {
                load_balancing(Tier::Thorough, &mut st);
            }
            for (k, g) in st.violations.iter() {
                println!(
                    "REPLAY-VIOLATION {} ({} cases) {}",
                    k,
                    g.count,
                    g.detail.chars().take(500).collect::<String>()
                );
            }
            println!(
                "replay: {} violated clauses over {} runs",
                st.violations.len(),
                st.evaluations
            );
            return if st.violations.is_empty() { 0 } else { 1 };
        }
    };
    let (cache, sc, _) = match schedule_scenarios(Tier::Thorough)
        .into_iter()
        .find(|s| s.1.name == name)
    {
        Some(s) => s,
        None => {
            println!("MACHINERY-ERROR unknown scenario {}", name);
            return 2;
        }
    };
    let fx = match fixture_spec(&if cache {
        cache_spec()
    } else {
        AppSpec::simple(base_net())
    }) {
        Ok(f) => f,
        Err(e) => {
            println!("MACHINERY-ERROR {}", e);
            return 2;
        }
    };
    let prefix: Vec<usize> = serde_json::from_value(case["schedule"].clone()).unwrap_or_default();
    let al = crate::props::c19::alone(&fx.app, &sc.batches);
    let mut verdicts = vec![];
    // the recorded schedule is replayed twice without the explorer: identical observations are required before a failure is trusted
    for round in 0..2 {
        let ex = crate::engine::sched::Explorer::new(sc.batches.len());
        match crate::props::c19::run_scenario(&ex, &fx, &sc, &prefix, None, false) {
            Ok(o) => {
                if let Some(d) = &o.exec.diverged {
                    println!(
                        "MACHINERY-ERROR the recorded schedule cannot be followed: {}",
                        d
                    );
                    return 2;
                }
                let (bad, order) = crate::props::c19::judge(&sc, &al, &o);
                let bad: Vec<(&str, String)> = bad
                    .into_iter()
                    .filter(|(c, _)| {
                        [
                            "task_returns_alone_responses_in_order",
                            "no_deadlock",
                            "task_completes",
                            "discard_policy_returns_nothing",
                        ]
                        .contains(c)
                    })
                    .collect();
                println!(
                    "round {}: file order {} ; {} choice points",
                    round,
                    order,
                    o.exec.points.len()
                );
                for (c, d) in bad.iter() {
                    println!(
                        "REPLAY-VIOLATION {} {}",
                        c,
                        d.chars().take(600).collect::<String>()
                    );
                }
                verdicts.push((
                    bad.iter().map(|b| b.0.to_string()).collect::<Vec<_>>(),
                    order,
                ));
            }
            Err(e) => {
                println!("MACHINERY-ERROR {}", e);
                return 2;
            }
        }
    }
    if verdicts[0] != verdicts[1] {
        println!("MACHINERY-ERROR the same schedule gave different observations");
        return 2;
    }
    if verdicts[0].0.is_empty() {
        0
    } else {
        1
    }
}
