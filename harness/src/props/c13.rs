//! C13 — k-shortest paths: up to k valid, distinct, dissimilar routes, best first, and it ends.
//! every case runs in the sub-process sandbox because this family of code can hang.
use crate::engine::sandbox::{run_cases, worker_loop, Fate, SandboxCfg};
use crate::engine::{close, finish, RunInfo, Stats, Tier};
use crate::props::search_common::*;
use crate::refmodel::graph::{bellman_ford, reachable};
use crate::world::net::{for_each_in_shard, shards, GenSpec, LenMode, Net};
use crate::world::sw::World;
use serde::{Deserialize, Serialize};
use serde_json::{json, Value};
use std::time::Duration;

#[derive(Clone, Debug, Serialize, Deserialize)]
pub struct Case {
    pub net: Net,
    pub algo: Algo,
    /// Some(k) = k given in the query instead of the configuration
    pub query_k: Option<usize>,
    pub speed_world: bool,
}

fn nets(specs: &[GenSpec]) -> Vec<Net> {
    let mut out = vec![];
    for s in specs {
        for (p, t) in shards(s, 2) {
            for_each_in_shard(s, &p, t, &mut |n| out.push(n.clone()));
        }
    }
    out
}

fn ksp_algos(yens: bool, tier: Tier) -> Vec<(Algo, Option<usize>)> {
    let ks: Vec<usize> = tier.pick(vec![1, 2, 3], vec![1, 2, 3, 4]);
    // thresholds at and beyond 1 are legal configurations: nothing is "too similar" any more, but the returned routes must still be distinct
    let sims: Vec<Option<Sim>> = vec![
        None,
        Some(Sim::AcceptAll),
        Some(Sim::EdgeCos(0.3)),
        Some(Sim::EdgeCos(0.99)),
        Some(Sim::DistCos(0.5)),
        Some(Sim::EdgeCos(1.0)),
        Some(Sim::DistCos(1.5)),
    ];
    // criteria that can never fire before the candidates run out (max below k, factor 0) are accepted by the configuration
    // like any other: the answer must still hold between one and k routes
    let terms: Vec<Option<KTerm>> = tier.pick(
        if yens {
            vec![None, Some(KTerm::Factor(2)), Some(KTerm::MaxIter(1))]
        } else {
            vec![
                None,
                Some(KTerm::Factor(2)),
                Some(KTerm::MaxIter(1)),
                Some(KTerm::MaxIter(0)),
            ]
        },
        vec![
            None,
            Some(KTerm::Exact),
            Some(KTerm::MaxIter(5)),
            Some(KTerm::Factor(2)),
            Some(KTerm::MaxIter(1)),
            Some(KTerm::Factor(0)),
            Some(KTerm::MaxIter(0)),
        ],
    );
    let unders: Vec<Algo> = tier.pick(
        vec![Algo::Dijkstra],
        vec![Algo::Dijkstra, Algo::AStar(Some(1.0))],
    );
    let mut out = vec![];
    for k in ks.iter() {
        for (si, sim) in sims.iter().enumerate() {
            for (ti, term) in terms.iter().enumerate() {
                for under in unders.iter() {
                    // Yen's in the quick tier: a covering subset, because most of its cases cost a full timeout
                    if yens && tier == Tier::Quick && (*k + si + ti) % 2 != 0 {
                        continue;
                    }
                    let a = if yens {
                        Algo::Yens {
                            k: *k,
                            under: Box::new(under.clone()),
                            sim: sim.clone(),
                            term: term.clone(),
                        }
                    } else {
                        Algo::SingleVia {
                            k: *k,
                            under: Box::new(under.clone()),
                            sim: sim.clone(),
                            term: term.clone(),
                        }
                    };
                    out.push((a, None));
                }
            }
        }
    }
    // k from the query overriding a configured k = 1
    for qk in [2usize, 3] {
        let a = if yens {
            Algo::Yens {
                k: 1,
                under: Box::new(Algo::Dijkstra),
                sim: Some(Sim::EdgeCos(0.99)),
                term: None,
            }
        } else {
            Algo::SingleVia {
                k: 1,
                under: Box::new(Algo::Dijkstra),
                sim: Some(Sim::EdgeCos(0.99)),
                term: None,
            }
        };
        out.push((a, Some(qk)));
    }
    out
}

fn specs(yens: bool, tier: Tier) -> Vec<GenSpec> {
    match (yens, tier) {
        (false, Tier::Quick) => vec![
            GenSpec {
                n: 3,
                max_edges: 5,
                max_mult: 2,
                n_len: 2,
                self_loops: false,
                mode: LenMode::Alphabet,
            },
            GenSpec {
                n: 4,
                max_edges: 5,
                max_mult: 2,
                n_len: 1,
                self_loops: false,
                mode: LenMode::PowersOfTwo,
            },
        ],
        (false, Tier::Thorough) => vec![
            GenSpec {
                n: 3,
                max_edges: 5,
                max_mult: 2,
                n_len: 2,
                self_loops: true,
                mode: LenMode::Alphabet,
            },
            GenSpec {
                n: 4,
                max_edges: 5,
                max_mult: 2,
                n_len: 2,
                self_loops: false,
                mode: LenMode::Alphabet,
            },
            GenSpec {
                n: 4,
                max_edges: 6,
                max_mult: 2,
                n_len: 1,
                self_loops: false,
                mode: LenMode::PowersOfTwo,
            },
            GenSpec {
                n: 5,
                max_edges: 6,
                max_mult: 1,
                n_len: 1,
                self_loops: false,
                mode: LenMode::PowersOfTwo,
            },
        ],
        (true, Tier::Quick) => vec![
            GenSpec {
                n: 3,
                max_edges: 4,
                max_mult: 2,
                n_len: 1,
                self_loops: false,
                mode: LenMode::PowersOfTwo,
            },
            GenSpec {
                n: 4,
                max_edges: 3,
                max_mult: 1,
                n_len: 1,
                self_loops: false,
                mode: LenMode::PowersOfTwo,
            },
        ],
        (true, Tier::Thorough) => vec![
            GenSpec {
                n: 3,
                max_edges: 5,
                max_mult: 2,
                n_len: 1,
                self_loops: false,
                mode: LenMode::PowersOfTwo,
            },
            GenSpec {
                n: 4,
                max_edges: 5,
                max_mult: 2,
                n_len: 1,
                self_loops: false,
                mode: LenMode::PowersOfTwo,
            },
        ],
    }
}

/// six vertices: the corridor 0 -> 1 -> 2 -> 5 (three edges, the least-cost route) and every subset of ten further edges
/// through the side vertices 3 and 4 (detours that leave the corridor at 0, 1 or 2, shortcuts, ways back into it), under
/// one (quick) or two (thorough) length tables that keep the corridor cheapest
fn braided_corridors(tier: Tier) -> Vec<Net> {
    let menu: [(usize, usize); 10] = [
        (1, 3),
        (3, 4),
        (4, 5),
        (1, 5),
        (3, 5),
        (0, 3),
        (3, 2),
        (2, 4),
        (0, 2),
        (4, 2),
    ];
    let tables: Vec<[f64; 10]> = tier.pick(
        vec![[1.0, 1.0, 1.0, 10.0, 5.0, 3.0, 1.0, 1.0, 2.5, 1.0]],
        vec![
            [1.0, 1.0, 1.0, 10.0, 5.0, 3.0, 1.0, 1.0, 2.5, 1.0],
            [1.0, 1.37, 1.74, 2.11, 2.48, 2.85, 3.22, 3.59, 3.96, 4.33],
        ],
    );
    let mut out = vec![];
    for t in tables.iter() {
        for mask in 0u32..1024 {
            if mask.count_ones() < 3 {
                continue;
            }
            let mut edges = vec![(0usize, 1usize, 1.0), (1, 2, 1.0), (2, 5, 1.0)];
            for (i, (a, b)) in menu.iter().enumerate() {
                if mask & (1 << i) != 0 {
                    edges.push((*a, *b, t[i]));
                }
            }
            out.push(Net {
                n: 6,
                edges,
                xy: None,
            });
        }
    }
    out
}

/// a trunk edge 0 -> 1 of length 1 / 30 / 1000, then from 1 to the destination a direct edge and one or two detours of 2-4 short
/// edges: alternatives that differ much in their number of edges and still share most of their length (or almost none of it)
fn trunk_nets() -> Vec<Net> {
    let mut out = vec![];
    for trunk in [1.0, 30.0, 1000.0] {
        for d1 in 2..=4usize {
            for d2 in [0usize, 2, 3] {
                for direct in [1.0, 6.0] {
                    // vertices: 0, 1, detour interiors..., destination last
                    let mut edges = vec![(0usize, 1usize, trunk)];
                    let inner = (d1 - 1) + if d2 > 0 { d2 - 1 } else { 0 };
                    let dest = 2 + inner;
                    edges.push((1, dest, direct));
                    let mut next_v = 2;
                    for (di, d) in [d1, d2].iter().enumerate() {
                        if *d == 0 {
                            continue;
                        }
                        let mut at = 1usize;
                        for step in 0..*d {
                            let to = if step + 1 == *d {
                                dest
                            } else {
                                next_v += 1;
                                next_v - 1
                            };
                            edges.push((at, to, 1.1 + di as f64 * 0.3 + step as f64 * 0.01));
                            at = to;
                        }
                    }
                    out.push(Net {
                        n: dest + 1,
                        edges,
                        xy: None,
                    });
                }
            }
        }
    }
    out
}

/// three corridors from 0 to the destination: A = 0 -> 1 -> D, B = 0 -> 2 -> D, and C which shares one edge with A or with B
/// (its first or its last) and goes round through a further vertex; lengths put them in the order A < B < C or A < C < B. A
/// third route has to be judged against *every* route accepted before it, not only against the latest one
fn fork_nets() -> Vec<Net> {
    let mut out = vec![];
    for shared_with_a in [true, false] {
        for share_first in [true, false] {
            for c_before_b in [false, true] {
                for extra_tail in [false, true] {
                    // vertices: 0 origin, 1 on A, 2 on B, 3 on C, (4 on C when its private part has three edges), destination last
                    let d = if extra_tail { 5 } else { 4 };
                    let (la, lb, lc) = if c_before_b {
                        (1.0, 1.6, 1.2)
                    } else {
                        (1.0, 1.1, 1.5)
                    };
                    let mut edges = vec![(0usize, 1usize, la), (1, d, la), (0, 2, lb), (2, d, lb)];
                    let mid = if shared_with_a { 1 } else { 2 };
                    if share_first {
                        // 0 -> mid shared, then mid -> 3 (-> 4) -> D
                        edges.push((mid, 3, lc));
                        if extra_tail {
                            edges.push((3, 4, 0.01));
                            edges.push((4, d, lc));
                        } else {
                            edges.push((3, d, lc));
                        }
                    } else {
                        // 0 -> 3 (-> 4) -> mid, then mid -> D shared
                        edges.push((0, 3, lc));
                        if extra_tail {
                            edges.push((3, 4, 0.01));
                            edges.push((4, mid, lc));
                        } else {
                            edges.push((3, mid, lc));
                        }
                    }
                    out.push(Net {
                        n: d + 1,
                        edges,
                        xy: None,
                    });
                }
            }
        }
    }
    out
}

struct Space {
    nets: Vec<Net>,
    algos: Vec<(Algo, Option<usize>)>,
    /// a second, larger family under a reduced configuration list (single-via, quick tier): five vertices make room for a
    /// one-way cycle beside the least-cost route, which a via route can run around
    extra_nets: Vec<Net>,
    extra_algos: Vec<(Algo, Option<usize>)>,
    /// a third family with its own configuration list (single-via): a long shared trunk, see trunk_nets
    trunk_nets: Vec<Net>,
    trunk_algos: Vec<(Algo, Option<usize>)>,
}
impl Space {
    fn new(yens: bool, tier: Tier) -> Space {
        let (extra_nets, extra_algos) = if !yens && tier == Tier::Quick {
            (
                nets(&[GenSpec {
                    n: 5,
                    max_edges: 5,
                    max_mult: 1,
                    n_len: 1,
                    self_loops: false,
                    mode: LenMode::PowersOfTwo,
                }])
                .into_iter()
                .filter(|n| n.m() >= 4)
                .collect(),
                vec![
                    (
                        Algo::SingleVia {
                            k: 3,
                            under: Box::new(Algo::Dijkstra),
                            sim: Some(Sim::AcceptAll),
                            term: None,
                        },
                        None,
                    ),
                    (
                        Algo::SingleVia {
                            k: 3,
                            under: Box::new(Algo::AStar(Some(1.0))),
                            sim: Some(Sim::EdgeCos(0.99)),
                            term: None,
                        },
                        None,
                    ),
                ],
            )
        } else if yens {
            // Yen's second round: a three-edge least-cost route and k >= 3 make the algorithm branch off a route accepted in
            // the first round (see braided_corridors)
            // (k = 4: the second round of a three-edge least-cost route yields routes three and four)
            let mut algos = vec![(
                Algo::Yens {
                    k: 4,
                    under: Box::new(Algo::Dijkstra),
                    sim: Some(Sim::AcceptAll),
                    term: None,
                },
                None,
            )];
            if tier == Tier::Thorough {
                algos.push((
                    Algo::Yens {
                        k: 3,
                        under: Box::new(Algo::Dijkstra),
                        sim: Some(Sim::AcceptAll),
                        term: None,
                    },
                    None,
                ));
                algos.push((
                    Algo::Yens {
                        k: 4,
                        under: Box::new(Algo::Dijkstra),
                        sim: None,
                        term: None,
                    },
                    None,
                ));
                algos.push((
                    Algo::Yens {
                        k: 1,
                        under: Box::new(Algo::AStar(Some(1.0))),
                        sim: Some(Sim::EdgeCos(0.99)),
                        term: None,
                    },
                    Some(3),
                ));
            }
            (braided_corridors(tier), algos)
        } else {
            (vec![], vec![])
        };
        let (trunk_nets, trunk_algos) = if yens {
            (vec![], vec![])
        } else {
            let mut a = vec![];
            for k in [2usize, 3] {
                for under in [Algo::Dijkstra, Algo::AStar(Some(1.0))] {
                    for sim in [Sim::DistCos(0.7), Sim::DistCos(0.5), Sim::EdgeCos(0.7)] {
                        a.push((
                            Algo::SingleVia {
                                k,
                                under: Box::new(under.clone()),
                                sim: Some(sim),
                                term: None,
                            },
                            None,
                        ));
                    }
                }
            }
            // the fork family wants low thresholds (one shared edge of two or three) and room for a third and fourth route
            for k in [3usize, 4] {
                for sim in [Sim::EdgeCos(0.3), Sim::EdgeCos(0.45), Sim::DistCos(0.3)] {
                    a.push((
                        Algo::SingleVia {
                            k,
                            under: Box::new(Algo::Dijkstra),
                            sim: Some(sim),
                            term: None,
                        },
                        None,
                    ));
                }
            }
            let mut nets = trunk_nets();
            nets.extend(fork_nets());
            // connectors of length zero: a route made of them alone has no length to weigh its edges by (the distance-weighted
            // cosine has nothing to divide by); the query is answerable all the same
            nets.push(Net {
                n: 3,
                edges: vec![(0, 2, 0.0), (0, 1, 1.0), (1, 2, 1.0)],
                xy: None,
            });
            nets.push(Net {
                n: 4,
                edges: vec![(0, 1, 0.0), (1, 3, 0.0), (0, 2, 1.0), (2, 3, 1.0)],
                xy: None,
            });
            nets.push(Net {
                n: 4,
                edges: vec![(0, 1, 0.0), (1, 3, 1.0), (0, 2, 1.0), (2, 3, 1.5)],
                xy: None,
            });
            nets.push(Net {
                n: 4,
                edges: vec![(0, 1, 1.0), (1, 3, 1.0), (0, 2, 0.0), (2, 3, 0.0)],
                xy: None,
            });
            (nets, a)
        };
        Space {
            nets: nets(&specs(yens, tier)),
            algos: ksp_algos(yens, tier),
            extra_nets,
            extra_algos,
            trunk_nets,
            trunk_algos,
        }
    }
    fn main_len(&self) -> u64 {
        (self.nets.len() * self.algos.len()) as u64
    }
    fn len(&self) -> u64 {
        self.main_len()
            + (self.extra_nets.len() * self.extra_algos.len()) as u64
            + (self.trunk_nets.len() * self.trunk_algos.len()) as u64
    }
    fn case(&self, i: u64) -> Case {
        let extra_len = (self.extra_nets.len() * self.extra_algos.len()) as u64;
        if i >= self.main_len() + extra_len {
            let j = (i - self.main_len() - extra_len) as usize;
            let net = self.trunk_nets[j / self.trunk_algos.len()].clone();
            let a = &self.trunk_algos[j % self.trunk_algos.len()];
            return Case {
                net,
                algo: a.0.clone(),
                query_k: a.1,
                speed_world: false,
            };
        }
        if i >= self.main_len() {
            let j = (i - self.main_len()) as usize;
            let net = self.extra_nets[j / self.extra_algos.len()].clone();
            let a = &self.extra_algos[j % self.extra_algos.len()];
            return Case {
                net,
                algo: a.0.clone(),
                query_k: a.1,
                speed_world: false,
            };
        }
        let ni = i as usize / self.algos.len();
        let ai = i as usize % self.algos.len();
        let net = self.nets[ni].clone();
        let speed_world = net.hash_idx() % 5 == 0;
        Case {
            net,
            algo: self.algos[ai].0.clone(),
            query_k: self.algos[ai].1,
            speed_world,
        }
    }
}

fn k_of(c: &Case) -> usize {
    c.query_k.unwrap_or(match &c.algo {
        Algo::SingleVia { k, .. } | Algo::Yens { k, .. } => *k,
        _ => 1,
    })
}
fn sim_of(c: &Case) -> Option<Sim> {
    match &c.algo {
        Algo::SingleVia { sim, .. } | Algo::Yens { sim, .. } => sim.clone(),
        _ => None,
    }
}

/// names the failing site: algorithm, k class, similarity kind, and the length class of the shortest path
pub fn component(c: &Case) -> String {
    let w = World::distance(c.net.clone());
    let n = c.net.n;
    let bf_hops = {
        // hop count of a least-cost path (reference): BFS layers over edges on some shortest path
        let cost_of = |e: usize| Some(w.ref_edge_cost(None, e));
        let d = bellman_ford(&c.net, 0, true, &cost_of);
        let mut best: Option<usize> = None;
        for p in crate::refmodel::graph::simple_paths(&c.net, 0, n - 1, &|_| true) {
            let cst: f64 = p.iter().map(|e| w.ref_edge_cost(None, *e)).sum();
            if close(cst, d[n - 1], 1e-9) {
                best = Some(best.map_or(p.len(), |b: usize| b.min(p.len())));
            }
        }
        best
    };
    let sp = match bf_hops {
        None => "unreachable",
        Some(1) => "sp1",
        Some(2) => "sp2",
        Some(_) => "sp3plus",
    };
    let sim = match sim_of(c) {
        None => "default_similarity",
        Some(Sim::AcceptAll) => "accept_all",
        Some(Sim::EdgeCos(_)) => "edge_id_cosine",
        Some(Sim::DistCos(_)) => "distance_cosine",
    };
    let k = k_of(c);
    format!(
        "{}.k{}.{}.{}",
        c.algo.component(),
        if k == 1 {
            "1".to_string()
        } else {
            "2plus".to_string()
        },
        sim,
        sp
    )
}

fn ref_similarity(net: &Net, a: &[usize], b: &[usize], weighted: bool) -> f64 {
    let wt = |e: usize| if weighted { net.edges[e].2 } else { 1.0 };
    let mut num = 0.0;
    for e in a.iter().collect::<std::collections::BTreeSet<_>>() {
        if b.contains(e) {
            num += wt(*e) * wt(*e);
        }
    }
    let da: f64 = a
        .iter()
        .collect::<std::collections::BTreeSet<_>>()
        .iter()
        .map(|e| wt(**e) * wt(**e))
        .sum();
    let db: f64 = b
        .iter()
        .collect::<std::collections::BTreeSet<_>>()
        .iter()
        .map(|e| wt(**e) * wt(**e))
        .sum();
    num / (da.sqrt() * db.sqrt())
}

pub fn check_case(c: &Case, st: &mut Stats) -> Option<usize> {
    st.evaluations += 1;
    st.transitions += 1;
    st.traces += 1;
    let net = &c.net;
    let n = net.n;
    let w = if c.speed_world && net.m() > 0 {
        crate::props::c01::speed_turn_world(net)
    } else {
        World::distance(net.clone())
    };
    let si = match w.si() {
        Ok(si) => si,
        Err(e) => {
            st.violation(
                "harness",
                "si_build",
                0,
                || e.clone(),
                || json!({"case": c}),
            );
            return None;
        }
    };
    let query = match c.query_k {
        Some(k) => json!({"k": k}),
        None => json!({}),
    };
    let orient = Orient::Vertex {
        o: 0,
        d: Some(n - 1),
    };
    let out = run_search(&si, &c.algo, &orient, false, &query);
    st.outcome(out.kind());
    let comp = component(c);
    let size = net.size() * 10 + k_of(c) as u64;
    let case = || json!({"case": c});
    let reach = reachable(net, 0, true, &|_| true)[n - 1];
    let k = k_of(c);
    if !reach {
        // outside the statement ("when the destination is reachable"); still must not panic
        if let Outcome::Panic(p) = &out {
            st.violation(&comp, "no_panic", size, || p.clone(), case);
        }
        return None;
    }
    st.nontrivial +=
        (crate::refmodel::graph::simple_paths(net, 0, n - 1, &|_| true).len() >= 2) as u64;
    match &out {
        Outcome::Panic(p) => {
            st.violation(&comp, "no_panic", size, || p.clone(), case);
            None
        }
        Outcome::NoPath(e) | Outcome::Terminated(e) | Outcome::OtherErr(e) => {
            st.violation(
                &comp,
                "answerable_query_is_not_an_error",
                size,
                || e.clone(),
                case,
            );
            None
        }
        Outcome::Ok { routes, .. } => {
            // a: between one and k routes
            if routes.is_empty() || routes.len() > k {
                st.violation(
                    &comp,
                    "between_one_and_k_routes",
                    size,
                    || format!("k = {} but {} routes: {}", k, routes.len(), out.text()),
                    case,
                );
            } else {
                st.pass("between_one_and_k_routes");
            }
            if routes.is_empty() {
                return Some(0);
            }
            // b: the first is a least-cost route (costs independent of the previous edge only in the distance world)
            // (A* on non-metric networks is not claimed to be optimal, see C02)
            let under_dijkstra = matches!(&c.algo, Algo::SingleVia { under, .. } | Algo::Yens { under, .. } if **under == Algo::Dijkstra);
            if !c.speed_world && under_dijkstra {
                let cost_of = |e: usize| Some(w.ref_edge_cost(None, e));
                let bf = bellman_ford(net, 0, true, &cost_of);
                let got = route_cost(&routes[0]);
                if close(got, bf[n - 1], w.tol()) {
                    st.pass("first_route_is_least_cost");
                } else {
                    st.violation(
                        &comp,
                        "first_route_is_least_cost",
                        size,
                        || {
                            format!(
                                "first route {:?} costs {} but least cost is {}",
                                route_ids(&routes[0]),
                                got,
                                bf[n - 1]
                            )
                        },
                        case,
                    );
                }
            }
            // b': in every world, the first route is no dearer than the route the underlying search alone returns for the
            // same query (if it is, a cheaper route exists and the first is not a least-cost one)
            {
                let under = match &c.algo {
                    Algo::SingleVia { under, .. } | Algo::Yens { under, .. } => (**under).clone(),
                    other => other.clone(),
                };
                if let Outcome::Ok { routes: plain, .. } =
                    run_search(&si, &under, &orient, false, &json!({}))
                {
                    if let Some(p) = plain.first() {
                        let (got, alone) = (route_cost(&routes[0]), route_cost(p));
                        if got <= alone || close(got, alone, w.tol()) {
                            st.pass("first_route_no_dearer_than_the_underlying_search_alone");
                        } else {
                            st.violation(&comp, "first_route_no_dearer_than_the_underlying_search_alone", size, || format!("first route {:?} costs {} but the underlying search alone returns {:?} at {}", route_ids(&routes[0]), got, route_ids(p), alone), case);
                        }
                    }
                }
            }
            // c: every route valid, loop free, correctly accumulated
            for (ri, r) in routes.iter().enumerate() {
                let ids = route_ids(r);
                let mut bad = route_structure(net, &ids, &orient, false);
                let verts: Vec<usize> = std::iter::once(0)
                    .chain(
                        ids.iter()
                            .filter(|e| **e < net.m())
                            .map(|e| net.edges[*e].1),
                    )
                    .collect();
                let mut seen = std::collections::HashSet::new();
                if !verts.iter().all(|v| seen.insert(*v)) {
                    bad.push(("route_is_loop_free", format!("vertices {:?}", verts)));
                }
                if bad.is_empty() {
                    bad.extend(route_accumulation(&w, r, &orient, false));
                }
                if bad.is_empty() {
                    st.pass("every_route_valid_loop_free_accumulated");
                }
                for (cl, d) in bad {
                    st.violation(
                        &comp,
                        cl,
                        size,
                        || format!("route #{} {:?}: {}", ri, ids, d),
                        case,
                    );
                }
            }
            // d: pairwise distinct; e: pairwise dissimilar under the configured threshold
            let ids: Vec<Vec<usize>> = routes.iter().map(|r| route_ids(r)).collect();
            let mut distinct = true;
            let mut dissimilar = true;
            for i in 0..ids.len() {
                for j in i + 1..ids.len() {
                    if ids[i] == ids[j] {
                        distinct = false;
                        st.violation(
                            &comp,
                            "no_two_routes_share_an_edge_sequence",
                            size,
                            || format!("routes #{} and #{} are both {:?}", i, j, ids[i]),
                            case,
                        );
                    }
                    let (thr, weighted) = match sim_of(c) {
                        Some(Sim::EdgeCos(t)) => (Some(t), false),
                        Some(Sim::DistCos(t)) => (Some(t), true),
                        _ => (None, false),
                    };
                    if let Some(t) = thr {
                        let s = ref_similarity(net, &ids[i], &ids[j], weighted);
                        if (s - t).abs() < 1e-9 {
                            st.skipped_boundary += 1;
                        } else if s >= t {
                            dissimilar = false;
                            st.violation(
                                &comp,
                                "no_two_routes_more_similar_than_threshold",
                                size,
                                || {
                                    format!(
                                        "routes {:?} and {:?} have similarity {} >= {}",
                                        ids[i], ids[j], s, t
                                    )
                                },
                                case,
                            );
                        }
                    }
                }
            }
            if distinct {
                st.pass("no_two_routes_share_an_edge_sequence");
            }
            if dissimilar {
                st.pass("no_two_routes_more_similar_than_threshold");
            }
            Some(routes.len())
        }
    }
}

/// clause f for one net / k: accept-all returns at least as many routes as any threshold (single-via)
fn check_accept_all(net: &Net, k: usize, st: &mut Stats) {
    let mk = |sim: Option<Sim>| Case {
        net: net.clone(),
        algo: Algo::SingleVia {
            k,
            under: Box::new(Algo::Dijkstra),
            sim,
            term: None,
        },
        query_k: None,
        speed_world: false,
    };
    let mut scratch = Stats::new();
    let base_default = check_case(&mk(None), &mut scratch);
    let base_explicit = check_case(&mk(Some(Sim::AcceptAll)), &mut scratch);
    for sim in [
        Sim::EdgeCos(0.3),
        Sim::EdgeCos(0.99),
        Sim::DistCos(0.5),
        Sim::DistCos(0.99),
        Sim::EdgeCos(1.0),
        Sim::EdgeCos(1.5),
        Sim::DistCos(1.0),
    ] {
        st.evaluations += 1;
        st.transitions += 1;
        let with = check_case(&mk(Some(sim.clone())), &mut scratch);
        for (name, base) in [
            ("default_similarity", base_default),
            ("accept_all", base_explicit),
        ] {
            if let (Some(a), Some(b)) = (base, with) {
                let comp = format!(
                    "ksp_single_via.k{}.{}",
                    if k == 1 { "1" } else { "2plus" },
                    name
                );
                if a >= b {
                    st.pass("accept_all_returns_at_least_as_many_routes");
                } else {
                    st.violation(
                        &comp,
                        "accept_all_returns_at_least_as_many_routes",
                        net.size(),
                        || {
                            format!(
                                "k = {}: {} returns {} routes but {:?} returns {}",
                                k, name, a, sim, b
                            )
                        },
                        || json!({"net": net, "k": k, "similarity": sim}),
                    );
                }
            }
        }
    }
}

/// edge-oriented queries: every ordered pair of distinct, non-adjacent edges whose destination edge can be reached,
/// single-via with k = 3: at most k routes, pairwise distinct, each a walk from the origin edge to the destination edge
/// with correctly accumulated state (the wrapper composes origin edge + vertex route + destination edge per route)
fn check_edge_oriented(net: &Net, st: &mut Stats) {
    let m = net.m();
    if m < 3 {
        return;
    }
    let idx = net.hash_idx() as usize;
    let w = if idx % 2 == 0 {
        crate::props::c01::speed_turn_world(net)
    } else {
        World::distance(net.clone())
    };
    let si = match w.si() {
        Ok(si) => si,
        Err(_) => return,
    };
    let sims = [Some(Sim::AcceptAll), Some(Sim::EdgeCos(0.99)), None];
    let algo = Algo::SingleVia {
        k: 3,
        under: Box::new(if idx % 3 == 0 {
            Algo::AStar(Some(1.0))
        } else {
            Algo::Dijkstra
        }),
        sim: sims[idx % 3].clone(),
        term: None,
    };
    for o in 0..m {
        for d in 0..m {
            if o == d || net.edges[o].1 == net.edges[d].0 {
                continue;
            }
            // the destination edge must be reachable from the head of the origin edge
            if !reachable(net, net.edges[o].1, true, &|_| true)[net.edges[d].0] {
                continue;
            }
            st.evaluations += 1;
            st.transitions += 1;
            st.traces += 1;
            let orient = Orient::Edge { o, d: Some(d) };
            let out = run_search(&si, &algo, &orient, false, &json!({}));
            let comp = "ksp_single_via.edge_oriented".to_string();
            let size = net.size() * 10 + 3;
            let case = || json!({"edge_oriented": true, "net": net, "origin_edge": o, "destination_edge": d, "algo": algo, "speed_world": idx % 2 == 0});
            match &out {
                Outcome::Panic(p) => st.violation(&comp, "no_panic", size, || p.clone(), case),
                Outcome::NoPath(e) | Outcome::Terminated(e) | Outcome::OtherErr(e) => st.violation(
                    &comp,
                    "answerable_query_is_not_an_error",
                    size,
                    || e.clone(),
                    case,
                ),
                Outcome::Ok { routes, .. } => {
                    if routes.is_empty() || routes.len() > 3 {
                        st.violation(
                            &comp,
                            "between_one_and_k_routes",
                            size,
                            || format!("k = 3 but {} routes", routes.len()),
                            case,
                        );
                    } else {
                        st.pass("between_one_and_k_routes");
                    }
                    if routes.len() >= 2 {
                        st.nontrivial += 1;
                    }
                    let ids: Vec<Vec<usize>> = routes.iter().map(|r| route_ids(r)).collect();
                    for i in 0..ids.len() {
                        for j in i + 1..ids.len() {
                            if ids[i] == ids[j] {
                                st.violation(
                                    &comp,
                                    "no_two_routes_share_an_edge_sequence",
                                    size,
                                    || format!("routes #{} and #{} are both {:?}", i, j, ids[i]),
                                    case,
                                );
                            }
                        }
                    }
                    for (ri, r) in routes.iter().enumerate() {
                        let mut bad = route_structure(net, &ids[ri], &orient, false);
                        if bad.is_empty() {
                            bad.extend(route_accumulation(&w, r, &orient, false));
                        }
                        if bad.is_empty() {
                            st.pass("every_route_valid_loop_free_accumulated");
                        }
                        for (cl, dtl) in bad {
                            st.violation(
                                &comp,
                                cl,
                                size,
                                || format!("route #{} {:?}: {}", ri, ids[ri], dtl),
                                case,
                            );
                        }
                    }
                }
            }
        }
    }
}

pub fn worker(args: &[String]) -> i32 {
    // args: <tier> <single_via|yens|accept_all>
    let tier = if args.first().map(|s| s.as_str()) == Some("thorough") {
        Tier::Thorough
    } else {
        Tier::Quick
    };
    let mode = args.get(1).cloned().unwrap_or_default();
    match mode.as_str() {
        "accept_all" => {
            let nets = nets(&specs(false, tier));
            worker_loop(|i, st| {
                let net = &nets[i as usize / 3];
                let k = 2 + (i as usize % 3);
                st.states += 1;
                check_accept_all(net, k, st);
            })
        }
        _ => {
            let space = Space::new(mode == "yens", tier);
            worker_loop(|i, st| {
                let c = space.case(i);
                if i < space.main_len() && i as usize % space.algos.len() == 0 {
                    st.states += 1;
                    if mode != "yens" {
                        check_edge_oriented(&c.net, st);
                    }
                }
                check_case(&c, st);
                if i == 1234 || i == 77 {
                    st.sample(2, || json!({"case": c}));
                }
            })
        }
    }
}

pub fn run(tier: Tier) -> i32 {
    let info = RunInfo::new("C13", tier);
    let mut total = Stats::new();
    let mut bounds = serde_json::Map::new();
    let budget = Duration::from_secs(tier.pick(45, 1200));
    for (mode, yens, block) in [
        ("single_via", false, 256u64),
        ("yens", true, 4u64),
        ("accept_all", false, 64u64),
    ] {
        let n = if mode == "accept_all" {
            nets(&specs(false, tier)).len() as u64 * 3
        } else {
            Space::new(yens, tier).len()
        };
        let cfg = SandboxCfg {
            worker_args: vec![
                "--worker".into(),
                "C13".into(),
                tier.as_str().into(),
                mode.into(),
            ],
            n_workers: 16,
            case_timeout: Duration::from_millis(if yens { 100 } else { 2000 }),
            block,
            budget,
        };
        let (st, fates) = match run_cases(&cfg, n) {
            Ok(x) => x,
            Err(e) => {
                println!("MACHINERY-ERROR sandbox: {}", e);
                return 2;
            }
        };
        total.merge(st);
        bounds.insert(format!("{}_cases", mode), json!(n));
        bounds.insert(format!("{}_hung_or_died", mode), json!(fates.len()));
        if mode == "accept_all" {
            for (i, f) in fates {
                total.violation(
                    "ksp_single_via.accept_all_comparison",
                    "terminates",
                    i,
                    || format!("{:?}", f),
                    || json!({"index": i}),
                );
            }
            continue;
        }
        let space = Space::new(yens, tier);
        for (i, f) in fates {
            let c = space.case(i);
            let comp = component(&c);
            let size = c.net.size() * 10 + k_of(&c) as u64;
            total.evaluations += 1;
            total.transitions += 1;
            match f {
                Fate::Hang { waited_ms } => total.violation(&comp, "terminates", size, || format!("no answer after {} ms (second attempt, alone); nominal cost of a case is < 1 ms", waited_ms), || json!({"case": c})),
                Fate::Died { how } => total.violation(&comp, "does_not_abort", size, || how.clone(), || json!({"case": c})),
            }
        }
    }
    let desc_sv: Vec<String> = specs(false, tier).iter().map(|s| s.describe()).collect();
    let desc_y: Vec<String> = specs(true, tier).iter().map(|s| s.describe()).collect();
    bounds.insert("single_via_graph_families".into(), json!(desc_sv));
    bounds.insert("yens_graph_families".into(), json!(desc_y));
    bounds.insert(
        "algorithm_configurations_single_via".into(),
        json!(ksp_algos(false, tier).len()),
    );
    bounds.insert(
        "algorithm_configurations_yens".into(),
        json!(ksp_algos(true, tier).len()),
    );
    finish(
        &info,
        total,
        "state = one labelled multigraph; transition = one real k-shortest-paths run (algorithm x k x similarity x termination criterion x underlying search, k from configuration or query) executed in a sandbox worker process with a per-case deadline; clauses: 1..k routes, first is least cost, every route valid / loop free / correctly accumulated, pairwise distinct, pairwise dissimilar, accept-all >= any threshold, terminates; non-trivial = at least two simple o-d paths",
        true,
        Value::Object(bounds),
        vec![
            "a case is classified as a hang only after a second attempt alone with a 4x deadline (400 ms for Yen's, 8 s otherwise; nominal cost < 1 ms)".into(),
            "Yen's quick tier uses a covering half of its configuration product because most of its cases cost a full timeout on this tree".into(),
            "C01/C03 route clauses are evaluated on Yen's routes here (signature yens.*/route_*, state_is_sum_over_edges)".into(),
        ],
    )
}

pub fn replay(case: &Value) -> i32 {
    let case = if case
        .get("case")
        .and_then(|c| c.get("edge_oriented"))
        .is_some()
    {
        &case["case"]
    } else {
        case
    };
    if case.get("edge_oriented").is_some() {
        // an edge-oriented case: every pair of edges of its network is run again, the recorded pair among them
        let net: Net = match serde_json::from_value(case["net"].clone()) {
            Ok(n) => n,
            Err(e) => {
                println!("MACHINERY-ERROR cannot parse net: {}", e);
                return 2;
            }
        };
        let mut st = Stats::new();
        check_edge_oriented(&net, &mut st);
        for (k, g) in st.violations.iter() {
            println!("REPLAY-VIOLATION {} {}", k, g.detail);
        }
        println!(
            "replay: {} violated clauses over {} edge pairs",
            st.violations.len(),
            st.evaluations
        );
        return if st.violations.is_empty() { 0 } else { 1 };
    }
    let c: Case = match serde_json::from_value(case["case"].clone()) {
        Ok(c) => c,
        Err(e) => {
            println!("MACHINERY-ERROR cannot parse case: {}", e);
            return 2;
        }
    };
    println!("component {}", component(&c));
    // run under a watchdog: a hang is reported after 5 s
    let (tx, rx) = std::sync::mpsc::channel();
    let c2 = c.clone();
    std::thread::spawn(move || {
        let mut st = Stats::new();
        check_case(&c2, &mut st);
        let _ = tx.send(st);
    });
    match rx.recv_timeout(Duration::from_secs(5)) {
        Ok(st) => {
            for (k, g) in st.violations.iter() {
                println!("REPLAY-VIOLATION {} {}", k, g.detail);
            }
            println!(
                "replay: {} violated clauses; outcomes {:?}",
                st.violations.len(),
                st.outcomes
            );
            if st.violations.is_empty() {
                0
            } else {
                1
            }
        }
        Err(_) => {
            println!("REPLAY-VIOLATION terminates: no answer after 5 s");
            1
        }
    }
}
