//! C17 — grid search expands a query into exactly the Cartesian product of options
use crate::engine::{finish, guarded, RunInfo, Stats, Tier};
use routee_compass::app::compass::compass_app::apply_input_plugins;
use routee_compass::plugin::input::default::grid_search::plugin::GridSearchPlugin;
use routee_compass::plugin::input::input_plugin::InputPlugin;
use serde_json::{json, Map, Value};
use std::sync::Arc;

fn canon(v: &Value) -> String {
    match v {
        Value::Object(m) => {
            let mut keys: Vec<&String> = m.keys().collect();
            keys.sort();
            format!(
                "{{{}}}",
                keys.iter()
                    .map(|k| format!("{:?}:{}", k, canon(&m[*k])))
                    .collect::<Vec<_>>()
                    .join(",")
            )
        }
        Value::Array(a) => format!("[{}]", a.iter().map(canon).collect::<Vec<_>>().join(",")),
        other => other.to_string(),
    }
}

/// fields of the original query that object-valued options of grid field 0 / 1 / 2 collide with (kind 4)
const COLLIDING: [&str; 3] = ["origin_vertex", "tag", "extra2"];

/// element kinds of one grid field: 0 scalar, 1 object with one key, 2 object with two keys, 3 mixed, 4 object whose key
/// is also a field of the original query (the option must replace it, otherwise two combinations yield the same query),
/// 5 repeated options, 6 object-valued member over an object-valued field
fn field_values(field: usize, size: usize, kind: usize) -> Vec<Value> {
    (0..size)
        .map(|i| {
            let k = if kind == 3 { i % 3 } else { kind };
            match k {
                // the same option listed again right after itself (and once more at the end for longer lists): two combinations
                // that yield equal queries are still two of the n1 x ... x nm
                5 => json!(format!("r{}_{}", field, if i + 1 == size && size > 2 { 0 } else { i / 2 })),
                4 => json!({COLLIDING[field % 3]: format!("c{}_{}", field, i), format!("m{}", field): i}),
                // an object-valued member written over a field that already holds an object with other keys (the original
                // query's `tag`, or the `tag` written by an earlier grid field): the option's value replaces it whole
                6 => json!({"tag": {format!("s{}_{}", field, i): i, "deep": {format!("d{}", field): [i]}}, format!("m{}", field): i}),
                0 => {
                    if (field + i) % 2 == 0 {
                        json!(10 * field + i)
                    } else {
                        json!(format!("v{}_{}", field, i))
                    }
                }
                1 => json!({format!("m{}", field): format!("o{}", i)}),
                _ => json!({format!("m{}", field): i, format!("n{}", field): {"nested": [i, field]}}),
            }
        })
        .collect()
}

fn reference(query: &Value) -> Vec<Value> {
    let gs = match query.get("grid_search") {
        None => return vec![query.clone()],
        Some(g) => g.as_object().cloned().unwrap_or_default(),
    };
    let mut base = query.as_object().cloned().unwrap_or_default();
    base.remove("grid_search");
    let mut out = vec![Value::Object(base)];
    for (field, vals) in gs.iter() {
        let arr = match vals.as_array() {
            Some(a) => a,
            None => continue,
        };
        let mut next = vec![];
        for partial in out.iter() {
            for v in arr.iter() {
                let mut inst = partial.clone();
                match v {
                    Value::Object(o) => {
                        for (k, x) in o.iter() {
                            inst[k] = x.clone();
                        }
                    }
                    other => inst[field] = other.clone(),
                }
                next.push(inst);
            }
        }
        out = next;
    }
    out
}

fn permutations(n: usize) -> Vec<Vec<usize>> {
    if n == 0 {
        return vec![vec![]];
    }
    let mut out = vec![];
    for p in permutations(n - 1) {
        for pos in 0..=p.len() {
            let mut q = p.clone();
            q.insert(pos, n - 1);
            out.push(q);
        }
    }
    out
}

fn check_query(query: &Value, st: &mut Stats, nontrivial: bool) {
    st.states += 1;
    if nontrivial {
        st.nontrivial += 1;
    }
    let want = reference(query);
    let mut want_c: Vec<String> = want.iter().map(canon).collect();
    want_c.sort();
    let size = canon(query).len() as u64;
    let case = || json!({"query": query});
    // the plugin refuses a section whose text mentions "grid_search" (its error message says so): for those sections a
    // refusal is accepted, an expansion is accepted only if no generated query keeps a grid section
    let mentions = query
        .get("grid_search")
        .map(|g| g.to_string().contains("grid_search"))
        .unwrap_or(false);
    for route in ["plugin.process", "apply_input_plugins"] {
        st.evaluations += 1;
        st.transitions += 1;
        st.traces += 1;
        let got: Result<Result<Vec<Value>, String>, String> = guarded(|| {
            if route == "plugin.process" {
                let mut q = query.clone();
                GridSearchPlugin {}
                    .process(&mut q)
                    .map_err(|e| e.to_string())?;
                Ok(match q {
                    Value::Array(a) => a,
                    other => vec![other],
                })
            } else {
                let plugins: Vec<Arc<dyn InputPlugin>> = vec![Arc::new(GridSearchPlugin {})];
                apply_input_plugins(query, &plugins).map_err(|e| e.to_string())
            }
        });
        let comp = format!("grid_search.{}", route);
        match got {
            Err(p) => st.violation(&comp, "no_panic", size, || p.clone(), case),
            Ok(Err(_)) if mentions => st.pass("section_that_mentions_its_own_name_refused"),
            Ok(Err(e)) => st.violation(&comp, "expands_without_error", size, || e.clone(), case),
            Ok(Ok(list)) if mentions => {
                // accepted although the section mentions its own name: the expansion must still leave no grid section behind
                let product: usize = query["grid_search"]
                    .as_object()
                    .map(|m| {
                        m.values()
                            .filter_map(|v| v.as_array())
                            .map(|a| a.len())
                            .product()
                    })
                    .unwrap_or(1);
                if list.len() == product {
                    st.pass("count_is_product_of_sizes");
                } else {
                    st.violation(
                        &comp,
                        "count_is_product_of_sizes",
                        size,
                        || format!("{} queries, expected {}", list.len(), product),
                        case,
                    );
                }
                if list.iter().all(|q| q.get("grid_search").is_none()) {
                    st.pass("no_grid_section_left");
                } else {
                    st.violation(
                        &comp,
                        "no_grid_section_left",
                        size,
                        || "a generated query still has a grid_search key".to_string(),
                        case,
                    );
                }
            }
            Ok(Ok(list)) => {
                if list.len() == want.len() {
                    st.pass("count_is_product_of_sizes");
                } else {
                    st.violation(
                        &comp,
                        "count_is_product_of_sizes",
                        size,
                        || format!("{} queries, expected {}", list.len(), want.len()),
                        case,
                    );
                }
                let mut got_c: Vec<String> = list.iter().map(canon).collect();
                got_c.sort();
                if got_c == want_c {
                    st.pass("multiset_equals_cartesian_product");
                } else {
                    let missing: Vec<&String> = want_c
                        .iter()
                        .filter(|w| !got_c.contains(w))
                        .take(2)
                        .collect();
                    let extra: Vec<&String> = got_c
                        .iter()
                        .filter(|g| !want_c.contains(g))
                        .take(2)
                        .collect();
                    st.violation(
                        &comp,
                        "multiset_equals_cartesian_product",
                        size,
                        || format!("missing {:?} unexpected {:?}", missing, extra),
                        case,
                    );
                }
                if list.iter().all(|q| q.get("grid_search").is_none())
                    || query.get("grid_search").is_none()
                {
                    st.pass("no_grid_section_left");
                } else {
                    st.violation(
                        &comp,
                        "no_grid_section_left",
                        size,
                        || "a generated query still has a grid_search key".to_string(),
                        case,
                    );
                }
            }
        }
    }
}

/// options that are, contain or mention a grid section: exact key at the top of an option, deeper inside it, inside an
/// array, as a string value, as part of a key
fn special_options() -> Vec<Value> {
    vec![
        json!({"name": "sweep", "grid_search": {"speed": [10, 20, 30]}}),
        json!({"grid_search": {"speed": [10, 20]}}),
        json!({"grid_search": 7}),
        json!({"grid_search": []}),
        json!({"m9": {"grid_search": {"x": [1, 2]}}}),
        json!({"m9": [{"grid_search": {"x": [1]}}]}),
        json!([{"grid_search": {"x": [1, 2]}}]),
        json!("grid_search"),
        json!("run_grid_search_1"),
        json!({"grid_search_id": 1}),
        json!({"m9": "mentions grid_search"}),
    ]
}

fn mention_queries() -> Vec<Value> {
    let mut out = vec![];
    for special in special_options() {
        for size in 1..=3usize {
            for pos in 0..size {
                for others in [0usize, 1] {
                    // others: ordinary scalars / ordinary objects around the special option
                    let opts: Vec<Value> = (0..size)
                        .map(|i| {
                            if i == pos {
                                special.clone()
                            } else if others == 0 {
                                json!(i)
                            } else {
                                json!({"name": format!("plain{}", i)})
                            }
                        })
                        .collect();
                    for second in [None, Some(json!([1, 2])), Some(json!([{"k": 1}, {"k": 2}]))] {
                        for first in [true, false] {
                            let mut gs = Map::new();
                            if let (Some(x), true) = (&second, first) {
                                gs.insert("aa_other".to_string(), x.clone());
                            }
                            gs.insert("scenario".to_string(), Value::Array(opts.clone()));
                            if let (Some(x), false) = (&second, first) {
                                gs.insert("zz_other".to_string(), x.clone());
                            }
                            if second.is_none() && !first {
                                continue;
                            }
                            out.push(json!({"origin_vertex": 0, "grid_search": Value::Object(gs)}));
                        }
                    }
                }
            }
        }
    }
    out
}

/// a plugin of the user's ahead of grid search that turns one query into several (its `fan_out` list): some of them carry a
/// grid section and some do not, so the working list of the plugin chain holds expanded and unexpanded queries side by side
struct FanOut {}
impl InputPlugin for FanOut {
    fn process(
        &self,
        input: &mut Value,
    ) -> Result<(), routee_compass::plugin::input::InputPluginError> {
        if let Some(list) = input.get("fan_out").cloned() {
            *input = list;
        }
        Ok(())
    }
}

fn fan_out_members() -> Vec<Value> {
    vec![
        json!({"origin_vertex": 0, "label": "plain"}),
        json!({"origin_vertex": 1, "grid_search": {"alpha": [1, 2]}}),
        json!({"origin_vertex": 2, "grid_search": {"alpha": [{"m0": "a"}, {"m0": "b"}], "beta": ["x", "y"]}}),
        json!({"origin_vertex": 3, "grid_search": {"gamma": [7, 8, 9]}, "tag": {"keep": 1}}),
    ]
}

/// grid sections that also hold members which are not arrays (a comment, a flag, a number, an object, null): the plugin has
/// always skipped them; the array-valued fields around them must still be expanded under their own names. Every position of
/// one or two such members among one to three array-valued fields
fn stray_member_queries() -> Vec<Value> {
    let strays: Vec<(&str, Value)> = vec![
        ("comment", json!("sweep")),
        ("enabled", json!(true)),
        ("count", json!(3)),
        ("meta", json!({"by": "me"})),
        ("nothing", Value::Null),
    ];
    let fields: Vec<(&str, Value)> = vec![
        ("alpha", json!(["a", "b"])),
        ("beta", json!([1, 2, 3])),
        ("gamma", json!([{"m2": "x"}, "y"])),
    ];
    let mut out = vec![];
    for nf in 1..=3usize {
        for (si, s1) in strays.iter().enumerate() {
            for pos1 in 0..=nf {
                for second in [None, Some(&strays[(si + 2) % strays.len()])] {
                    for pos2 in 0..=nf {
                        if second.is_none() && pos2 > 0 {
                            continue;
                        }
                        let mut gs = Map::new();
                        for slot in 0..=nf {
                            if slot == pos1 {
                                gs.insert(s1.0.to_string(), s1.1.clone());
                            }
                            if let Some(s2) = second {
                                if slot == pos2 {
                                    gs.insert(s2.0.to_string(), s2.1.clone());
                                }
                            }
                            if slot < nf {
                                gs.insert(fields[slot].0.to_string(), fields[slot].1.clone());
                            }
                        }
                        out.push(json!({"origin_vertex": 0, "grid_search": Value::Object(gs)}));
                    }
                }
            }
        }
    }
    out
}

/// every list of 1-3 members (with repetition, tagged so that equal members stay distinct queries) behind the fan-out plugin
fn check_fan_out(st: &mut Stats) -> u64 {
    let members = fan_out_members();
    let mut lists: Vec<Vec<usize>> = vec![];
    for a in 0..members.len() {
        lists.push(vec![a]);
        for b in 0..members.len() {
            lists.push(vec![a, b]);
            for c in 0..members.len() {
                lists.push(vec![a, b, c]);
            }
        }
    }
    let plugins: Vec<Arc<dyn InputPlugin>> =
        vec![Arc::new(FanOut {}), Arc::new(GridSearchPlugin {})];
    for l in lists.iter() {
        st.states += 1;
        st.evaluations += 1;
        st.transitions += 1;
        st.traces += 1;
        st.nontrivial += 1;
        let list: Vec<Value> = l
            .iter()
            .enumerate()
            .map(|(i, m)| {
                let mut q = members[*m].clone();
                q["position"] = json!(i);
                q
            })
            .collect();
        let query = json!({"fan_out": list});
        let mut want_c: Vec<String> = list
            .iter()
            .flat_map(|q| reference(q))
            .map(|q| canon(&q))
            .collect();
        want_c.sort();
        let case = || json!({"fan_out_query": query});
        let comp = "grid_search.behind_a_fan_out_plugin";
        match guarded(|| apply_input_plugins(&query, &plugins).map_err(|e| e.to_string())) {
            Err(p) => st.violation(comp, "no_panic", l.len() as u64, || p.clone(), case),
            Ok(Err(e)) => st.violation(
                comp,
                "expands_without_error",
                l.len() as u64,
                || e.clone(),
                case,
            ),
            Ok(Ok(got)) => {
                let mut got_c: Vec<String> = got.iter().map(canon).collect();
                got_c.sort();
                if got_c == want_c {
                    st.pass("multiset_equals_cartesian_product");
                } else {
                    st.violation(
                        comp,
                        "multiset_equals_cartesian_product",
                        l.len() as u64,
                        || {
                            format!(
                                "{} queries, expected {}: got {:?}",
                                got_c.len(),
                                want_c.len(),
                                got_c.iter().take(4).collect::<Vec<_>>()
                            )
                        },
                        case,
                    );
                }
            }
        }
    }
    lists.len() as u64
}

const KINDS: usize = 7;
const NAMES: [&str; 3] = ["alpha", "beta", "gamma"];

fn sizes(tier: Tier) -> Vec<usize> {
    tier.pick(vec![1, 2, 3], vec![1, 2, 3, 4])
}

/// the cases: (number of grid fields, code of their sizes and element kinds)
fn cases(tier: Tier) -> Vec<(usize, usize)> {
    let ns = sizes(tier).len();
    let mut out = vec![];
    for m in 1..=3usize {
        for code in 0..ns.pow(m as u32) * KINDS.pow(m as u32) {
            out.push((m, code));
        }
    }
    out
}

/// one case: every key order of the grid section x extra fields x position of the section
fn check_case(tier: Tier, m: usize, code: usize, st: &mut Stats) {
    let sizes = sizes(tier);
    let extras_sets: Vec<Map<String, Value>> = vec![
        Map::new(),
        [
            ("origin_vertex".to_string(), json!(0)),
            ("tag".to_string(), json!({"keep": ["me", 1]})),
            ("extra2".to_string(), json!([2])),
        ]
        .into_iter()
        .collect(),
    ];
    let mut c = code;
    let mut fs = vec![];
    for f in 0..m {
        let size = sizes[c % sizes.len()];
        c /= sizes.len();
        let kind = c % KINDS;
        c /= KINDS;
        fs.push((NAMES[f].to_string(), field_values(f, size, kind)));
    }
    for perm in permutations(m) {
        for extras in extras_sets.iter() {
            for grid_first in [true, false] {
                let mut gs = Map::new();
                for p in perm.iter() {
                    gs.insert(fs[*p].0.clone(), Value::Array(fs[*p].1.clone()));
                }
                let mut q = Map::new();
                if grid_first {
                    q.insert("grid_search".to_string(), Value::Object(gs.clone()));
                }
                for (k, v) in extras.iter() {
                    q.insert(k.clone(), v.clone());
                }
                if !grid_first {
                    q.insert("grid_search".to_string(), Value::Object(gs.clone()));
                }
                let q = Value::Object(q);
                let nontrivial = fs.iter().map(|f| f.1.len()).product::<usize>() > 1;
                check_query(&q, st, nontrivial);
                if m == 2 && code == 37 && grid_first && extras.len() == 3 && perm[0] == 1 {
                    st.sample(3, || q.clone());
                }
            }
        }
    }
}

pub fn worker(args: &[String]) -> i32 {
    let tier = if args.first().map(|s| s.as_str()) == Some("thorough") {
        Tier::Thorough
    } else {
        Tier::Quick
    };
    let cs = cases(tier);
    crate::engine::sandbox::worker_loop(|i, st| {
        let (m, code) = cs[i as usize];
        check_case(tier, m, code, st);
    })
}

pub fn run(tier: Tier) -> i32 {
    let info = RunInfo::new("C17", tier);
    let max_fields = 3usize;
    let sizes = sizes(tier);
    // the expansions run in worker processes: one that does not come back (or allocates without bound) is a verdict about
    // that grid section, not the end of the check
    let cs = cases(tier);
    let cfg = crate::engine::sandbox::SandboxCfg {
        worker_args: vec!["--worker".into(), "C17".into(), tier.as_str().into()],
        n_workers: 16,
        case_timeout: std::time::Duration::from_secs(10),
        block: 32,
        budget: std::time::Duration::from_secs(tier.pick(600, 7200)),
    };
    let (mut st, fates) = match crate::engine::sandbox::run_cases(&cfg, cs.len() as u64) {
        Ok(x) => x,
        Err(e) => {
            println!("MACHINERY-ERROR sandbox: {}", e);
            return 2;
        }
    };
    for (i, fate) in fates.iter() {
        let (m, code) = cs[*i as usize];
        st.violation(
            "grid_search.expansion",
            "returns_in_bounded_time",
            (m * 100000 + code) as u64,
            || format!("grid section with {} fields (code {}): {:?}", m, code, fate),
            || json!({"fields": m, "code": code, "tier": tier.as_str()}),
        );
    }
    // pass-through: queries without a grid section are unchanged
    for q in [
        json!({}),
        json!({"origin_vertex": 0, "destination_vertex": 3}),
        json!({"a": [1, 2, 3], "b": {"c": []}}),
    ] {
        check_query(&q, &mut st, false);
    }
    // options that carry or mention the section's own name, at every position among ordinary options
    let mut mention_cases = 0u64;
    for q in mention_queries() {
        mention_cases += 1;
        check_query(&q, &mut st, true);
    }
    st.notes.insert(format!(
        "{} queries whose grid options carry or mention the name of the grid section",
        mention_cases
    ));
    let mut stray_cases = 0u64;
    for q in stray_member_queries() {
        stray_cases += 1;
        check_query(&q, &mut st, true);
    }
    st.notes.insert(format!("{} grid sections with members that are not arrays at every position among the array-valued fields", stray_cases));
    let n_fan = check_fan_out(&mut st);
    st.notes.insert(format!("{} lists of 1-3 queries with and without a grid section produced by a plugin ahead of grid search", n_fan));
    st.sample(4, || json!({"grid_search": {"alpha": [0, "v0_1"], "beta": [{"m1": "o0"}]}, "origin_vertex": 0}));
    finish(
        &info,
        st,
        "state = one query object: 1-3 grid fields x sizes x element kinds {scalar, object with 1 key, object with 2 keys, mixed, object with a key that is also a field of the original query, scalars with an option repeated} x every key order of the grid section x {no, three} extra fields x grid section first/last; transition = one expansion through GridSearchPlugin::process or apply_input_plugins (flattening); oracle = reference Cartesian product compared as canonical multiset; non-trivial = product size > 1",
        true,
        json!({"max_grid_fields": max_fields, "sizes": sizes, "element_kinds": KINDS, "cases_in_worker_processes": cs.len()}),
        vec!["object-valued choices of different grid fields use disjoint keys (two grid fields offering the same key cannot yield one distinct query per combination under any order, so the statement does not define that case); an option whose key is also a field of the original query must replace it - otherwise different options yield the same query twice".into(),
            "a grid section whose text mentions 'grid_search' is refused by the plugin on purpose (its error message says so): for such sections a refusal is accepted, and an expansion is accepted only if it has the product size and leaves no grid section in any generated query".into()],
    )
}

pub fn replay(case: &Value) -> i32 {
    if case.get("fields").is_some() {
        // a case that did not come back: run it again under a deadline (the runaway thread ends with the process)
        let m = case["fields"].as_u64().unwrap_or(1) as usize;
        let code = case["code"].as_u64().unwrap_or(0) as usize;
        let tier = if case["tier"].as_str() == Some("thorough") {
            Tier::Thorough
        } else {
            Tier::Quick
        };
        return match crate::engine::with_deadline(10, move || {
            let mut st = Stats::new();
            check_case(tier, m, code, &mut st);
            st
        }) {
            Some(st) => {
                for (k, g) in st.violations.iter() {
                    println!("REPLAY-VIOLATION {} {}", k, g.detail);
                }
                println!(
                    "replay: {} violated clauses over {} expansions",
                    st.violations.len(),
                    st.evaluations
                );
                if st.violations.is_empty() {
                    0
                } else {
                    1
                }
            }
            None => {
                println!("REPLAY-VIOLATION grid_search.expansion/returns_in_bounded_time no answer after 10 s");
                std::process::exit(1);
            }
        };
    }
    if case.get("fan_out_query").is_some() {
        let mut st = Stats::new();
        check_fan_out(&mut st);
        for (k, g) in st.violations.iter() {
            println!("REPLAY-VIOLATION {} {}", k, g.detail);
        }
        println!(
            "replay: all lists behind the fan-out plugin re-run, {} violated clauses",
            st.violations.len()
        );
        return if st.violations.is_empty() { 0 } else { 1 };
    }
    let q = case["query"].clone();
    let mut st = Stats::new();
    check_query(&q, &mut st, true);
    println!(
        "reference expansion: {}",
        serde_json::to_string(&reference(&q)).unwrap_or_default()
    );
    for (k, g) in st.violations.iter() {
        println!("REPLAY-VIOLATION {} {}", k, g.detail);
    }
    if st.violations.is_empty() {
        0
    } else {
        1
    }
}
