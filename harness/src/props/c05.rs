//! C05 — "no path" exactly when unreachable; destination-less tree = reachable set with least costs
use crate::engine::{close, finish, RunInfo, Stats, Tier};
use crate::props::search_common::*;
use crate::refmodel::graph::{bellman_ford, reachable};
use crate::world::net::{par_enumerate, GenSpec, LenMode, Net};
use crate::world::sw::World;
use routee_compass_core::model::frontier::frontier_model::FrontierModel;
use routee_compass_core::model::frontier::frontier_model_error::FrontierModelError;
use routee_compass_core::model::network::Edge;
use routee_compass_core::model::state::state_model::StateModel;
use routee_compass_core::model::traversal::state::state_variable::StateVar;
use serde_json::{json, Value};
use std::sync::Arc;

/// edge-local restriction: a fixed set of forbidden edges
pub struct EdgeSetFrontier {
    pub forbidden: Vec<bool>,
}
impl FrontierModel for EdgeSetFrontier {
    fn valid_frontier(
        &self,
        edge: &Edge,
        _: &[StateVar],
        _: Option<&Edge>,
        _: &StateModel,
    ) -> Result<bool, FrontierModelError> {
        Ok(!self.forbidden.get(edge.edge_id.0).copied().unwrap_or(false))
    }
}

pub fn check_case(
    w: &World,
    forbidden: &[bool],
    algo: &Algo,
    orient: &Orient,
    reverse: bool,
    st: &mut Stats,
) {
    st.evaluations += 1;
    st.transitions += 1;
    st.traces += 1;
    let net = &w.net;
    let si = match w.si_with(Arc::new(EdgeSetFrontier {
        forbidden: forbidden.to_vec(),
    })) {
        Ok(si) => si,
        Err(e) => {
            st.violation(
                "harness",
                "si_build",
                0,
                || e.clone(),
                || json!({"world": w}),
            );
            return;
        }
    };
    let out = run_search(&si, algo, orient, reverse, &json!({}));
    st.outcome(out.kind());
    let size = net.size() + forbidden.iter().filter(|b| **b).count() as u64;
    let case = || case_json(w, algo, orient, reverse, json!({"forbidden": forbidden}));
    let ok = |e: usize| !forbidden[e];
    let (start, target): (usize, Option<usize>) = match orient {
        Orient::Vertex { o, d } => (*o, *d),
        Orient::Edge { o, d } => (net.edges[*o].1, d.map(|d| net.edges[d].0)),
    };
    let reach = reachable(net, start, !reverse, &ok);
    let orient_name = match orient {
        Orient::Vertex { d: Some(_), .. } => "vertex_od",
        Orient::Vertex { d: None, .. } => "vertex_o",
        Orient::Edge { d: Some(_), .. } => "edge_od",
        Orient::Edge { d: None, .. } => "edge_o",
    };
    let comp = format!(
        "{}.{}.{}",
        algo.component(),
        orient_name,
        if reverse { "reverse" } else { "forward" }
    );
    if let Outcome::Panic(p) = &out {
        st.violation(&comp, "no_panic", size, || p.clone(), case);
        return;
    }
    match target {
        Some(t) => {
            let reachable_t = reach[t];
            if !reachable_t || reach.iter().filter(|r| **r).count() > 2 {
                st.nontrivial += 1;
            }
            match &out {
                Outcome::Ok { routes, .. } => {
                    if !reachable_t {
                        st.violation(
                            &comp,
                            "unreachable_reports_no_path",
                            size,
                            || {
                                format!(
                                    "destination unreachable but search returned {}",
                                    out.text()
                                )
                            },
                            case,
                        );
                    } else if routes.is_empty() || routes[0].is_empty() {
                        // edge orientation with adjacent edges has a two-edge route; an empty route is never an answer for distinct o/d
                        st.violation(
                            &comp,
                            "reachable_returns_non_empty_route",
                            size,
                            || format!("destination reachable but route is empty: {}", out.text()),
                            case,
                        );
                    } else {
                        let ids = route_ids(&routes[0]);
                        let bad = route_structure(net, &ids, orient, reverse);
                        let forbidden_used: Vec<usize> = ids
                            .iter()
                            .enumerate()
                            .filter(|(i, e)| {
                                // origin/destination edges of an edge-oriented query are given, not searched
                                let given = matches!(orient, Orient::Edge { .. })
                                    && (*i == 0 || *i == ids.len() - 1);
                                !given && forbidden[**e]
                            })
                            .map(|(_, e)| *e)
                            .collect();
                        if bad.is_empty() && forbidden_used.is_empty() {
                            st.pass("reachable_returns_valid_route");
                        } else {
                            st.violation(
                                &comp,
                                "reachable_returns_valid_route",
                                size,
                                || {
                                    format!(
                                        "route {:?}: {:?} forbidden used {:?}",
                                        ids, bad, forbidden_used
                                    )
                                },
                                case,
                            );
                        }
                    }
                }
                Outcome::NoPath(_) => {
                    if reachable_t {
                        st.violation(&comp, "reachable_returns_route", size, || format!("destination reachable through permitted edges but search says: {}", out.text()), case);
                    } else {
                        st.pass("unreachable_reports_no_path");
                    }
                }
                other => {
                    st.violation(&comp, "only_route_or_no_path", size, || other.text(), case);
                }
            }
        }
        None => {
            match &out {
                Outcome::Ok { trees, routes, .. } => {
                    if !routes.is_empty() && !matches!(orient, Orient::Edge { .. }) {
                        st.violation(&comp, "no_destination_no_route", size, || out.text(), case);
                    }
                    if trees.len() != 1 {
                        st.violation(
                            &comp,
                            "one_tree",
                            size,
                            || format!("{} trees", trees.len()),
                            case,
                        );
                        return;
                    }
                    let tree = &trees[0];
                    let mut keys: Vec<usize> = tree.iter().map(|t| t.vertex).collect();
                    keys.sort();
                    let mut want: Vec<usize> =
                        (0..net.n).filter(|v| reach[*v] && *v != start).collect();
                    if let Orient::Edge { .. } = orient {
                        // the wrapper adds the origin edge's entry at the head of the origin edge
                        want.push(start);
                        want.sort();
                    }
                    if want.len() > 1 {
                        st.nontrivial += 1;
                    }
                    if keys == want {
                        st.pass("tree_vertices_are_reachable_set");
                    } else {
                        st.violation(
                            &comp,
                            "tree_vertices_are_reachable_set",
                            size,
                            || {
                                format!(
                                    "tree vertices {:?}, reachable (other than origin) {:?}",
                                    keys, want
                                )
                            },
                            case,
                        );
                        return;
                    }
                    // least cost labels: cost summed along the parent chain equals Bellman-Ford over the implementation's own edge costs
                    let cost_of = |e: usize| -> Option<f64> {
                        if forbidden[e] {
                            None
                        } else {
                            Some(w.ref_edge_cost(None, e))
                        }
                    };
                    let bf = bellman_ford(net, start, !reverse, &cost_of);
                    let map: std::collections::HashMap<usize, &TreeEntry> =
                        tree.iter().map(|t| (t.vertex, t)).collect();
                    for t in tree.iter() {
                        if t.vertex == start {
                            continue;
                        }
                        let mut v = t.vertex;
                        let mut sum = 0.0;
                        let mut steps = 0;
                        while v != start && steps <= net.n {
                            match map.get(&v) {
                                Some(e) => {
                                    sum += e.cost;
                                    v = e.parent;
                                }
                                None => break,
                            }
                            steps += 1;
                        }
                        if v == start && close(sum, bf[t.vertex], w.tol()) {
                            st.pass("tree_labels_are_least_costs");
                        } else {
                            st.violation(&comp, "tree_labels_are_least_costs", size, || format!("vertex {}: cost along parents {} (ended at {}), least cost {}", t.vertex, sum, v, bf[t.vertex]), case);
                            break;
                        }
                    }
                }
                other => st.violation(
                    &comp,
                    "no_destination_returns_tree",
                    size,
                    || other.text(),
                    case,
                ),
            }
        }
    }
}

fn algos(tier: Tier) -> Vec<Algo> {
    let mut v = vec![
        Algo::Dijkstra,
        Algo::AStar(Some(1.0)),
        Algo::AStar(Some(2.0)),
    ];
    if tier == Tier::Thorough {
        v.push(Algo::AStar(Some(0.5)));
        v.push(Algo::AStar(None));
        v.push(Algo::AStar(Some(10.0)));
    }
    v
}

pub fn for_net(net: &Net, tier: Tier, idx: u64, st: &mut Stats) {
    st.states += 1;
    let n = net.n;
    let m = net.m();
    let w = if idx % 5 == 0 && m > 0 {
        crate::props::c01::speed_turn_world(net)
    } else {
        World::distance(net.clone())
    };
    // turn delays make costs depend on the previous edge: the label clause needs edge-local costs, so use no access model here
    let w = World { turn: None, ..w };
    // restriction alphabet: none, each single edge, and (thorough) every subset
    let mut sets: Vec<Vec<bool>> = vec![vec![false; m]];
    if tier == Tier::Thorough && m <= 5 {
        for mask in 1u32..(1 << m) {
            sets.push((0..m).map(|e| mask >> e & 1 == 1).collect());
        }
    } else {
        for e in 0..m {
            let mut f = vec![false; m];
            f[e] = true;
            sets.push(f);
        }
        if m >= 2 {
            let mut f = vec![false; m];
            f[0] = true;
            f[m - 1] = true;
            sets.push(f);
        }
    }
    for forb in sets.iter() {
        for algo in algos(tier).iter() {
            for reverse in [false, true] {
                check_case(
                    &w,
                    forb,
                    algo,
                    &Orient::Vertex {
                        o: 0,
                        d: Some(n - 1),
                    },
                    reverse,
                    st,
                );
                check_case(
                    &w,
                    forb,
                    algo,
                    &Orient::Vertex { o: 0, d: None },
                    reverse,
                    st,
                );
            }
            for o in 0..m {
                if forb[o] {
                    continue;
                }
                check_case(&w, forb, algo, &Orient::Edge { o, d: None }, false, st);
                for d in 0..m {
                    if d == o || forb[d] {
                        continue;
                    }
                    check_case(&w, forb, algo, &Orient::Edge { o, d: Some(d) }, false, st);
                }
            }
        }
    }
}

pub fn specs(tier: Tier) -> Vec<GenSpec> {
    match tier {
        Tier::Quick => vec![
            GenSpec {
                n: 2,
                max_edges: 4,
                max_mult: 2,
                n_len: 2,
                self_loops: true,
                mode: LenMode::Alphabet,
            },
            GenSpec {
                n: 3,
                max_edges: 5,
                max_mult: 2,
                n_len: 2,
                self_loops: true,
                mode: LenMode::Alphabet,
            },
            GenSpec {
                n: 4,
                max_edges: 5,
                max_mult: 2,
                n_len: 1,
                self_loops: true,
                mode: LenMode::Alphabet,
            },
            GenSpec {
                n: 4,
                max_edges: 5,
                max_mult: 1,
                n_len: 2,
                self_loops: false,
                mode: LenMode::Metric,
            },
            GenSpec {
                n: 5,
                max_edges: 5,
                max_mult: 1,
                n_len: 1,
                self_loops: false,
                mode: LenMode::PowersOfTwo,
            },
        ],
        Tier::Thorough => vec![
            GenSpec {
                n: 2,
                max_edges: 5,
                max_mult: 2,
                n_len: 2,
                self_loops: true,
                mode: LenMode::Alphabet,
            },
            GenSpec {
                n: 3,
                max_edges: 5,
                max_mult: 2,
                n_len: 2,
                self_loops: true,
                mode: LenMode::Alphabet,
            },
            GenSpec {
                n: 3,
                max_edges: 6,
                max_mult: 2,
                n_len: 1,
                self_loops: true,
                mode: LenMode::PowersOfTwo,
            },
            GenSpec {
                n: 4,
                max_edges: 5,
                max_mult: 2,
                n_len: 1,
                self_loops: true,
                mode: LenMode::Alphabet,
            },
            GenSpec {
                n: 4,
                max_edges: 6,
                max_mult: 1,
                n_len: 1,
                self_loops: false,
                mode: LenMode::Alphabet,
            },
            GenSpec {
                n: 4,
                max_edges: 5,
                max_mult: 1,
                n_len: 2,
                self_loops: false,
                mode: LenMode::Metric,
            },
            GenSpec {
                n: 5,
                max_edges: 5,
                max_mult: 1,
                n_len: 1,
                self_loops: false,
                mode: LenMode::PowersOfTwo,
            },
        ],
    }
}

/// the same statement through the whole application: network loaded from files by the graph loader, restrictions built by
/// the repository's own road-class and vehicle-restriction models from their input files (one edge with two restriction rows),
/// every ordered origin/destination pair and every destination-less query; oracle = reachability over the permitted edges
pub fn app_layer(scratch: &crate::world::app::Scratch, net: &Net, st: &mut Stats) {
    use crate::world::app::AppSpec;
    let n = net.n;
    let m = net.m();
    if m == 0 || n < 2 {
        return;
    }
    let idx = net.hash_idx() as usize;
    let classes: Vec<u8> = (0..m).map(|e| ((e + idx) % 3 == 0) as u8).collect();
    let e0 = (idx / 3) % m;
    let mut spec = AppSpec::simple(net.clone());
    spec.algorithm = json!({"type": "a*", "weight_factor": 1.0});
    spec.road_classes = Some(classes.clone());
    // the vehicle of the queries is lighter than the weight limit and taller than the height limit: one row met, one exceeded
    // (the two rows of the edge are not neighbours in the file: the exceeded one first, a row of another edge that binds no
    // vehicle in between, the met one last)
    // four row sets for the restricted edge, by network: (0) height exceeded, weight met; (1) trailer limit 16 m and weight limit,
    // both met although the vehicle's total length (18.29 m) is beyond 16 m: the edge stays open; (2) length limit 16 m exceeded
    // by the total length while the trailer limit 20 m is met; (3) trailer limit 14 m exceeded by the 15 m trailer, length limit
    // 20 m met
    let row_set = (idx / 7) % 4;
    let (first, last): ((&str, f64, &str), (&str, f64, &str)) = match row_set {
        0 => (
            ("maximum_height", 4.0, "meters"),
            ("maximum_total_weight", 5.0, "tons"),
        ),
        1 => (
            ("maximum_trailer_length", 16.0, "meters"),
            ("maximum_total_weight", 5.0, "tons"),
        ),
        2 => (
            ("maximum_length", 16.0, "meters"),
            ("maximum_trailer_length", 20.0, "meters"),
        ),
        _ => (
            ("maximum_trailer_length", 14.0, "meters"),
            ("maximum_length", 20.0, "meters"),
        ),
    };
    let e0_closed = row_set != 1;
    spec.vehicle_restrictions = Some(if m > 1 {
        vec![
            (e0, first.0.into(), first.1, first.2.into()),
            ((e0 + 1) % m, "maximum_width".into(), 100.0, "meters".into()),
            (e0, last.0.into(), last.1, last.2.into()),
        ]
    } else {
        vec![
            (e0, last.0.into(), last.1, last.2.into()),
            (e0, first.0.into(), first.1, first.2.into()),
        ]
    });
    spec.frontier = json!({"type": "combined", "models": [
        {"type": "road_class", "road_class_input_file": "$DIR/road_classes.txt", "road_class_parser": {"mapping": {"local": 0, "highway": 1}}},
        {"type": "vehicle_restriction", "vehicle_restriction_input_file": "$DIR/vehicle_restrictions.csv"}
    ]});
    spec.output_plugins = vec![
        json!({"type": "traversal", "route": "edge_id", "tree": "edge_id", "geometry_input_file": "$DIR/geometries.txt"}),
    ];
    spec.gzip_graph = (idx / 40) % 2 == 0;
    // the optional sizes of the [graph] section: neither, both, only one of them (networks with fewer edges than vertices are among those enumerated)
    spec.graph_counts =
        [(false, false), (true, true), (true, false), (false, true)][(idx / 80) % 4];
    // (the same network can come from two families at the same time: the directory name carries a counter)
    static APP_DIR_COUNTER: std::sync::atomic::AtomicU64 = std::sync::atomic::AtomicU64::new(0);
    let dir = scratch.path.join(format!(
        "a{}_{}",
        net.hash_idx(),
        APP_DIR_COUNTER.fetch_add(1, std::sync::atomic::Ordering::Relaxed)
    ));
    let app = match spec.build(&dir) {
        Ok(a) => a,
        Err(e) => {
            st.violation(
                "harness",
                "app_build",
                0,
                || e.clone(),
                || json!({"net": net}),
            );
            return;
        }
    };
    let vp = json!({"height": [13.5, "feet"], "width": [2.5, "meters"], "total_length": [60.0, "feet"], "trailer_length": [15.0, "meters"], "total_weight": [4000.0, "kg"], "number_of_axles": 4});
    let permitted = |e: usize| classes[e] == 0 && (e != e0 || !e0_closed);
    let mut queries: Vec<(Value, usize, Option<usize>)> = vec![];
    for o in 0..n {
        queries.push((
            json!({"origin_vertex": o, "road_classes": ["local"], "vehicle_parameters": vp}),
            o,
            None,
        ));
        for d in 0..n {
            if o != d {
                queries.push((json!({"origin_vertex": o, "destination_vertex": d, "road_classes": ["local"], "vehicle_parameters": vp}), o, Some(d)));
            }
        }
    }
    let batch: Vec<Value> = queries.iter().map(|q| q.0.clone()).collect();
    let res = match crate::engine::guarded(|| app.run(batch.clone(), None)) {
        Ok(Ok(r)) => r,
        Ok(Err(e)) => {
            st.violation(
                "app",
                "run_returns_responses",
                net.size(),
                || e.to_string(),
                || json!({"net": net, "app_layer": true}),
            );
            let _ = std::fs::remove_dir_all(&dir);
            return;
        }
        Err(p) => {
            st.violation(
                "app",
                "no_panic",
                net.size(),
                || p.clone(),
                || json!({"net": net, "app_layer": true}),
            );
            let _ = std::fs::remove_dir_all(&dir);
            return;
        }
    };
    for (q, o, d) in queries.iter() {
        st.evaluations += 1;
        st.transitions += 1;
        st.traces += 1;
        let r = match res.iter().find(|r| r["request"] == *q) {
            Some(r) => r,
            None => {
                st.violation(
                    "app",
                    "one_response_per_query",
                    net.size(),
                    || format!("no response for {}", q),
                    || json!({"net": net, "app_layer": true, "query": q}),
                );
                continue;
            }
        };
        let reach = reachable(net, *o, true, &permitted);
        let case = || json!({"net": net, "app_layer": true, "query": q, "road_classes_table": classes, "restricted_edge": e0, "restriction_row_set": row_set});
        let err = r
            .get("error")
            .filter(|e| !e.is_null())
            .map(|e| e.to_string());
        match d {
            Some(d) => {
                let ids: Vec<usize> = r["route"]["path"]
                    .as_array()
                    .map(|a| {
                        a.iter()
                            .filter_map(|x| x.as_u64().map(|v| v as usize))
                            .collect()
                    })
                    .unwrap_or_default();
                if reach[*d] {
                    if err.is_none()
                        && !ids.is_empty()
                        && ids.iter().all(|e| *e < m && permitted(*e))
                        && route_structure(net, &ids, &Orient::Vertex { o: *o, d: Some(*d) }, false)
                            .is_empty()
                    {
                        st.pass("app_route_when_reachable");
                    } else {
                        st.violation("app.vertex_od", "only_route_or_no_path", net.size(), || format!("destination reachable over permitted edges but the response is error {:?} route {:?}", err, ids), case);
                    }
                } else if err
                    .as_ref()
                    .map_or(false, |e| e.to_lowercase().contains("no path"))
                    && ids.is_empty()
                {
                    st.pass("app_no_path_when_unreachable");
                } else {
                    st.violation("app.vertex_od", "only_route_or_no_path", net.size(), || format!("destination not reachable over permitted edges but the response is error {:?} route {:?}", err, ids), case);
                }
            }
            None => {
                // tree rendered as the list of its edge ids: the heads of these edges are exactly the reachable vertices
                let edges: Vec<usize> = r["tree"]
                    .as_array()
                    .map(|a| {
                        a.iter()
                            .filter_map(|x| x.as_u64().map(|v| v as usize))
                            .collect()
                    })
                    .unwrap_or_default();
                let mut got: Vec<usize> = edges
                    .iter()
                    .filter(|e| **e < m)
                    .map(|e| net.edges[*e].1)
                    .collect();
                got.sort();
                got.dedup();
                let want: Vec<usize> = (0..n).filter(|v| *v != *o && reach[*v]).collect();
                // a cycle back to the origin may add the origin itself
                let got_wo: Vec<usize> = got.iter().cloned().filter(|v| v != o).collect();
                if err.is_none() && got_wo == want && edges.iter().all(|e| *e < m && permitted(*e))
                {
                    st.pass("app_tree_is_reachable_set");
                } else {
                    st.violation(
                        "app.vertex_o",
                        "tree_vertices_are_reachable_set",
                        net.size(),
                        || {
                            format!(
                                "tree edges {:?} reach {:?}, reference {:?}, error {:?}",
                                edges, got_wo, want, err
                            )
                        },
                        case,
                    );
                }
            }
        }
    }
    let _ = std::fs::remove_dir_all(&dir);
}

pub fn run(tier: Tier) -> i32 {
    let info = RunInfo::new("C05", tier);
    let specs = specs(tier);
    let scratch = crate::world::app::Scratch::new("c05");
    let st = par_enumerate(&specs, |_spec, net, st| {
        let idx = net.hash_idx();
        for_net(net, tier, idx, st);
        // every 40th network also goes through the whole application (graph loader, restriction files, plugins)
        if idx % 40 == 0 {
            app_layer(&scratch, net, st);
        }
        if net.n == 4 && net.m() == 3 {
            st.sample(1, || json!({"net": net, "note": "run with every restriction set of the alphabet, 3-6 algorithms, both directions, vertex and edge orientation, with and without destination"}));
        }
    });
    let desc: Vec<String> = specs.iter().map(|s| s.describe()).collect();
    finish(
        &info,
        st,
        "state = one labelled multigraph (disconnected ones included); transition = one real search under one edge-local restriction set; oracle = BFS reachability over permitted edges and Bellman-Ford labels; non-trivial = destination unreachable, or more than two reachable vertices",
        true,
        json!({"graph_families": desc, "restriction_sets": tier.pick("none, each single edge, first+last", "every subset of edges")}),
        vec![
            "edge costs for the label clause come from the reference formula (distance / time, no access model)".into(),
            "application layer (every 40th network): files written by the harness, loaded by the repository's graph loader and restriction builders; road-class and vehicle-restriction models combined, one edge with two restriction rows".into(),
        ],
    )
}

pub fn replay(case: &Value) -> i32 {
    let w: World = match serde_json::from_value(case["world"].clone()) {
        Ok(w) => w,
        Err(e) => {
            println!("MACHINERY-ERROR cannot parse world: {}", e);
            return 2;
        }
    };
    let algo: Algo = serde_json::from_value(case["algo"].clone()).unwrap_or(Algo::Dijkstra);
    let orient: Orient = match serde_json::from_value(case["orient"].clone()) {
        Ok(o) => o,
        Err(e) => {
            println!("MACHINERY-ERROR cannot parse orient: {}", e);
            return 2;
        }
    };
    let reverse = case["reverse"].as_bool().unwrap_or(false);
    let forbidden: Vec<bool> = serde_json::from_value(case["extra"]["forbidden"].clone())
        .unwrap_or_else(|_| vec![false; w.net.m()]);
    let mut st = Stats::new();
    check_case(&w, &forbidden, &algo, &orient, reverse, &mut st);
    for (k, g) in st.violations.iter() {
        println!("REPLAY-VIOLATION {} {}", k, g.detail);
    }
    println!(
        "replay: {} violated clauses; outcomes {:?}",
        st.violations.len(),
        st.outcomes
    );
    if st.violations.is_empty() {
        0
    } else {
        1
    }
}
