//! shared by C01/C02/C03/C04/C05/C10/C13: algorithm alphabet, driver, structural and accumulation oracles
use crate::engine::{close, guarded};
use crate::world::net::Net;
use crate::world::sw::World;
use routee_compass_core::algorithm::search::direction::Direction;
use routee_compass_core::algorithm::search::edge_traversal::EdgeTraversal;
use routee_compass_core::algorithm::search::ksp::ksp_termination_criteria::KspTerminationCriteria;
use routee_compass_core::algorithm::search::search_algorithm::SearchAlgorithm;
use routee_compass_core::algorithm::search::search_error::SearchError;
use routee_compass_core::algorithm::search::search_instance::SearchInstance;
use routee_compass_core::algorithm::search::search_tree_branch::SearchTreeBranch;
use routee_compass_core::algorithm::search::util::route_similarity_function::RouteSimilarityFunction;
use routee_compass_core::model::network::{EdgeId, VertexId};
use routee_compass_core::model::unit::as_f64::AsF64;
use routee_compass_core::model::unit::Cost;
use serde::{Deserialize, Serialize};
use serde_json::{json, Value};
use std::collections::HashMap;

#[derive(Clone, Debug, Serialize, Deserialize, PartialEq)]
pub enum Sim {
    AcceptAll,
    EdgeCos(f64),
    DistCos(f64),
}
impl Sim {
    pub fn real(&self) -> RouteSimilarityFunction {
        match self {
            Sim::AcceptAll => RouteSimilarityFunction::AcceptAll,
            Sim::EdgeCos(t) => RouteSimilarityFunction::EdgeIdCosineSimilarity { threshold: *t },
            Sim::DistCos(t) => {
                RouteSimilarityFunction::DistanceWeightedCosineSimilarity { threshold: *t }
            }
        }
    }
}
#[derive(Clone, Debug, Serialize, Deserialize, PartialEq)]
pub enum KTerm {
    Exact,
    MaxIter(u64),
    Factor(u64),
}
impl KTerm {
    pub fn real(&self) -> KspTerminationCriteria {
        match self {
            KTerm::Exact => KspTerminationCriteria::Exact,
            KTerm::MaxIter(m) => KspTerminationCriteria::MaxIteration { max: *m },
            KTerm::Factor(f) => KspTerminationCriteria::Factor { factor: *f },
        }
    }
}

#[derive(Clone, Debug, Serialize, Deserialize, PartialEq)]
pub enum Algo {
    Dijkstra,
    AStar(Option<f64>),
    SingleVia {
        k: usize,
        under: Box<Algo>,
        sim: Option<Sim>,
        term: Option<KTerm>,
    },
    Yens {
        k: usize,
        under: Box<Algo>,
        sim: Option<Sim>,
        term: Option<KTerm>,
    },
}

impl Algo {
    /// the algorithm section as a user writes it in the configuration
    pub fn config_json(&self) -> serde_json::Value {
        use serde_json::json;
        let sim_json = |s: &Option<Sim>| match s {
            None => serde_json::Value::Null,
            Some(Sim::AcceptAll) => json!({"type": "accept_all"}),
            Some(Sim::EdgeCos(t)) => json!({"type": "edge_id_cosine_similarity", "threshold": t}),
            Some(Sim::DistCos(t)) => {
                json!({"type": "distance_weighted_cosine_similarity", "threshold": t})
            }
        };
        let term_json = |t: &Option<KTerm>| match t {
            None => serde_json::Value::Null,
            Some(KTerm::Exact) => json!({"type": "exact"}),
            Some(KTerm::MaxIter(m)) => json!({"type": "max_iteration", "max": m}),
            Some(KTerm::Factor(f)) => json!({"type": "factor", "factor": f}),
        };
        let ksp = |name: &str, k: &usize, under: &Algo, sim: &Option<Sim>, term: &Option<KTerm>| {
            let mut v = json!({"type": name, "k": k, "underlying": under.config_json()});
            if sim.is_some() {
                v["similarity"] = sim_json(sim);
            }
            if term.is_some() {
                v["termination"] = term_json(term);
            }
            v
        };
        match self {
            Algo::Dijkstra => json!({"type": "dijkstra"}),
            Algo::AStar(None) => json!({"type": "a*"}),
            Algo::AStar(Some(w)) => json!({"type": "a*", "weight_factor": w}),
            Algo::SingleVia {
                k,
                under,
                sim,
                term,
            } => ksp("ksp_single_via", k, under, sim, term),
            Algo::Yens {
                k,
                under,
                sim,
                term,
            } => ksp("yens", k, under, sim, term),
        }
    }
    /// built the way the application builds it: deserialised from the configuration section (a section the library does not
    /// accept is a harness error and stops the run loudly)
    pub fn real(&self) -> SearchAlgorithm {
        match serde_json::from_value::<SearchAlgorithm>(self.config_json()) {
            Ok(a) => a,
            Err(e) => panic!(
                "harness: the library rejects the algorithm section {}: {}",
                self.config_json(),
                e
            ),
        }
    }
    /// the same algorithm constructed directly (not used by the checks; kept as documentation of the intended value)
    #[allow(dead_code)]
    pub fn constructed(&self) -> SearchAlgorithm {
        match self {
            Algo::Dijkstra => SearchAlgorithm::Dijkstra,
            Algo::AStar(w) => SearchAlgorithm::AStarAlgorithm {
                weight_factor: w.map(Cost::new),
            },
            Algo::SingleVia {
                k,
                under,
                sim,
                term,
            } => SearchAlgorithm::KspSingleVia {
                k: *k,
                underlying: Box::new(under.constructed()),
                similarity: sim.as_ref().map(|s| s.real()),
                termination: term.as_ref().map(|t| t.real()),
            },
            Algo::Yens {
                k,
                under,
                sim,
                term,
            } => SearchAlgorithm::Yens {
                k: *k,
                underlying: Box::new(under.constructed()),
                similarity: sim.as_ref().map(|s| s.real()),
                termination: term.as_ref().map(|t| t.real()),
            },
        }
    }
    pub fn component(&self) -> String {
        match self {
            Algo::Dijkstra => "dijkstra".into(),
            Algo::AStar(_) => "astar".into(),
            Algo::SingleVia { .. } => "ksp_single_via".into(),
            Algo::Yens { .. } => "yens".into(),
        }
    }
    pub fn is_ksp(&self) -> bool {
        matches!(self, Algo::SingleVia { .. } | Algo::Yens { .. })
    }
}

#[derive(Clone, Copy, Debug, Serialize, Deserialize, PartialEq)]
pub enum Orient {
    Vertex { o: usize, d: Option<usize> },
    Edge { o: usize, d: Option<usize> },
}

#[derive(Debug, Clone)]
pub struct RouteEdge {
    pub edge: usize,
    pub access: f64,
    pub traversal: f64,
    pub state: Vec<f64>,
}

#[derive(Debug, Clone)]
pub struct TreeEntry {
    pub vertex: usize,
    pub parent: usize,
    pub edge: usize,
    pub cost: f64,
    pub state: Vec<f64>,
}

#[derive(Debug, Clone)]
pub enum Outcome {
    Ok {
        routes: Vec<Vec<RouteEdge>>,
        trees: Vec<Vec<TreeEntry>>,
        iterations: u64,
    },
    NoPath(String),
    Terminated(String),
    OtherErr(String),
    Panic(String),
}

impl Outcome {
    pub fn kind(&self) -> &'static str {
        match self {
            Outcome::Ok { .. } => "ok",
            Outcome::NoPath(_) => "no_path",
            Outcome::Terminated(_) => "terminated",
            Outcome::OtherErr(_) => "other_error",
            Outcome::Panic(_) => "panic",
        }
    }
    pub fn text(&self) -> String {
        match self {
            Outcome::Ok { routes, .. } => format!(
                "ok routes={:?}",
                routes
                    .iter()
                    .map(|r| r.iter().map(|e| e.edge).collect::<Vec<_>>())
                    .collect::<Vec<_>>()
            ),
            Outcome::NoPath(s)
            | Outcome::Terminated(s)
            | Outcome::OtherErr(s)
            | Outcome::Panic(s) => format!("{}: {}", self.kind(), s),
        }
    }
}

fn conv_route(r: &[EdgeTraversal]) -> Vec<RouteEdge> {
    r.iter()
        .map(|e| RouteEdge {
            edge: e.edge_id.0,
            access: e.access_cost.as_f64(),
            traversal: e.traversal_cost.as_f64(),
            state: e.result_state.iter().map(|s| s.0).collect(),
        })
        .collect()
}

fn conv_tree(t: &HashMap<VertexId, SearchTreeBranch>) -> Vec<TreeEntry> {
    let mut v: Vec<TreeEntry> = t
        .iter()
        .map(|(k, b)| TreeEntry {
            vertex: k.0,
            parent: b.terminal_vertex.0,
            edge: b.edge_traversal.edge_id.0,
            cost: b.edge_traversal.total_cost().as_f64(),
            state: b.edge_traversal.result_state.iter().map(|s| s.0).collect(),
        })
        .collect();
    v.sort_by_key(|e| e.vertex);
    v
}

pub fn classify_err(e: &SearchError) -> Outcome {
    match e {
        SearchError::NoPathExistsBetweenVertices(..)
        | SearchError::NoPathExistsBetweenEdges(..) => Outcome::NoPath(e.to_string()),
        SearchError::TerminationModelFailure { .. } | SearchError::QueryTerminated(_) => {
            Outcome::Terminated(e.to_string())
        }
        _ => Outcome::OtherErr(e.to_string()),
    }
}

/// runs the real search entry point
pub fn run_search(
    si: &SearchInstance,
    algo: &Algo,
    orient: &Orient,
    reverse: bool,
    query: &Value,
) -> Outcome {
    let alg = algo.real();
    let dir = if reverse {
        Direction::Reverse
    } else {
        Direction::Forward
    };
    let r = guarded(|| match orient {
        Orient::Vertex { o, d } => {
            alg.run_vertex_oriented(VertexId(*o), d.map(VertexId), query, &dir, si)
        }
        Orient::Edge { o, d } => alg.run_edge_oriented(EdgeId(*o), d.map(EdgeId), query, &dir, si),
    });
    match r {
        Err(p) => Outcome::Panic(p),
        Ok(Err(e)) => classify_err(&e),
        Ok(Ok(res)) => Outcome::Ok {
            routes: res.routes.iter().map(|r| conv_route(r)).collect(),
            trees: res.trees.iter().map(conv_tree).collect(),
            iterations: res.iterations,
        },
    }
}

/// structural route clauses of C01. returns (clause, detail) for each failed clause.
/// for reverse searches the route is ordered in search direction (from the search origin outwards).
pub fn route_structure(
    net: &Net,
    route: &[usize],
    orient: &Orient,
    reverse: bool,
) -> Vec<(&'static str, String)> {
    let mut bad = vec![];
    if route.is_empty() {
        bad.push(("route_non_empty", "empty route".to_string()));
        return bad;
    }
    for e in route {
        if *e >= net.m() {
            bad.push(("route_edges_exist", format!("edge {} not in network", e)));
            return bad;
        }
    }
    let src = |e: usize| net.edges[e].0;
    let dst = |e: usize| net.edges[e].1;
    // near/far end of an edge in search direction
    let near = |e: usize| if reverse { dst(e) } else { src(e) };
    let far = |e: usize| if reverse { src(e) } else { dst(e) };
    match orient {
        Orient::Vertex { o, d } => {
            if near(route[0]) != *o {
                bad.push((
                    "route_first_edge_leaves_origin",
                    format!(
                        "first edge {} starts at {} not at origin {}",
                        route[0],
                        near(route[0]),
                        o
                    ),
                ));
            }
            if let Some(d) = d {
                let last = *route.last().unwrap();
                if far(last) != *d {
                    bad.push((
                        "route_last_edge_arrives_at_destination",
                        format!(
                            "last edge {} ends at {} not at destination {}",
                            last,
                            far(last),
                            d
                        ),
                    ));
                }
            }
        }
        Orient::Edge { o, d } => {
            if route[0] != *o {
                bad.push((
                    "route_first_edge_is_origin_edge",
                    format!("first edge is {} not the origin edge {}", route[0], o),
                ));
            }
            if let Some(d) = d {
                let last = *route.last().unwrap();
                if last != *d {
                    bad.push((
                        "route_last_edge_is_destination_edge",
                        format!("last edge is {} not the destination edge {}", last, d),
                    ));
                }
            }
        }
    }
    for w in route.windows(2) {
        if far(w[0]) != near(w[1]) {
            bad.push((
                "route_edges_chain",
                format!(
                    "edge {} ends at {} but next edge {} starts at {}",
                    w[0],
                    far(w[0]),
                    w[1],
                    near(w[1])
                ),
            ));
            break;
        }
    }
    let mut seen = std::collections::HashSet::new();
    for e in route {
        if !seen.insert(*e) {
            bad.push((
                "route_no_edge_twice",
                format!("edge {} occurs twice in {:?}", e, route),
            ));
            break;
        }
    }
    bad
}

/// tree clauses of C01. `root` is the search origin vertex (head of the origin edge for edge orientation).
pub fn tree_structure(
    net: &Net,
    tree: &[TreeEntry],
    root: usize,
    reverse: bool,
    origin_edge: Option<usize>,
) -> Vec<(&'static str, String)> {
    let mut bad = vec![];
    let map: HashMap<usize, &TreeEntry> = tree.iter().map(|e| (e.vertex, e)).collect();
    for t in tree {
        if t.edge >= net.m() {
            bad.push((
                "tree_edge_joins_parent_to_vertex",
                format!(
                    "entry {} records edge {} which is not in the network",
                    t.vertex, t.edge
                ),
            ));
            continue;
        }
        let (s, d, _) = net.edges[t.edge];
        let ok = if reverse {
            s == t.vertex && d == t.parent
        } else {
            s == t.parent && d == t.vertex
        };
        if !ok {
            bad.push((
                "tree_edge_joins_parent_to_vertex",
                format!(
                    "entry {} <- parent {} records edge {} which is {}->{}",
                    t.vertex, t.parent, t.edge, s, d
                ),
            ));
        }
    }
    // parent chains
    for t in tree {
        // the injected origin-edge entry of an edge-oriented search is checked by the clause above only
        if origin_edge == Some(t.edge) && t.vertex == root {
            continue;
        }
        // an entry keyed at the search origin itself (other than the injected origin-edge entry): following its parents must not
        // come back to the origin
        if t.vertex == root {
            let mut v = t.parent;
            let mut chain = vec![root, v];
            for _ in 0..net.n + 2 {
                if v == root {
                    bad.push(("tree_parents_reach_origin", format!("the search origin {} carries an entry (edge {}) whose parents lead back to it: {:?}", root, t.edge, chain)));
                    break;
                }
                match map.get(&v) {
                    None => break,
                    Some(e) => {
                        v = e.parent;
                        chain.push(v);
                    }
                }
            }
            continue;
        }
        let mut v = t.vertex;
        let mut visited = vec![v];
        let mut steps = 0;
        loop {
            if v == root {
                break;
            }
            match map.get(&v) {
                None => {
                    bad.push((
                        "tree_parents_reach_origin",
                        format!(
                            "chain from {} stops at {} which has no entry and is not the origin {}",
                            t.vertex, v, root
                        ),
                    ));
                    break;
                }
                Some(e) => {
                    v = e.parent;
                    if v != root && visited.contains(&v) {
                        bad.push((
                            "tree_parents_reach_origin",
                            format!(
                                "chain from {} revisits {} (visited {:?})",
                                t.vertex, v, visited
                            ),
                        ));
                        break;
                    }
                    visited.push(v);
                }
            }
            steps += 1;
            if steps > net.n + 2 {
                bad.push((
                    "tree_parents_reach_origin",
                    format!("chain from {} does not end", t.vertex),
                ));
                break;
            }
        }
    }
    let mut seen = std::collections::HashSet::new();
    bad.retain(|(c, _)| seen.insert(*c));
    bad
}

/// C03 accumulation oracle over one route. `prev_edge_before_first` is None for plain searches.
/// returns failed clauses. in edge orientation origin/destination edges may follow the zero-cost convention.
pub fn route_accumulation(
    w: &World,
    route: &[RouteEdge],
    orient: &Orient,
    reverse: bool,
) -> Vec<(&'static str, String)> {
    let mut bad = vec![];
    let tol = w.tol();
    let has_time = w.has_time();
    let init = if has_time {
        vec![w.init_dist, w.init_time]
    } else {
        vec![w.init_dist]
    };
    let edge_oriented = matches!(orient, Orient::Edge { .. });
    let n = route.len();
    let mut state = init.clone();
    let mut prev_edge: Option<usize> = None;
    // whether the previous edge was reported under the zero-cost convention (then the turn out of it may be uncharged)
    let mut prev_zero_conv = false;
    for (i, re) in route.iter().enumerate() {
        if re.state.len() != init.len() {
            bad.push((
                "state_vector_has_one_slot_per_feature",
                format!(
                    "edge {} reports {} state entries, model has {}",
                    re.edge,
                    re.state.len(),
                    init.len()
                ),
            ));
            return bad;
        }
        let (dd, dt) = w.ref_edge_delta(re.edge);
        let may_be_zero = edge_oriented && (i == 0 || i == n - 1);
        // candidate expected states
        let mut candidates: Vec<(Vec<f64>, bool)> = vec![];
        if may_be_zero && re.state == state {
            // exactly unchanged state: the zero-cost convention of the statement's exception
            candidates.push((state.clone(), true));
        }
        let delay = prev_edge
            .map(|p| {
                if reverse {
                    w.ref_turn_delay(re.edge, p)
                } else {
                    w.ref_turn_delay(p, re.edge)
                }
            })
            .unwrap_or(0.0);
        let full = if has_time {
            vec![state[0] + dd, state[1] + dt + delay]
        } else {
            vec![state[0] + dd]
        };
        candidates.push((full, false));
        if prev_zero_conv && has_time {
            // the turn out of a zero-convention origin edge may be left uncharged
            candidates.push((vec![state[0] + dd, state[1] + dt], false));
        }
        let matched = candidates.iter().find(|(c, _)| {
            c.iter()
                .zip(re.state.iter())
                .all(|(a, b)| close(*a, *b, tol))
        });
        match matched {
            None => {
                bad.push((
                    "state_is_sum_over_edges",
                    format!(
                        "after edge {} (position {}) state is {:?}, reference {:?} (from {:?})",
                        re.edge,
                        i,
                        re.state,
                        candidates.last().map(|c| c.0.clone()),
                        state
                    ),
                ));
                return bad;
            }
            Some((_, zero)) => {
                // cost of the edge = weighted rated change of the reported state
                let prev_state = state.clone();
                let total = re.access + re.traversal;
                if *zero {
                    if total != 0.0 {
                        bad.push((
                            "edge_cost_is_weighted_state_change",
                            format!("edge {} keeps the state but charges {}", re.edge, total),
                        ));
                    }
                } else {
                    let rd = re.state[0] - prev_state[0];
                    let rt = if has_time {
                        re.state[1] - prev_state[1]
                    } else {
                        0.0
                    };
                    let mut want = w.ref_vehicle_cost(rd, rt) + w.ref_surcharge(re.edge);
                    if want <= 0.0 {
                        want = 1e-10;
                    }
                    // a turn surcharge is part of the charged cost by the statement; checked in C07, accepted both ways here
                    let want_with_turn = prev_edge
                        .map(|p| {
                            want + if reverse {
                                w.ref_turn_surcharge(re.edge, p)
                            } else {
                                w.ref_turn_surcharge(p, re.edge)
                            }
                        })
                        .unwrap_or(want);
                    if !(close(total, want, 1e-9) || close(total, want_with_turn, 1e-9)) {
                        bad.push(("edge_cost_is_weighted_state_change", format!("edge {}: access {} + traversal {} = {} but weighted rated state change is {}", re.edge, re.access, re.traversal, total, want)));
                    }
                }
                prev_zero_conv = *zero;
            }
        }
        // monotone
        if re.state[0] < state[0] - 1e-12 || (has_time && re.state[1] < state[1] - 1e-12) {
            bad.push((
                "distance_and_time_never_decrease",
                format!("state {:?} -> {:?}", state, re.state),
            ));
        }
        state = re.state.clone();
        prev_edge = Some(re.edge);
    }
    let mut seen = std::collections::HashSet::new();
    bad.retain(|(c, _)| seen.insert(*c));
    bad
}

pub fn route_ids(r: &[RouteEdge]) -> Vec<usize> {
    r.iter().map(|e| e.edge).collect()
}
pub fn route_cost(r: &[RouteEdge]) -> f64 {
    r.iter().map(|e| e.access + e.traversal).sum()
}

pub fn case_json(w: &World, algo: &Algo, orient: &Orient, reverse: bool, extra: Value) -> Value {
    json!({"world": w, "algo": algo, "orient": orient, "reverse": reverse, "extra": extra})
}
